"""C07 - channel data arrives complete, in order, once, with EOF last.

Per channel the byte stream is followed through every hand-over, each under its own contract:

  write / writelines      the written bytes (the encoder's output on text channels) join the END of
                          flat(emitted) ++ flat(_send_buf), tagged with their datatype, exactly once
  _flush_send_buf         (building blocks of c08) flat(emitted) ++ flat(_send_buf) is conserved by every packet cut;
                          MSG_CHANNEL_EOF leaves iff it is pending and the buffer has drained
  write_eof / _close_send EOF deferred while data is queued ('eof_pending'), never twice
  _recv_packet            a channel message goes to the channel registered under its recipient number
  add/remove_channel      numbers handed out are not in use, only the named entry changes
  _process_(extended_)data the packet's payload string is accepted unaltered, with its datatype, only in state open
  _accept_data            chunk joins the END of ghost_delivered ++ _recv_buf once; direct delivery only with an
                          empty buffer (class invariant R: not paused => nothing buffered)
  _flush_recv_buf         moves chunks from the FRONT of _recv_buf to the session (loop invariant: delivered ++
                          buffered is constant); eof_received only with an empty buffer, only in state eof_pending,
                          at most once; decoder flushed before EOF / close; cleanup only when drained
  _deliver_data           exactly this chunk, with its datatype, through the one decoder, to the session
  _process_eof/_close, pause/resume/_start_reading, _discard_recv   state transitions and R on every writer
  set_encoding            one encoder and one decoder per text channel (the coder invariant)
"""
import z3
from pyvc.contracts import *
from pyvc.engine import LoopSpec, Out, Prove
from pyvc.values import *
from .common import *
from specs import streams as S
from . import c08 as K

ASSUMPTIONS = list(K.ASSUMPTIONS[1:]) + [
    'codecs incremental encoder / decoder are trusted externals (arbitrary output per chunk; concatenation of the '
    'outputs over any chunking equals the one-shot output is the stdlib contract); proved here: one coder instance '
    'per direction sees every chunk exactly once and in order, the decoder is finalised once after all data; the '
    'encoder is assumed to return non-empty bytes for a non-empty str (errors=strict)',
    'session callbacks: data_received may call pause_reading() but does not re-enter the channel otherwise and does '
    'not raise; eof_received returns an arbitrary bool',
    '_recv_paused is modelled as a dynamically typed value (bool or str); its domain {False, True, "starting"} is a '
    'class invariant proved on pause_reading, resume_reading, _start_reading, _discard_recv, _flush_recv_buf, '
    '_accept_data, _deliver_data (all writers except __init__, which stores "starting" with an empty buffer)',
    'class invariants assumed in requires and proved as ensures on the writers under contract: send_inv (c08) on '
    'write, write_eof, _flush_send_buf, _close_send; R (not paused => _recv_buf empty; nothing delivered before '
    'reading starts) on the functions listed above; coder invariant on set_encoding (only writer)',
    'the legal extended data types of every channel class are a subset of {EXTENDED_DATA_STDERR} (class constants, '
    'channel.py 91-92, 1125, 1497) - needed only for the debug-log lookup _data_type_names[datatype]',
    'OverflowError from UInt32(adjust) in _deliver_data is permitted (only with >= 2^32 - window buffered bytes, '
    'see C08 finding F4)',
    'add_channel: termination of the search loop is not proved for a full table (2^32 channels)',
    'writelines: binary channels only (the str variant differs in the join constant)',
    'SCOPE: the C07 claim ends where the channel calls session.data_received / session.eof_received; the buffering '
    'of the stream layer (stream.py SSHStreamSession.data_received / SSHReader.read*, per-datatype chunk lists, partial '
    'chunk split) is claimed under C19, not here',
    'session callbacks that re-enter the channel (SSHStreamSession.read -> resume_reading -> nested _flush_recv_buf; '
    'forwarders calling close() from data_received -> _discard_recv inside the flush loop) are outside the stub: the '
    'loop invariant of _flush_recv_buf is proved for callbacks that at most pause reading',
    'SSHTunTapChannel._accept_data / write (channel.py 2139-2155: strip / add a 4-byte address family around the '
    'verified methods via super()) are not under contract: TUN point-to-point framing is out of scope',
    'class invariant on the send channel number (part of send_inv here): _send_chan is None or a uint32, and the '
    'connection is still attached while it is set; writers: process_open / process_open_confirmation (value read '
    'with get_uint32 by connection.py), _close_send and _cleanup (None) - proved here on _close_send only',
    'SSHClientProcess.communicate: _maybe_resume_reading is used through the constructive form of its C19 contract '
    '(Spec maybe_resume: resumes iff paused and _should_pause_reading() is false); write / write_eof / wait_closed / '
    'collect_output of the process layer are abstract calls (only their order and the reading state at the wait are '
    'stated); no native cross-check for this coroutine',
    'ordering of DATA packets on the wire and segmentation of the transport byte stream are C02/C11 (framing, '
    'send_packet order); multi-channel isolation rests on the routing clause plus the per-channel contracts, which '
    'mention no state outside the channel object',
]

PROP = 'C07'

# ================================================================== receive side
# _recv_paused is Union[bool, str] in the source (False / True / 'starting'): modelled as the dynamically typed
# `pyobj` so that truthiness and the comparison with 'starting' are both the real Python ones.
P = pyobj_sort()
R_FIELDS = dict(CHAN_FIELDS)
R_FIELDS.update({
    '_recv_paused': 'pyobj',
    '_loop': 'opaque:Loop',
    '_read_datatypes': 'dict[int,bool]',     # a set of ints: only membership is used
    '_write_datatypes': 'dict[int,bool]',
    '_encoder': 'opt[obj:Encoder]',
    'ghost_eof_reports': 'int',              # how often session.eof_received() was called
    'ghost_cleanups': 'int',                 # how often _cleanup was scheduled
    'ghost_eof_sent': 'int',                 # how often MSG_CHANNEL_EOF was emitted
})
R_CLASSES = {'SSHChannel': R_FIELDS, 'Session': {}, 'Decoder': {}, 'Encoder': {}, 'Conn': {}}
STARTING = P.py_str(z3.StringVal('starting'))


def sv(s):
    return z3.StringVal(s)


def paused_dom(z):
    """type of _recv_paused: a bool or the string 'starting' (annotation + the three constants ever stored)"""
    return z3.Or(P.is_py_bool(z), z == STARTING)


def paused(z):
    """Python truthiness of _recv_paused on that domain"""
    return z3.Or(z3.And(P.is_py_bool(z), P.py_b(z)), z == STARTING)


def chunk(data, datatype):
    return to_z3(VTuple([data, datatype]), S.CH)


def newp(c):
    """_recv_paused as a PyObj term (the field holds a plain bool after `self._recv_paused = True`)"""
    return py_inject(c.newv('_recv_paused'))


def oldp(c):
    return py_inject(c.oldv('_recv_paused'))


def seqz(cx, name):
    """z3 sequence held in a list field at a call site (also when the code has just stored a list literal)"""
    v = cx.selff(name)
    d = cx.ex.deref(cx.st, v)
    if isinstance(d, VList):
        return to_z3(d, parse_type(R_FIELDS[name]))
    return d.z


def paused_inv(c, new=True):
    """_recv_paused is a bool or 'starting', and nothing is delivered before reading has started"""
    f = c.new if new else c.old
    pz = newp(c) if new else oldp(c)
    return z3.And(paused_dom(pz), z3.Implies(pz == STARTING, z3.Length(f('ghost_delivered')) == 0))


def recv_inv(c, new=True):
    """R: data is delivered directly only when nothing is buffered (otherwise it would overtake buffered data)"""
    f = c.new if new else c.old
    pz = newp(c) if new else oldp(c)
    return z3.And(paused_inv(c, new), z3.Or(paused(pz), z3.Length(f('_recv_buf')) == 0))


def local_only(qualname, f):
    """a clause about this function's own call events: proved on the function itself, says nothing (True) when the
    contract is used at a call site, where the caller's event log would be read instead"""
    return lambda c: f(c) if c.ex.spec.qualname == qualname else z3.BoolVal(True)


def chan_ok(c, new=True):
    """the peer's channel number is None (closed for sending) or a uint32, and then the connection is attached"""
    v = c.newv('_send_chan') if new else c.oldv('_send_chan')
    cn = c.newv('_conn') if new else c.oldv('_conn')
    if v is VNone:
        return z3.BoolVal(True)
    return z3.Or(v.isnone, z3.And(v.val.z >= 0, v.val.z < 2 ** 32, z3.Not(c.is_none(cn))))


def send_inv(c, new=True):
    return z3.And(K.send_inv(c, new), chan_ok(c, new))


def decoder_inv(c):
    """set_encoding creates the decoder together with the encoding (only writer of both fields)"""
    return z3.Implies(c.truthy(c.oldv('_encoding'), c.old_state), z3.Not(c.is_none(c.oldv('_decoder'))))


def stream(c, new=True):
    """what the application has seen followed by what is still buffered for it, as one chunk list"""
    f = c.new if new else c.old
    return z3.Concat(f('ghost_delivered'), f('_recv_buf'))


# ---- SSHChannel.send_packet: every message of this channel is addressed to the peer's number for it
def conn_send_stub(cx):
    return [Out(event=('conn_send', (cx.args[0], cx.args[1], cx.kwargs.get('handler', VNone))))]


conn_send_stub.modifies = ()


def addressed_to_the_peers_channel(c):
    from pyvc.builtins_model import be, join_fn
    ev = c.events('conn_send')
    ch = c.oldv('_send_chan')
    if ch is VNone:
        return z3.BoolVal(len(ev) == 0)
    if len(ev) == 0:
        return ch.isnone
    if len(ev) != 1:
        return z3.BoolVal(False)
    t, payload, handler = ev[0][1]
    body = join_fn(BytesS, z3.SeqSort(BytesS))(z3.Empty(BytesS), c.arg('args'))
    return z3.And(z3.Not(ch.isnone), t.z == c.arg('pkttype'),
                  # RFC 4254 5.x: uint32 recipient channel, then the message fields unaltered and in order
                  payload.z == z3.Concat(be(z3.IntVal(4), ch.val.z), body),
                  z3.BoolVal(isinstance(handler, VRef) and handler.addr == c.self_ref.addr))


chan_send_packet = Spec(
    PROP, 'channel', 'SSHChannel.send_packet', self_class='SSHChannel',
    params=dict(pkttype='int', args='seq[bytes]'), classes=R_CLASSES,
    stubs={'self._conn.send_packet': conn_send_stub},
    requires=lambda c: chan_ok(c, new=False),
    ensures=[('one-connection-packet-addressed-to-the-peers-channel-number-or-nothing-when-closed',
              addressed_to_the_peers_channel)])
chan_send_packet.vararg = 'args'


def under_send_contract(inner):
    """a caller-side stub of self.send_packet (ghost log of what is handed over) combined with the verified
    contract of SSHChannel.send_packet: its precondition becomes a pre-at-call obligation of the caller"""
    def stub(cx):
        outs = inner(cx)
        couts = contract_stub(lambda: chan_send_packet)(cx)
        outs[0].assume.extend(couts[0].assume)
        return outs
    stub.modifies = inner.modifies
    stub.spec_getter = lambda: chan_send_packet
    return stub


# ---- environment stubs -------------------------------------------------------------------------------------
def decode_stub(cx):
    """codecs incremental decoder: decode(data) / decode(b'', True).  Output is an arbitrary str; the stub logs
    which bytes went in so that the session stub can tell where a str came from."""
    final = len(cx.args) > 1
    out = cx.fresh('str', 'decoded')
    if final:
        cx.require('decoder-finalised-only-after-all-buffered-data', z3.Length(seqz(cx, '_recv_buf')) == 0)
        cx.require('decoder-final-call-carries-no-data', z3.Length(cx.args[0].z) == 0)
        return [Out(ret=out, event=('decode_final', ())), Out(exc=VExc('UnicodeDecodeError'))]
    return [Out(ret=out, event=('decode', (cx.args[0], out))), Out(exc=VExc('UnicodeDecodeError'))]


decode_stub.modifies = ()


def session_data_stub(cx):
    """session.data_received(data, datatype): the application sees one more chunk.  ghost_delivered records the
    raw bytes: the argument itself (binary channel) or the input of the decode call that produced the str.
    The callback may pause reading (pause_reading is the only channel API it is assumed to call)."""
    arg, dt = cx.args[0], cx.args[1]
    if isinstance(arg, VStr):
        src = [e for e in cx.st.events if e[0] == 'decode' and e[1][1].z.eq(arg.z)]
        cx.require('text-given-to-session-is-the-decoder-output', z3.BoolVal(len(src) == 1))
        raw = src[0][1][0] if src else VBytes(cx.fresh('bytes', 'unknown_raw').z)
    else:
        cx.require('binary-channel-does-not-decode',
                   z3.Not(cx.ex.truthy(cx.st, cx.selff('_encoding'))))
        raw = arg
    d = cx.selff('ghost_delivered')
    app_paused = cx.fresh('bool', 'paused_by_app')
    cur_paused = cx.selff('_recv_paused')
    me = cx.ex.self_ref          # the receiver of this call is the session: write the channel's fields explicitly
    return [Out(osets=[(me, 'ghost_delivered', VSeq(z3.Concat(d.z, z3.Unit(chunk(raw, dt))), S.CH)),
                       (me, '_recv_paused', VPy(z3.If(app_paused.z, P.py_bool(z3.BoolVal(True)), py_inject(cur_paused))))],
                event=('deliver', (raw, dt)))]


session_data_stub.modifies = ('ghost_delivered', '_recv_paused')


def window_packet_stub(cx):
    """channel.send_packet as seen from the receive path: only WINDOW_ADJUST may leave from here"""
    t = concrete_int(cx.args[0])
    cx.require('only-window-adjust-sent-while-delivering', z3.BoolVal(t == 93))
    return [Out(event=('adjust', tuple(cx.args[1:])))]


window_packet_stub.modifies = ()
window_packet_stub = under_send_contract(window_packet_stub)



def NOT_DELIVERED(c):
    return z3.And(c.new('ghost_delivered') == c.old('ghost_delivered'), c.new('_recv_buf') == c.old('_recv_buf'),
                  newp(c) == oldp(c))


deliver_data = Spec(
    PROP, 'channel', 'SSHChannel._deliver_data', self_class='SSHChannel',
    params=dict(data='bytes', datatype='opt[int]'), classes=R_CLASSES,
    stubs={'self.send_packet': window_packet_stub, 'self._decoder.decode': decode_stub,
           'self._session.data_received': session_data_stub},
    requires=lambda c: z3.And(decoder_inv(c), paused_dom(oldp(c)), chan_ok(c, new=False)),
    modifies=['_recv_window', '_recv_paused', 'ghost_delivered'],
    ensures=[
        ('handed-to-session-exactly-once-unaltered', lambda c: z3.Or(
            c.is_none(c.oldv('_session')),
            c.new('ghost_delivered') == z3.Concat(c.old('ghost_delivered'),
                                                  z3.Unit(chunk(c.argv('data'), c.argv('datatype')))))),
        ('every-text-chunk-goes-through-the-decoder-once', local_only('SSHChannel._deliver_data', lambda c: z3.Or(
            z3.Not(c.truthy(c.oldv('_encoding'), c.old_state)),
            z3.And(z3.BoolVal(len(c.events('decode')) == 1),
                   *[e[1][0].z == c.arg('data') for e in c.events('decode')])))),
        # the peer can only send what the window allows: the window is charged for this delivery and restored to
        # the initial window as soon as it falls below half of it - this depends on the RECEIVE window only, never
        # on the state of our send side (a local write_eof() half-close must not starve the peer's remaining data)
        ('window-charged-and-replenished-below-half', lambda c: z3.If(
            2 * (c.old('_recv_window') - z3.Length(c.arg('data'))) < c.old('_init_recv_window'),
            c.new('_recv_window') == c.old('_init_recv_window'),
            c.new('_recv_window') == c.old('_recv_window') - z3.Length(c.arg('data')))),
        ('window-adjust-sent-exactly-when-replenishing', local_only('SSHChannel._deliver_data', lambda c: z3.BoolVal(
            len(c.events('adjust')) == 1) == (2 * (c.old('_recv_window') - z3.Length(c.arg('data'))) <
                                              c.old('_init_recv_window')))),
        ('buffer-untouched', lambda c: c.new('_recv_buf') == c.old('_recv_buf')),
        ('callback-can-only-pause', lambda c: z3.Or(
            newp(c) == oldp(c),
            newp(c) == P.py_bool(z3.BoolVal(True)))),
    ],
    raises={'ProtocolError': NOT_DELIVERED, 'OverflowError': NOT_DELIVERED})


# ---- _flush_recv_buf ------------------------------------------------------------------------------------------
def bump(cx, field):
    me = cx.ex.self_ref
    return (me, field, VInt(cx.ex.get_field(cx.st, me, field).z + 1))


def eof_received_stub(cx):
    """session.eof_received(): THE point where the application learns about end-of-file"""
    cx.require('eof-reported-only-after-all-buffered-data', z3.Length(seqz(cx, '_recv_buf')) == 0)
    cx.require('eof-reported-at-most-once', cx.selff('_recv_state').z != sv('eof_pending'))
    return [Out(ret=cx.fresh('bool', 'keep_open'), osets=[bump(cx, 'ghost_eof_reports')],
                event=('eof_received', ()))]


eof_received_stub.modifies = ('ghost_eof_reports',)


def call_soon_stub(cx):
    f = cx.args[0]
    cx.require('only-_cleanup-is-scheduled', z3.BoolVal(isinstance(f, VTag) and f.tag.endswith('._cleanup')))
    cx.require('cleanup-only-after-all-buffered-data', z3.Length(seqz(cx, '_recv_buf')) == 0)
    me = cx.ex.self_ref
    return [Out(osets=[bump(cx, 'ghost_cleanups')], event=('cleanup_scheduled', tuple(cx.args[1:])))]


call_soon_stub.modifies = ('ghost_cleanups',)

SEND_MOD = ['_send_buf', '_send_buf_len', '_send_window', '_send_state', '_send_paused', '_send_chan',
            'ghost_emitted', 'ghost_eof_sent']


def write_eof_stub(cx):
    """the automatic EOF echo (session.eof_received() returned false): send side only, see write_eof below"""
    return contract_stub(lambda: write_eof)(cx)


write_eof_stub.modifies = tuple(SEND_MOD)
write_eof_stub.spec_getter = lambda: write_eof


def deliver_contract(cx):
    return contract_stub(lambda: deliver_data)(cx)


deliver_contract.modifies = tuple(deliver_data.modifies)
deliver_contract.spec_getter = lambda: deliver_data


def flush_recv_lemmas(c):
    """sequence facts about the loop-head buffer: B == [B[0]] ++ B[1:], B[0] == (B[0][0], B[0][1])"""
    B = c.ex.get_field(c.head, c.self_ref, '_recv_buf').z
    return [S.ax_eta(B)]


def events_in_order(c, first, then):
    """every `then` event is preceded by a `first` event on this path"""
    names = [e[0] for e in c.new_state.events]
    return all(first in names[:i] for i, n in enumerate(names) if n == then)


def text_mode(c):
    return c.truthy(c.oldv('_encoding'), c.old_state)


def no_exc(c):
    return z3.Not(c.truthy(c.argv('exc'), c.old_state))


FRB = 'SSHChannel._flush_recv_buf'


def has_session(c):
    return z3.Not(c.is_none(c.oldv('_session')))


def eof_now(c):
    return z3.And(c.old('_recv_state') == sv('eof_pending'), c.new('_recv_state') == sv('eof'))


def closed_now(c):
    return z3.And(c.old('_recv_state') == sv('close_pending'), c.new('_recv_state') == sv('closed'))


flush_recv_buf = Spec(
    PROP, 'channel', 'SSHChannel._flush_recv_buf', self_class='SSHChannel',
    params=dict(exc='opt[opaque:Exc]'), classes=R_CLASSES,
    stubs={'self._deliver_data': deliver_contract, 'self._decoder.decode': decode_stub,
           'self._session.eof_received': eof_received_stub, 'self.write_eof': write_eof_stub,
           'self._loop.call_soon': call_soon_stub},
    loops={1: LoopSpec(
        header='self._recv_buf and (not self._recv_paused)',
        modifies=['_recv_buf', '_recv_window', '_recv_paused', 'ghost_delivered'],
        invariant=lambda c: z3.And(
            paused_inv(c),
            z3.Implies(newp(c) == STARTING, py_inject(c._get(c.loop_entry, '_recv_paused')) == STARTING),
            z3.Or(c.is_none(c.oldv('_session')),
                  stream(c) == z3.Concat(c.at_entry('ghost_delivered'), c.at_entry('_recv_buf')))),
        variant=lambda c: z3.Length(c.new('_recv_buf')),
        lemmas=flush_recv_lemmas)},
    requires=lambda c: z3.And(decoder_inv(c), paused_inv(c, new=False), send_inv(c, new=False)),
    modifies=['_recv_buf', '_recv_window', '_recv_paused', '_recv_state', 'ghost_delivered',
              'ghost_eof_reports', 'ghost_cleanups'] + SEND_MOD,
    ensures=[
        # complete, in order, once: the flush only moves chunks from the front of the buffer to the application
        ('delivered-in-fifo-order-nothing-lost-or-duplicated', lambda c: z3.Or(
            c.is_none(c.oldv('_session')), stream(c) == stream(c, new=False))),
        # EOF last: only with an empty buffer, only if the peer's EOF is pending, at most once
        # ... reported exactly when it is pending, the buffer has drained AND a session is still attached; on a
        # channel that was already cleaned up (no session) nothing is reported and no EOF echo is sent
        ('eof-reported-only-when-pending-and-drained', lambda c: z3.And(
            c.new('ghost_eof_reports') == c.old('ghost_eof_reports') + z3.If(
                z3.And(eof_now(c), has_session(c)), 1, 0),
            z3.Implies(eof_now(c), z3.Length(c.new('_recv_buf')) == 0))),
        ('no-session-no-report-no-echo', lambda c: z3.Implies(
            z3.Not(has_session(c)),
            z3.And(c.new('ghost_eof_reports') == c.old('ghost_eof_reports'), unchanged(c, *SEND_FIELDS)))),
        ('eof-report-count-is-the-number-of-eof_received-calls', local_only(FRB, lambda c: z3.And(
            z3.BoolVal(len(c.events('eof_received')) <= 1),
            c.new('ghost_eof_reports') == c.old('ghost_eof_reports') + len(c.events('eof_received'))))),
        # ... and EOF is not withheld once the data is out (reading started)
        ('eof-stays-pending-only-while-data-is-buffered', lambda c: z3.Implies(
            c.new('_recv_state') == sv('eof_pending'),
            z3.Or(z3.Length(c.new('_recv_buf')) > 0, newp(c) == STARTING))),
        # EOF iff the sender signalled it, local direction: the automatic EOF echo happens only when the
        # application answered eof_received() with false and the channel was still open for sending
        ('eof-echo-only-on-a-false-answer-while-open-for-sending', local_only(FRB, lambda c: z3.If(
            z3.And(c.old('_send_state') == sv('open'),
                   z3.Or(*[z3.Not(c.truthy(x['ret'])) for x in c.calls('eof_received')] + [z3.BoolVal(False)])),
            z3.And(c.new('_send_state') != sv('open'),
                   c.new('ghost_eof_sent') <= c.old('ghost_eof_sent') + 1),
            unchanged(c, *SEND_FIELDS)))),
        ('no-eof-report-no-echo', lambda c: z3.Implies(
            z3.Or(c.new('ghost_eof_reports') == c.old('ghost_eof_reports'), c.old('_send_state') != sv('open')),
            unchanged(c, *SEND_FIELDS))),
        ('never-back-to-starting', lambda c: z3.Implies(newp(c) == STARTING, oldp(c) == STARTING)),
        ('recv-state-transitions', lambda c: z3.Or(
            c.new('_recv_state') == c.old('_recv_state'), eof_now(c), closed_now(c))),
        # text channels: the incremental decoder is flushed before EOF / close is reported, once, after all data
        ('decoder-flushed-before-eof-and-close', local_only(FRB, lambda c: z3.Or(
            z3.Not(text_mode(c)), z3.Not(no_exc(c)),
            z3.Length(c.new('ghost_delivered')) == 0,      # nothing has ever reached the decoder
            z3.BoolVal(events_in_order(c, 'decode_final', 'eof_received') and
                       events_in_order(c, 'decode_final', 'cleanup_scheduled') and
                       len(c.events('decode_final')) <= 1)))),
        ('cleanup-only-when-close-pending-and-drained', lambda c: z3.And(
            c.new('ghost_cleanups') == c.old('ghost_cleanups') + z3.If(closed_now(c), 1, 0),
            z3.Implies(closed_now(c), z3.Length(c.new('_recv_buf')) == 0))),
        ('cleanup-count-is-the-number-of-scheduled-cleanups', local_only(FRB, lambda c: z3.And(
            z3.BoolVal(len(c.events('cleanup_scheduled')) <= 1),
            c.new('ghost_cleanups') == c.old('ghost_cleanups') + len(c.events('cleanup_scheduled')),
            *[c.eq(e[1][0], c.argv('exc')) for e in c.events('cleanup_scheduled')]))),
        ('close-stays-pending-only-while-data-is-buffered', lambda c: z3.Implies(
            c.new('_recv_state') == sv('close_pending'), z3.Length(c.new('_recv_buf')) > 0)),
        ('class-inv', lambda c: recv_inv(c)),
    ],
    raises={'ProtocolError': True, 'OverflowError': True})


# ================================================================== send side
def send_packet_stub(cx):
    """channel.send_packet on the send path: c08's stub (ghost log of DATA / EXTENDED_DATA in wire order, EOF only
    with an empty send buffer) + a ghost counter of the EOF messages"""
    outs = K.chan_send_packet_stub(cx)
    if concrete_int(cx.args[0]) == 96:
        outs[0].sets['ghost_eof_sent'] = VInt(cx.selff('ghost_eof_sent').z + 1)
    return outs


send_packet_stub.modifies = ('ghost_emitted', 'ghost_eof_sent')
send_packet_stub = under_send_contract(send_packet_stub)


def eof_due(c):
    return z3.And(c.old('_send_state') == sv('eof_pending'), z3.Length(c.new('_send_buf')) == 0)


flush_send_buf = Spec(
    PROP, 'channel', 'SSHChannel._flush_send_buf', self_class='SSHChannel', classes=R_CLASSES,
    stubs={'self.send_packet': send_packet_stub, 'self._pause_resume_writing': K.pause_resume_stub,
           'self._close_send': contract_stub(lambda: close_send)},
    loops={1: LoopSpec(
        header='self._send_buf and self._send_window',
        modifies=['ghost_emitted'],
        invariant=lambda c: z3.And(send_inv(c),
                                   c.new('_send_pktsize') == c.at_entry('_send_pktsize'),
                                   c.new('ghost_eof_sent') == c.at_entry('ghost_eof_sent'),
                                   K.conservation(c, c.at_entry('ghost_emitted'), c.at_entry('_send_buf'))),
        variant=lambda c: c.new('_send_window'),
        lemmas=K.flush_lemmas)},
    requires=lambda c: send_inv(c, new=False),
    modifies=SEND_MOD,
    lemmas=lambda c: [S.ax_empty()],
    ensures=[
        ('flushed-all-the-window-allows',
         lambda c: z3.Or(z3.Length(c.new('_send_buf')) == 0, c.new('_send_window') == 0)),
        # complete, in order, once: what was emitted so far followed by what is still queued never changes
        ('nothing-lost-or-duplicated',
         lambda c: K.conservation(c, c.old('ghost_emitted'), c.old('_send_buf'))),
        # EOF last: MSG_CHANNEL_EOF leaves exactly when it is pending and the buffer has drained
        ('eof-sent-iff-pending-and-drained', lambda c: z3.And(
            c.new('ghost_eof_sent') == c.old('ghost_eof_sent') + z3.If(eof_due(c), 1, 0),
            z3.Implies(eof_due(c), c.new('_send_state') == sv('eof')))),
        ('eof-stays-pending-only-while-data-is-queued', lambda c: z3.Implies(
            c.new('_send_state') == sv('eof_pending'), z3.Length(c.new('_send_buf')) > 0)),
        ('send-state-transitions', lambda c: z3.Or(
            c.new('_send_state') == c.old('_send_state'),
            z3.And(eof_due(c), c.new('_send_state') == sv('eof')),
            z3.And(c.old('_send_state') == sv('close_pending'), c.new('_send_state') == sv('closed'),
                   z3.Length(c.new('_send_buf')) == 0))),
        ('class-inv', lambda c: send_inv(c)),
    ])


write_eof = Spec(
    PROP, 'channel', 'SSHChannel.write_eof', self_class='SSHChannel', classes=R_CLASSES,
    stubs={'self._flush_send_buf': contract_stub(lambda: flush_send_buf)},
    requires=lambda c: send_inv(c, new=False),
    modifies=SEND_MOD,
    ensures=[
        ('eof-deferred-while-data-is-queued', lambda c: z3.Implies(
            c.old('_send_state') == sv('open'),
            z3.Or(z3.And(c.new('_send_state') == sv('eof_pending'), z3.Length(c.new('_send_buf')) > 0,
                         c.new('ghost_eof_sent') == c.old('ghost_eof_sent')),
                  z3.And(c.new('_send_state') == sv('eof'), z3.Length(c.new('_send_buf')) == 0,
                         c.new('ghost_eof_sent') == c.old('ghost_eof_sent') + 1)))),
        ('no-second-eof', lambda c: z3.Implies(
            c.old('_send_state') != sv('open'),
            z3.And(c.new('ghost_eof_sent') == c.old('ghost_eof_sent'),
                   c.new('_send_state') == c.old('_send_state')))),
        ('nothing-lost-or-duplicated',
         lambda c: K.conservation(c, c.old('ghost_emitted'), c.old('_send_buf'))),
        ('class-inv', lambda c: send_inv(c)),
    ])


# ================================================================== receive side, continued
def flush_recv_contract(cx):
    return contract_stub(lambda: flush_recv_buf)(cx)


flush_recv_contract.modifies = tuple(flush_recv_buf.modifies)
flush_recv_contract.spec_getter = lambda: flush_recv_buf

LOCALLY_CLOSED = lambda c: z3.Or(c.old('_send_state') == sv('close_pending'), c.old('_send_state') == sv('closed'))

accept_data = Spec(
    PROP, 'channel', 'SSHChannel._accept_data', self_class='SSHChannel',
    params=dict(data='bytes', datatype='opt[int]'), classes=R_CLASSES,
    stubs={'self._deliver_data': deliver_contract},
    requires=lambda c: z3.And(decoder_inv(c), recv_inv(c, new=False), chan_ok(c, new=False)),
    modifies=['_recv_buf', '_recv_window', '_recv_paused', 'ghost_delivered'],
    ensures=[
        # the chunk joins the end of the stream the application sees - exactly once, behind everything buffered
        ('accepted-once-at-the-end-of-the-stream', lambda c: z3.Or(
            z3.Length(c.arg('data')) == 0, LOCALLY_CLOSED(c), c.is_none(c.oldv('_session')),
            stream(c) == z3.Concat(stream(c, new=False), z3.Unit(chunk(c.argv('data'), c.argv('datatype')))))),
        ('delivered-directly-only-when-nothing-is-buffered', lambda c: z3.Or(
            c.new('ghost_delivered') == c.old('ghost_delivered'), z3.Length(c.old('_recv_buf')) == 0)),
        ('buffered-iff-reading-is-paused', lambda c: z3.Implies(
            z3.And(z3.Length(c.arg('data')) > 0, z3.Not(LOCALLY_CLOSED(c)), paused(oldp(c))),
            z3.And(c.new('_recv_buf') == z3.Concat(c.old('_recv_buf'),
                                                   z3.Unit(chunk(c.argv('data'), c.argv('datatype')))),
                   c.new('ghost_delivered') == c.old('ghost_delivered')))),
        # documented: data arriving after the local side closed is dropped; empty data carries nothing
        ('dropped-only-when-empty-or-locally-closed', lambda c: z3.Implies(
            z3.Or(z3.Length(c.arg('data')) == 0, LOCALLY_CLOSED(c)),
            z3.And(stream(c) == stream(c, new=False), c.new('_recv_buf') == c.old('_recv_buf')))),
        ('class-inv', lambda c: recv_inv(c)),
    ],
    raises={'ProtocolError': NOT_DELIVERED, 'OverflowError': NOT_DELIVERED})


# ---- incoming DATA / EXTENDED_DATA: the payload string of the packet is accepted unaltered (RFC 4254 5.2)
def accept_event_stub(cx):
    dt = cx.args[1] if len(cx.args) > 1 else cx.kwargs.get('datatype', VNone)
    return [Out(event=('accept', (cx.args[0], dt)))]


accept_event_stub.modifies = ()


def accept_contract(cx):
    """_accept_data under its verified contract (requires checked here) + the event the clauses below read"""
    ev = accept_event_stub(cx)[0].event
    if len(cx.args) < 2:
        cx.kwargs.setdefault('datatype', VNone)
    outs = contract_stub(lambda: accept_data)(cx)
    for o in outs:
        o.event = ev
    return outs


accept_contract.modifies = ('_recv_buf', '_recv_window', '_recv_paused', 'ghost_delivered')
accept_contract.spec_getter = lambda: accept_data


def pkt(c):
    st = c.old_state
    r = st.rec(c.argv('packet'))
    return r.fields['_packet'].z, r.fields['_idx'].z, r.fields['_len'].z


def payload_is(c, off):
    """the accepted bytes are exactly the `string data` field at offset `off` of the unread part, which ends the
    packet: uint32 length n followed by n bytes"""
    from pyvc.builtins_model import unbe
    p, i, n = pkt(c)
    ev = c.events('accept')
    if len(ev) != 1:
        return z3.BoolVal(False)
    d = ev[0][1][0].z
    return z3.And(d == z3.Extract(p, i + off + 4, n - (i + off + 4)),
                  z3.Length(d) == unbe(z3.Extract(p, i + off, 4)), i + off + 4 <= n)


def no_accept(c):
    return z3.BoolVal(len(c.events('accept')) == 0)


ACCEPT_REQ = lambda c: z3.And(decoder_inv(c), recv_inv(c, new=False), chan_ok(c, new=False))
# rejected before anything is accepted - or a decode error (text channel) / window overflow inside _accept_data
DATA_RAISES = {'ProtocolError': lambda c: z3.Or(no_accept(c), c.old('_recv_state') == sv('open')),
               'PacketDecodeError': no_accept, 'OverflowError': True}
PKT_PARAMS = dict(_pkttype='int', _pktid='int', packet='obj:SSHPacket')
PKT_CLASSES = dict(R_CLASSES, **PACKET_CLASSES)

def only_stderr(m):
    k = z3.Int(fresh_name('k'))
    return z3.ForAll([k], z3.Implies(z3.Select(m.dom, k), k == 1))


process_data = Spec(
    PROP, 'channel', 'SSHChannel._process_data', self_class='SSHChannel', params=PKT_PARAMS,
    classes=PKT_CLASSES, inline=dict(PACKET_INLINE), truthy=PACKET_TRUTHY,
    stubs={'self._accept_data': accept_contract},
    requires=lambda c: z3.And(packet_wf(c, c.argv('packet')), ACCEPT_REQ(c)),
    ensures=[
        ('payload-accepted-once-unaltered-as-normal-data', lambda c: z3.And(
            payload_is(c, 0), *[c.is_none(e[1][1]) for e in c.events('accept')])),
        ('data-only-before-eof-and-close', lambda c: c.old('_recv_state') == sv('open')),
    ],
    raises=DATA_RAISES)

process_extended_data = Spec(
    PROP, 'channel', 'SSHChannel._process_extended_data', self_class='SSHChannel', params=PKT_PARAMS,
    classes=PKT_CLASSES, inline=dict(PACKET_INLINE), truthy=PACKET_TRUTHY,
    stubs={'self._accept_data': accept_contract},
    # the legal read datatypes of every channel class are a subset of {EXTENDED_DATA_STDERR} (class constants
    # channel.py:91,1125), all of which have a name in _data_type_names (used only for the debug log line)
    requires=lambda c: z3.And(packet_wf(c, c.argv('packet')), only_stderr(c.oldv('_read_datatypes')),
                              ACCEPT_REQ(c)),
    ensures=[
        ('payload-accepted-once-unaltered-with-its-datatype', lambda c: z3.And(
            payload_is(c, 4),
            *[c.eq(e[1][1], VInt(__import__('pyvc.builtins_model', fromlist=['unbe']).unbe(
                z3.Extract(pkt(c)[0], pkt(c)[1], 4)))) for e in c.events('accept')])),
        ('data-only-before-eof-and-close', lambda c: c.old('_recv_state') == sv('open')),
    ],
    raises=DATA_RAISES)


# ---- incoming EOF / CLOSE
def flush_after(state):
    """_flush_recv_buf under its contract, called with _recv_state already moved to `state`"""
    def stub(cx):
        cx.require(f'state-is-{state}-before-the-flush', cx.selff('_recv_state').z == sv(state))
        if not cx.args:
            cx.kwargs.setdefault('exc', VNone)       # the parameter's default
        return flush_recv_contract(cx)
    stub.modifies = flush_recv_contract.modifies
    stub.spec_getter = flush_recv_contract.spec_getter
    return stub


def unchanged(c, *fields):
    return z3.And(*[c.new(f) == c.old(f) for f in fields])


RECV_GHOSTS = ('_recv_buf', '_recv_state', 'ghost_delivered', 'ghost_eof_reports', 'ghost_cleanups')
FLUSH_REQ = lambda c: z3.And(decoder_inv(c), paused_inv(c, new=False), send_inv(c, new=False))
FLUSH_RAISES = {'OverflowError': True}

process_eof = Spec(
    PROP, 'channel', 'SSHChannel._process_eof', self_class='SSHChannel', params=PKT_PARAMS,
    classes=PKT_CLASSES, inline=dict(PACKET_INLINE), truthy=PACKET_TRUTHY,
    stubs={'self._flush_recv_buf': flush_after('eof_pending')},
    requires=lambda c: z3.And(FLUSH_REQ(c), packet_wf(c, c.argv('packet'))),
    modifies=list(flush_recv_buf.modifies),
    ensures=[
        ('eof-only-once-and-before-close', lambda c: c.old('_recv_state') == sv('open')),
        ('no-data-accepted-after-eof', lambda c: z3.Or(c.new('_recv_state') == sv('eof_pending'),
                                                       c.new('_recv_state') == sv('eof'))),
        # EOF last: reported at once if nothing is buffered, else left pending behind the buffered data
        ('eof-reported-now-or-pending-behind-buffered-data', lambda c: z3.Or(
            z3.And(c.new('_recv_state') == sv('eof'), z3.Length(c.new('_recv_buf')) == 0,
                   c.new('ghost_eof_reports') == c.old('ghost_eof_reports') + z3.If(has_session(c), 1, 0)),
            z3.And(c.new('_recv_state') == sv('eof_pending'),
                   c.new('ghost_eof_reports') == c.old('ghost_eof_reports'),
                   z3.Or(z3.Length(c.new('_recv_buf')) > 0, newp(c) == STARTING)))),
        ('nothing-lost-or-duplicated', lambda c: z3.Or(c.is_none(c.oldv('_session')),
                                                       stream(c) == stream(c, new=False))),
    ],
    raises=dict(FLUSH_RAISES, **{
        # a second EOF, EOF after close, or a malformed packet: rejected before anything changes
        'ProtocolError': lambda c: z3.Or(unchanged(c, *RECV_GHOSTS), c.old('_recv_state') == sv('open')),
        'PacketDecodeError': lambda c: unchanged(c, *RECV_GHOSTS)}))


def close_send_contract(cx):
    return contract_stub(lambda: close_send)(cx)


close_send_contract.modifies = tuple(SEND_MOD)
close_send_contract.spec_getter = lambda: close_send

process_close = Spec(
    PROP, 'channel', 'SSHChannel._process_close', self_class='SSHChannel', params=PKT_PARAMS,
    classes=PKT_CLASSES, inline=dict(PACKET_INLINE), truthy=PACKET_TRUTHY,
    stubs={'self._flush_recv_buf': flush_after('close_pending'), 'self._close_send': close_send_contract},
    requires=lambda c: z3.And(FLUSH_REQ(c), packet_wf(c, c.argv('packet'))),
    modifies=list(flush_recv_buf.modifies),
    ensures=[
        ('close-only-on-an-open-channel', lambda c: z3.Or(*[c.old('_recv_state') == sv(s)
                                                            for s in ('open', 'eof_pending', 'eof')])),
        # the close is acted on only behind the buffered data
        ('closed-now-or-pending-behind-buffered-data', lambda c: z3.Or(
            z3.And(c.new('_recv_state') == sv('closed'), z3.Length(c.new('_recv_buf')) == 0,
                   c.new('ghost_cleanups') == c.old('ghost_cleanups') + 1),
            z3.And(c.new('_recv_state') == sv('close_pending'), z3.Length(c.new('_recv_buf')) > 0,
                   c.new('ghost_cleanups') == c.old('ghost_cleanups')))),
        # EOF iff the sender signalled it: a close alone is never turned into an EOF report
        ('close-is-not-reported-as-eof', lambda c: z3.Implies(
            c.old('_recv_state') != sv('eof_pending'), c.new('ghost_eof_reports') == c.old('ghost_eof_reports'))),
        # ... and an EOF the sender did signal (still waiting behind buffered data) is not forgotten because the
        # CLOSE overtakes it: it is reported now or stays pending.  FAILS on the pinned tree (finding F-C07-1,
        # notes/findings/c07_eof_lost_on_close.py): _recv_state is overwritten with 'close_pending'.
        ('pending-eof-survives-close', lambda c: z3.Implies(
            # (not after a local close()/abort(): then the application has given up the receive side, documented)
            z3.And(c.old('_recv_state') == sv('eof_pending'), z3.Not(LOCALLY_CLOSED(c))),
            z3.Or(c.new('ghost_eof_reports') == c.old('ghost_eof_reports') + 1,
                  c.new('_recv_state') == sv('eof_pending')))),
        ('nothing-lost-or-duplicated', lambda c: z3.Or(c.is_none(c.oldv('_session')),
                                                       stream(c) == stream(c, new=False))),
    ],
    raises=dict(FLUSH_RAISES, **{
        'ProtocolError': lambda c: z3.Or(unchanged(c, *RECV_GHOSTS),
                                         z3.Or(*[c.old('_recv_state') == sv(s)
                                                 for s in ('open', 'eof_pending', 'eof')])),
        'PacketDecodeError': lambda c: unchanged(c, *RECV_GHOSTS)}))

# ---- local close of the send direction: queued data is discarded (documented for abort / close-after-flush)
close_send = Spec(
    PROP, 'channel', 'SSHChannel._close_send', self_class='SSHChannel', classes=R_CLASSES,
    stubs={'self.send_packet': send_packet_stub},
    requires=lambda c: chan_ok(c, new=False),
    modifies=SEND_MOD,
    lemmas=lambda c: [S.ok_empty()],
    ensures=[
        ('send-side-closed-and-empty', lambda c: z3.And(c.new('_send_state') == sv('closed'),
                                                        z3.Length(c.new('_send_buf')) == 0,
                                                        c.new('_send_buf_len') == 0)),
        ('no-data-and-no-eof-emitted', lambda c: z3.And(c.new('ghost_emitted') == c.old('ghost_emitted'),
                                                        c.new('ghost_eof_sent') == c.old('ghost_eof_sent'))),
        ('class-inv', lambda c: z3.Implies(send_inv(c, new=False), send_inv(c))),
    ])


# ---- reading control: every writer of _recv_paused / _recv_buf keeps R
def resume_flush(cx):
    cx.require('reading-enabled-before-the-flush', z3.Not(paused(py_inject(cx.selff('_recv_paused')))))
    if not cx.args:
        cx.kwargs.setdefault('exc', VNone)
    return flush_recv_contract(cx)


resume_flush.modifies = flush_recv_contract.modifies
resume_flush.spec_getter = flush_recv_contract.spec_getter

pause_reading = Spec(
    PROP, 'channel', 'SSHChannel.pause_reading', self_class='SSHChannel', classes=R_CLASSES,
    requires=lambda c: recv_inv(c, new=False),
    ensures=[('nothing-delivered-or-dropped', lambda c: unchanged(c, '_recv_buf', 'ghost_delivered', '_recv_state')),
             ('class-inv', lambda c: recv_inv(c))])

RESUME_ENSURES = [
    ('nothing-lost-or-duplicated', lambda c: z3.Or(c.is_none(c.oldv('_session')), stream(c) == stream(c, new=False))),
    ('eof-only-behind-the-data', lambda c: z3.Implies(c.new('ghost_eof_reports') != c.old('ghost_eof_reports'),
                                                      z3.Length(c.new('_recv_buf')) == 0)),
    ('class-inv', lambda c: recv_inv(c)),
]

resume_reading = Spec(
    PROP, 'channel', 'SSHChannel.resume_reading', self_class='SSHChannel', classes=R_CLASSES,
    stubs={'self._flush_recv_buf': resume_flush},
    requires=lambda c: z3.And(FLUSH_REQ(c), recv_inv(c, new=False)),
    modifies=list(flush_recv_buf.modifies),
    ensures=RESUME_ENSURES + [
        ('buffered-data-is-flushed-on-resume', lambda c: z3.Or(
            z3.Length(c.new('_recv_buf')) == 0, paused(newp(c)))),
    ],
    raises=dict(FLUSH_RAISES, ProtocolError=True))

start_reading = Spec(
    PROP, 'channel', 'SSHChannel._start_reading', self_class='SSHChannel', classes=R_CLASSES,
    stubs={'self._flush_recv_buf': resume_flush},
    requires=lambda c: z3.And(FLUSH_REQ(c), recv_inv(c, new=False)),
    modifies=list(flush_recv_buf.modifies),
    ensures=RESUME_ENSURES + [
        ('an-explicit-pause-at-startup-is-kept', lambda c: z3.Implies(
            oldp(c) != STARTING, z3.And(newp(c) == oldp(c), unchanged(c, '_recv_buf', 'ghost_delivered')))),
        ('reading-has-started', lambda c: newp(c) != STARTING),
    ],
    raises=dict(FLUSH_RAISES, ProtocolError=True))

discard_recv = Spec(
    PROP, 'channel', 'SSHChannel._discard_recv', self_class='SSHChannel', classes=R_CLASSES,
    stubs={'self._loop.call_soon': call_soon_stub},
    requires=lambda c: recv_inv(c, new=False),
    ensures=[
        # local close()/abort(): undelivered data is discarded (documented), never delivered later or twice
        ('nothing-delivered', lambda c: c.new('ghost_delivered') == c.old('ghost_delivered')),
        ('no-eof-report', lambda c: c.new('ghost_eof_reports') == c.old('ghost_eof_reports')),
        ('buffer-empty', lambda c: z3.Length(c.new('_recv_buf')) == 0),
        ('class-inv', lambda c: recv_inv(c)),
    ])


# ================================================================== send side: write / writelines
def encode_stub(cx):
    """codecs incremental encoder (trusted external): some bytes for the str; assumed non-empty for a non-empty
    str (holds for the stdlib codecs with the default errors='strict')"""
    out = cx.fresh('bytes', 'encoded')
    a = cx.args[0]
    return [Out(ret=out, assume=[z3.Implies(z3.Length(a.z) > 0, z3.Length(out.z) > 0)],
                event=('encode', (a, out)))]


encode_stub.modifies = ()


def flush_send_contract(cx):
    # definitional instances of flat / chunks_ok for the list the code has just built by append:  B ++ [x]
    B1 = seqz(cx, '_send_buf')
    if B1.decl().kind() == z3.Z3_OP_SEQ_CONCAT and B1.num_args() == 2 and \
            B1.arg(1).decl().kind() == z3.Z3_OP_SEQ_UNIT:
        cx.st.assume(S.ax_snoc(B1.arg(0), B1.arg(1).arg(0)))
        cx.st.assume(S.ok_snoc(B1.arg(0), B1.arg(1).arg(0)))
    return contract_stub(lambda: flush_send_buf)(cx)


flush_send_contract.modifies = tuple(SEND_MOD)
flush_send_contract.spec_getter = lambda: flush_send_buf


def uint32_or_none(v):
    return z3.Or(v.isnone, z3.And(v.val.z >= 0, v.val.z < 2 ** 32))


def wire_bytes(c):
    """the bytes write() has to put on the stream: the data itself, or the encoder's output for it"""
    enc = c.events('encode')
    return enc[0][1][1].z if enc else c.arg('data')


def appended(c):
    return S.mk(wire_bytes(c), to_z3(c.argv('datatype'), parse_type('opt[int]')))


def write_lemmas(c):
    x = appended(c)
    B = c.old('_send_buf')
    return [S.ax_snoc(B, x), S.ok_snoc(B, x)]


WRITE_REQ = lambda c: z3.And(
    send_inv(c, new=False), uint32_or_none(c.argv('datatype')),
    only_stderr(c.oldv('_write_datatypes')),
    z3.Implies(c.truthy(c.oldv('_encoding'), c.old_state), z3.Not(c.is_none(c.oldv('_encoder')))))
SEND_FIELDS = ('_send_buf', '_send_buf_len', '_send_state', 'ghost_emitted', 'ghost_eof_sent')
WRITE_ENSURES = [
    # complete, in order, once: the written bytes join the end of (emitted ++ queued), tagged with their datatype
    ('written-bytes-join-the-end-of-the-stream-once', lambda c: z3.Implies(
        z3.Length(c.arg('data')) > 0,
        z3.Concat(S.flat(c.new('ghost_emitted')), S.flat(c.new('_send_buf'))) ==
        z3.Concat(S.flat(c.old('ghost_emitted')), S.flat(c.old('_send_buf')), S.tagged(appended(c))))),
    ('text-goes-through-the-encoder-exactly-once', lambda c: z3.And(
        z3.BoolVal(len(c.events('encode')) <= 1),
        z3.Implies(z3.And(c.truthy(c.oldv('_encoding'), c.old_state), z3.Length(c.arg('data')) > 0),
                   z3.BoolVal(len(c.events('encode')) == 1)),
        *[e[1][0].z == c.arg('data') for e in c.events('encode')])),
    ('empty-write-changes-nothing', lambda c: z3.Implies(z3.Length(c.arg('data')) == 0,
                                                         unchanged(c, *SEND_FIELDS))),
    ('only-on-a-channel-open-for-sending', lambda c: c.old('_send_state') == sv('open')),
    ('no-eof-from-a-write', lambda c: c.new('ghost_eof_sent') == c.old('ghost_eof_sent')),
    ('class-inv', lambda c: send_inv(c)),
]
WRITE_RAISES = {'BrokenPipeError': lambda c: z3.And(unchanged(c, *SEND_FIELDS),
                                                    c.old('_send_state') != sv('open')),
                'OSError': lambda c: unchanged(c, *SEND_FIELDS)}

write = Spec(
    PROP, 'channel', 'SSHChannel.write', self_class='SSHChannel',
    params=dict(data='bytes', datatype='opt[int]'), classes=R_CLASSES,
    stubs={'self._encoder.encode': encode_stub, 'self._flush_send_buf': flush_send_contract},
    globals={'_data_type_names': wrap_const({1: 'stderr'})},
    requires=WRITE_REQ, modifies=SEND_MOD, lemmas=write_lemmas,
    ensures=WRITE_ENSURES, raises=WRITE_RAISES)


# ================================================================== connection: the channel table
# every channel gets a receive number nobody else holds, so _recv_packet's lookup self._channels[recipient]
# can only ever hand a packet to the channel it was sent to
# the channel objects are only stored and looked up here: opaque values
TABLE_CONN = {'_transport': 'opt[opaque:Transport]', '_channels': 'dict[int,opaque:Chan]', '_next_recv_chan': 'int'}
TABLE_CLASSES = {'SSHConnection': TABLE_CONN}


def table(c, new=True):
    m = c.newv('_channels') if new else c.oldv('_channels')
    return m


def chan_key(c, m, k):
    """the channel object stored under key k (as a reference term)"""
    return z3.Select(m.val, k)


def table_inv(c, new=True):
    f = c.new if new else c.old
    return z3.And(f('_next_recv_chan') >= 0, f('_next_recv_chan') < 2 ** 32)


add_channel = Spec(
    PROP, 'connection', 'SSHConnection.add_channel', self_class='SSHConnection',
    params=dict(chan='opaque:Chan'), classes=TABLE_CLASSES, returns='int',
    loops={1: LoopSpec(
        header='self._next_recv_chan in self._channels',
        invariant=lambda c: z3.And(table_inv(c), c.newv('_channels').dom == c.oldv('_channels').dom,
                                   c.newv('_channels').val == c.oldv('_channels').val),
        variant=None)},
    requires=lambda c: table_inv(c, new=False),
    ensures=[
        ('fresh-number: not-in-use-before', lambda c: z3.Not(z3.Select(c.oldv('_channels').dom, c.result))),
        ('number-is-a-uint32', lambda c: z3.And(c.result >= 0, c.result < 2 ** 32)),
        ('registered-under-that-number-and-nothing-else-changed', lambda c: z3.And(
            c.newv('_channels').dom == z3.Store(c.oldv('_channels').dom, c.result, True),
            z3.Select(c.newv('_channels').val, c.result) == c.arg('chan'),
            *[z3.ForAll([k], z3.Implies(k != c.result, z3.Select(c.newv('_channels').val, k) ==
                                        z3.Select(c.oldv('_channels').val, k)))
              for k in [z3.Int(fresh_name('k'))]])),
        ('class-inv', lambda c: table_inv(c)),
    ],
    raises={'ChannelOpenError': lambda c: z3.And(c.newv('_channels').dom == c.oldv('_channels').dom,
                                                 c.newv('_channels').val == c.oldv('_channels').val)})

remove_channel = Spec(
    PROP, 'connection', 'SSHConnection.remove_channel', self_class='SSHConnection',
    params=dict(recv_chan='int'), classes=TABLE_CLASSES,
    ensures=[
        ('only-that-number-is-released', lambda c: z3.And(
            z3.Select(c.oldv('_channels').dom, c.arg('recv_chan')),
            c.newv('_channels').dom == z3.Store(c.oldv('_channels').dom, c.arg('recv_chan'), False),
            *[z3.ForAll([k], z3.Implies(k != c.arg('recv_chan'), z3.Select(c.newv('_channels').val, k) ==
                                        z3.Select(c.oldv('_channels').val, k)))
              for k in [z3.Int(fresh_name('k'))]])),
    ],
    raises={'KeyError': lambda c: z3.And(z3.Not(z3.Select(c.oldv('_channels').dom, c.arg('recv_chan'))),
                                         c.newv('_channels').dom == c.oldv('_channels').dom)})


# ---- dispatch: a channel message reaches exactly the channel registered under its recipient number
from . import c06 as D     # building blocks of the _recv_packet contract (stubs, requires); C06 proves the phase table


def routed_by_recipient_number(c):
    st = c.new_state
    conj = []
    for _n, (h, pkttype, seq, packet) in c.events('process_packet'):
        if st.rec(h).cls != 'Channel':
            # the per-channel messages of RFC 4254 (93 WINDOW_ADJUST .. 100 FAILURE) never go anywhere else
            conj.append(z3.Not(z3.And(pkttype.z >= 93, pkttype.z <= 100)))
            continue
        payload = st.rec(packet).fields['_packet'].z
        keyz = [kz for (mid, kz, addr) in st.heap.get('__mapobj_keys__', ()) if addr == h.addr]
        conj.append(z3.BoolVal(len(keyz) == 1))
        for kz in keyz:
            # byte 0 is the message type, bytes 1..4 the recipient channel (RFC 4254 5.x)
            conj.append(kz == D.unbe(z3.Extract(payload, 1, 4)))
            conj.append(z3.Select(c.oldv('_channels').dom, kz))
        conj.append(z3.And(pkttype.z >= 93, pkttype.z <= 127))     # RFC 4250 4.1.2: channel related range
    return z3.And(conj) if conj else z3.BoolVal(True)


recv_packet = Spec(
    PROP, 'connection', 'SSHConnection._recv_packet', self_class='SSHConnection',
    classes=dict(CONN_CLASSES, **PACKET_CLASSES), inline=dict(PACKET_INLINE), truthy=PACKET_TRUTHY,
    stubs=dict(D.recv_packet.stubs),
    requires=D.recv_packet_requires,
    always=[('channel-message-goes-to-the-channel-registered-under-its-recipient-number',
             routed_by_recipient_number),
            ('one-packet-one-handler', D.at_most_one_handler)],
    raises={'MACError': True, 'CompressionError': True, 'ProtocolError': True, 'PacketDecodeError': True},
    returns='bool')


# ---- set_encoding: the only writer of _encoding / _encoder / _decoder; proves the coder invariant required above
def new_coder(cls):
    def stub(cx):
        return cx.fresh('obj:' + cls, cls.lower())
    stub.modifies = ()
    return stub


set_encoding = Spec(
    PROP, 'channel', 'SSHChannel.set_encoding', self_class='SSHChannel',
    params=dict(encoding='opt[str]', errors='str'),
    classes={'SSHChannel': dict(R_FIELDS, _errors='str'), 'Session': {}, 'Decoder': {}, 'Encoder': {}, 'Conn': {}},
    # codecs.getincrementalXcoder(encoding)(errors): a fresh coder object, or LookupError for an unknown name
    stubs={'codecs.getincrementalencoder()': may_raise(new_coder('Encoder'), 'LookupError'),
           'codecs.getincrementaldecoder()': may_raise(new_coder('Decoder'), 'LookupError')},
    ensures=[
        ('text-channel-has-one-fresh-encoder-and-decoder', lambda c: z3.Implies(
            c.truthy(c.newv('_encoding')),
            z3.And(z3.Not(c.is_none(c.newv('_encoder'))), z3.Not(c.is_none(c.newv('_decoder')))))),
        ('binary-channel-has-none', lambda c: z3.Implies(
            z3.Not(c.truthy(c.newv('_encoding'))),
            z3.And(c.is_none(c.newv('_encoder')), c.is_none(c.newv('_decoder'))))),
        ('encoding-stored', lambda c: c.eq(c.newv('_encoding'), c.argv('encoding'))),
    ],
    # unknown encoding name: the caller's error propagates (constructor / set_encoding fail)
    raises={'LookupError': True})
set_encoding.no_replay = True      # module-level codecs functions are not scripted by the native replay harness


# ---- writelines == one write of the concatenation (binary channels; the str variant differs only in the join)
def write_event_stub(cx):
    dt = cx.args[1] if len(cx.args) > 1 else cx.kwargs.get('datatype', VNone)
    return [Out(event=('write', (cx.args[0], dt)))]


write_event_stub.modifies = ()

writelines = Spec(
    PROP, 'channel', 'SSHChannel.writelines', self_class='SSHChannel',
    params=dict(list_of_data='seq[bytes]', datatype='opt[int]'), classes=R_CLASSES,
    stubs={'self.write': write_event_stub},
    cases=[('binary', {'_encoding': None})],
    ensures=[('one-write-of-the-concatenation-in-order-with-the-same-datatype', lambda c: z3.And(
        z3.BoolVal(len(c.events('write')) == 1),
        *[z3.And(e[1][0].z == __import__('pyvc.builtins_model', fromlist=['join_fn']).join_fn(
            BytesS, z3.SeqSort(BytesS))(z3.Empty(BytesS), c.arg('list_of_data')),
            c.eq(e[1][1], c.argv('datatype'))) for e in c.events('write')]))])


# ---- incoming WINDOW_ADJUST: the data the sending application wrote must still get out
# RFC 4254 5.3: EOF from the peer only says that the PEER sends no more data; it keeps receiving, and keeps granting
# window.  So an adjust is accepted in every receive state in which our send side may still hold data (open, and
# after the peer's EOF: eof_pending / eof) and leads to the queued data being flushed - it is refused (ProtocolError,
# which drops the connection and with it everything still queued) only when the peer has really closed the channel.
ADJUST_ACCEPTED = ('open', 'eof_pending', 'eof')


def adjust_malformed(c):
    """the unread part of the packet is not exactly one uint32"""
    _p, i, n = pkt(c)
    return n - i != 4


process_window_adjust = Spec(
    PROP, 'channel', 'SSHChannel._process_window_adjust', self_class='SSHChannel', params=PKT_PARAMS,
    classes=PKT_CLASSES, inline=dict(PACKET_INLINE), truthy=PACKET_TRUTHY,
    stubs={'self._flush_send_buf': flush_send_contract},
    requires=lambda c: z3.And(send_inv(c, new=False), packet_wf(c, c.argv('packet'))),
    modifies=SEND_MOD,
    ensures=[
        ('adjust-accepted-only-while-the-peer-has-not-closed', lambda c: z3.Or(
            *[c.old('_recv_state') == sv(x) for x in ADJUST_ACCEPTED])),
        ('queued-data-flushed-as-far-as-the-new-window-allows', lambda c: z3.Or(
            z3.Length(c.new('_send_buf')) == 0, c.new('_send_window') == 0)),
        ('nothing-lost-or-duplicated', lambda c: K.conservation(c, c.old('ghost_emitted'), c.old('_send_buf'))),
        ('class-inv', lambda c: send_inv(c)),
    ],
    raises={
        # never refused while our side may still have data to send (this is what loses queued data otherwise)
        'ProtocolError': lambda c: z3.And(
            z3.Not(z3.Or(*[c.old('_recv_state') == sv(x) for x in ADJUST_ACCEPTED])),
            unchanged(c, '_send_window', *SEND_FIELDS)),
        'PacketDecodeError': lambda c: z3.And(adjust_malformed(c), unchanged(c, '_send_window', *SEND_FIELDS))})


# ---- SSHClientProcess.communicate: "collect everything until the process exits" must keep the data flowing
# While communicate() waits for the channel to close the application reads nothing itself: the buffer limit is
# lifted, and reading must be enabled at that point - had a full window of output already paused reading, a reader
# left paused means the peer's window is never reopened and the rest of its data never arrives.
PROC_FIELDS = {'_limit': 'int', '_read_paused': 'bool', '_recv_buf_len': 'int', '_chan': 'opt[obj:ProcChan]',
               'ghost_pws': 'bool'}      # ghost_pws: bool(self._paused_write_streams), a redirect target is paused


def proc_resume_stub(cx):
    """_maybe_resume_reading() as proved in C19 (Spec maybe_resume): resumes iff paused and _should_pause_reading()
    is false = not (a paused redirect target or (limit set and reached)); then _read_paused is cleared"""
    cond = z3.And(cx.selff('_read_paused').z,
                  z3.Not(_c19_should_pause()(cx.selff('_limit').z, cx.selff('_recv_buf_len').z,
                                            cx.selff('ghost_pws').z)))
    return [Out(ret=VBool(True), sets={'_read_paused': VBool(False)}, assume=[cond], event=('resumed', ())),
            Out(ret=VBool(False), assume=[z3.Not(cond)])]


proc_resume_stub.modifies = ('_read_paused',)


def _c19_should_pause():
    from . import c19
    return c19.should_pause_z


def wait_closed_stub(cx):
    cx.require('reading-enabled-while-waiting-for-the-process-to-exit',
               z3.Or(z3.Not(cx.selff('_read_paused').z), cx.selff('ghost_pws').z))
    cx.require('buffer-limit-lifted-while-waiting', cx.selff('_limit').z == 0)
    return [Out(event=('wait_closed', ()))]


wait_closed_stub.modifies = ()

communicate = Spec(
    PROP, 'process', 'SSHClientProcess.communicate', self_class='SSHClientProcess',
    params=dict(input='opt[bytes]'),
    classes={'SSHClientProcess': PROC_FIELDS, 'ProcChan': {}},
    stubs={'self._maybe_resume_reading': proc_resume_stub, 'self._chan.write': noop('write'),
           'self._chan.write_eof': noop('write_eof'), 'self.wait_closed': wait_closed_stub,
           'self.collect_output': ret('any', 'output')},
    requires=lambda c: z3.Not(c.is_none(c.oldv('_chan'))),
    ensures=[
        ('reading-not-left-paused-by-the-lifted-limit', lambda c: z3.And(
            c.new('_limit') == 0, z3.Or(z3.Not(c.new('_read_paused')), c.old('ghost_pws')))),
        ('input-written-then-eof-before-waiting', lambda c: z3.BoolVal(
            [e[0] for e in c.events() if e[0] in ('write', 'write_eof', 'wait_closed')] in
            (['write', 'write_eof', 'wait_closed'], ['wait_closed']))),
    ],
    returns='any')
communicate.no_replay = True       # coroutine of a class with a heavy constructor: no native cross-check


# ====================================================================== the stream API on top of data_received
# "the receiving application sees exactly the byte sequence the sender wrote": applications that read through
# SSHReader see it through SSHStreamSession.read / readuntil / readline.  Their delivery contracts (conservation of the
# buffered sequence: what is returned is a prefix of what was delivered, the remainder stays queued in order) are the
# C19 ones; the same contract objects are registered under C07 so that a change of the stream layer that loses,
# duplicates or reorders data fails a C07 obligation as well.  Must stay the LAST statement (c19 imports c07 at its end).
from . import c19 as _c19                                    # noqa: E402
C19_READERS = _c19.register_reader_contracts_under(PROP)
