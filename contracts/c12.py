"""C12 - SFTP transfers reproduce the source bytes exactly or report failure.  Sidecar contracts.

The parallel block scheduler (_SFTPParallelIO) is verified *pointwise*: the object carries a rigid ghost byte
position `ghost_i` (an unconstrained input that no code and no stub ever changes).  Everything proved about
"the byte at position ghost_i" therefore holds for every byte position.  Outstanding requests are a multiset of
(offset, size) tiles; specs/tiles.py counts the tiles covering / ending after the position.
"""
import ast
import z3
from pyvc.contracts import *
from pyvc.engine import LoopSpec, Out, Prove
from pyvc.values import *
from specs import tiles as TL
from specs.tiles import REQ

PROP = 'C12'

ASSUMPTIONS = [
    'C12: the set of outstanding asyncio tasks of _SFTPParallelIO is modelled as the list of the (offset, size) '
    'ranges they were started with (a task object is identified with its request); set.add of a new task = append',
    'C12: asyncio.wait(S, FIRST_COMPLETED) returns (done, rest): done non-empty, done and rest partition S '
    '(assumed contract of the event loop); which tasks complete, in which order, is arbitrary',
    'C12: a completed block reports 0 <= count <= size (a READ reply longer than requested is outside the property '
    'and not guarded by the code: noted, not asserted)',
    'C12: the consumer of an (async) generator does not throw into it: every yield returns normally',
    'C12: cnt_in / cnt_end (specs/tiles.py) are uninterpreted; used: unfolding instances (empty, snoc), additivity '
    'over the partition returned by asyncio.wait and non-negativity (base and step of both inductions are '
    'discharged in extra_checks)',
    'C12: liveness (every request is eventually answered) is not decided; proved is partial correctness of the '
    'scheduler plus local progress of _start_tasks (variant _bytes_left) and of _request_ranges (variant limit-end)',
    'C12: a zero-length answer to a block request and SFTPEOFError are the end-of-file indications; completeness of '
    'iter() is claimed for the byte positions below the lowest offset at which end-of-file was indicated',
    'C12: the consumers of iter() (_SFTPFileReader.run, _SFTPFileWriter.run, _SFTPFileCopier.run) see it through a '
    'hand-restated callee view (sequence of yielded items, or SFTPError/OSError after any prefix) that demands '
    'iter()\'s precondition at the call (pre-at-call iter-requires); the per-item facts used there (offset >= ghost_lo; '
    'data == source bytes at that offset) restate the yield obligations proved on iter() and the run_task / '
    '_start_task / SFTPClientHandler.read contracts; that the bytes the server puts into a DATA reply are the '
    'file\'s bytes at the requested offset rests on SFTPServerHandler._process_read (verified here: the wire '
    'offset/length reach SFTPServer.read unchanged and its result is the reply) and on SFTPServer.read / the OS '
    '(assumed; C14 covers only the packet codecs, not the request handlers)',
    'C12: glue under contract: the four __init__ (fields == arguments, nothing outstanding), _start_task (reports the '
    'request and run_task\'s count/result unchanged); SFTPClientFile.read/write/read_parallel construct the '
    'reader/writer through the verified __init__ contract and call run()/iter() through the verified contracts, so '
    'their preconditions are pre-at-call obligations; the ghost range of a new scheduler is defined at construction',
    'C12: composition still on paper: iter (every position below EOF yielded exactly once) + _SFTPFileReader.run (a '
    'yielded position holds the source byte, nothing beyond the last block, gaps zero) gives '
    'result == source[start:start+n] up to EOF; writer_run_task\'s block precondition is the issue-site obligation '
    'issued-block-inside-the-requested-range (iter, _start_tasks) carried through _start_task',
    'C12: a _SFTPParallelIO object is not reused after iter() raised (its _pending then still holds the cancelled '
    'tasks; the copier\'s finally only closes the files)',
    'C12: for the remote-copy branch of _SFTPFileCopier.run the clause non-sparse-success-means-all-bytes-copied is '
    'true by construction (ghost_sum := sum of the announced lengths; the copy itself is the server\'s copy-data); '
    'a READ reply longer than requested (count > size) is never produced by result_stub: open item for C10 '
    '(hostile server), the code does not guard it',
    'C12: lseek(SEEK_DATA/SEEK_HOLE) follows lseek(2) (next data position / next hole, ENXIO when none); the file is '
    'not modified during a scan (isdata is a fixed predicate)',
    'C12: the ranges@asyncssh.com reply is a non-empty ascending list of the data ranges of the queried window, '
    'complete up to the end of its last range, complete for the window when at_end: server_ranges_stub restates what '
    'is proved on SFTPServerHandler._process_ranges (prefix of the ranges, at_end only when complete, cut-off reply '
    'full) composed with _request_ranges (every data byte of the window exactly once, ascending)',
    'C12: close() of the source/destination file in _SFTPFileCopier.run does not raise; SFTPClientFile.handle '
    '(property) is read as a field; write() is analysed for bytes data (str data only through the encode stub)',
    'C12: SFTPLimits held by a handler are >= 1 (defaults 16 KiB; proved preserved by request_limits); '
    'SFTPClientFile is constructed with block_size >= -1 (documented domain)',
    'C12: _SFTPFileCopier.run is specified pointwise for the destination: every byte the copy has to transfer (data '
    'bytes of a sparse source, every byte below the announced size otherwise) is written exactly once at its own '
    'offset, nothing beyond the announced size, and the destination extends to the announced size; for sparse '
    'copies these clauses are conditional on no early end-of-file indication (the property demands an error for '
    'an early end only of non-sparse transfers); unwritten positions of the freshly truncated (\'wb\') destination '
    'read back as zeros (OS / server contract)',
    'C12: SFTPClientFile.read(size >= 0) has "up to size" semantics on the single-READ path (documented; like '
    'os.read); read() to the end of the file (size < 0 / None) must return everything: obligation '
    'read-to-end-of-file-returns-all-of-it',
    'C12: copy-data on the server (_process_copy_data): SFTPServer.read returns at most the requested number of '
    'bytes; a shorter answer ends the copy and the reply is still OK (treated as end of the source file; an '
    'SFTPServer subclass whose read() answers short before the end makes a remote copy succeed truncated - low, '
    'recorded here, not asserted), and the client counts the announced length of a remote copy, not the moved one',
    'C12: Python file objects behind LocalFile / SFTPServer (seek, read, write) and the OS are assumed to position '
    'and transfer as documented; SFTPClient.open is analysed for numeric pflags (string modes pass through '
    '_mode_to_pflags: not covered), SFTPClient.remote_copy for open file objects (path arguments are opened first: '
    'not covered)',
    'C12: not covered: the directory and symlink-creation branches of _copy and all path handling (C13), '
    '_begin_copy beyond parameter normalisation, SFTPClient.open56, the Windows and fallback variants of '
    '_request_ranges, termination of iter() and of the copy-data loop',
]

TILE = 'tuple[int,int]'
PIO_FIELDS = {
    '_block_size': 'int', '_max_requests': 'int', '_offset': 'int', '_bytes_left': 'int',
    '_pending': 'seq[' + TILE + ']',
    # ---- ghost (verification only)
    'ghost_i': 'int',            # the rigid byte position
    'ghost_lo': 'int', 'ghost_hi': 'int',   # requested range [lo, hi) of the current iter() activation
    'ghost_ycnt': 'int',         # number of yielded blocks (offset, count) covering ghost_i
    'ghost_eof': 'bool',         # the source reported end-of-file for some block ...
    'ghost_eof_min': 'int',      # ... lowest offset of such a block
    'ghost_failed': 'bool',      # a block of the current batch failed with a non-EOF error
    'ghost_cur_off': 'int', 'ghost_cur_size': 'int', 'ghost_cur_count': 'int', 'ghost_cur_result': 'any',
    'ghost_cur_open': 'bool',    # a completed block has been taken and not yet yielded
    'ghost_ysum': 'int',         # bytes reported by the blocks yielded in this iter() activation
    'ghost_eofk': 'bool',        # an end-of-file indication was received in this iter() activation
}
PIO_CLASSES = {'PIO': PIO_FIELDS}


def gi(f):
    """parameters of the tile-count instances used by the scheduler: (rigid position, end of the requested range)
    for the position-indexed counts, start of the requested range for cnt_bad"""
    return (f('ghost_i'), f('ghost_hi')), f('ghost_lo')


class _Both:
    """REQ's axiom instances at every position parameter of a tuple (the rigid position and ghost_hi)"""
    def __getattr__(self, name):
        fn = getattr(REQ, name)

        def g(*args):
            *a, i, lo = args
            if isinstance(i, tuple):
                return [z for p_ in i for z in fn(*a, p_, lo)]
            return fn(*a, i, lo)
        return g


RQ = _Both()


def tail_in(f):
    """1 iff ghost_i lies in the not yet scheduled range [_offset, _offset + _bytes_left)"""
    return TL.b2i(TL.covers(f('_offset'), f('_bytes_left'), f('ghost_i')))


def sane(f):
    return z3.And(f('_block_size') >= 1, f('_bytes_left') >= 0, f('_offset') >= f('ghost_lo'),
                  f('_offset') + f('_bytes_left') <= f('ghost_hi'))


def order_inv(f, extra=0):
    """no outstanding block ends after a position at or beyond the unscheduled tail: blocks are issued in
    increasing offset order and a short read's remainder ends where its block ended"""
    return z3.Implies(f('ghost_i') >= f('_offset'), REQ.cnt_end(f('_pending'), f('ghost_i')) + extra == 0)


def ends_inv(f, extra=0):
    """no outstanding block ends beyond the end of the requested range"""
    return REQ.cnt_end(f('_pending'), f('ghost_hi')) + extra == 0


def sizes_inv(f, extra=0):
    """every outstanding block has size >= 1 and starts at or after the start of the requested range"""
    return REQ.cnt_bad(f('_pending'), f('ghost_lo')) + extra == 0


# ------------------------------------------------------------------ shared stubs
def start_task_stub(cx):
    """self._start_task(offset, size): the coroutine is identified with its request"""
    return VTuple([cx.args[0], cx.args[1]])


start_task_stub.modifies = ()


def ensure_future_stub(cx):
    return cx.args[0]


ensure_future_stub.modifies = ()


def pending_add(site):
    def stub(cx):
        t = cx.args[0]
        o, n = t.items[0].z, t.items[1].z
        P = cx.selff('_pending')
        i, lo = gi(lambda n_: cx.selff(n_).z)
        if site == 'start':
            cx.require('issued-block-size-in-1..block_size', z3.And(n >= 1, n <= cx.selff('_block_size').z))
        else:
            cx.require('remainder-non-empty-and-smaller', z3.And(n >= 1, n < cx.selff('ghost_cur_size').z))
        cx.require('issued-block-inside-the-requested-range',
                   z3.And(o >= cx.selff('ghost_lo').z, o + n <= cx.selff('ghost_hi').z))
        x = REQ.mk(o, n)
        newp = z3.Concat(P.z, z3.Unit(x))
        return [Out(sets={'_pending': VSeq(newp, TILE)},
                    assume=RQ.ax_snoc(P.z, x, i, lo) + RQ.ax_nonneg(newp, i, lo) + RQ.ax_nonneg(P.z, i, lo))]
    stub.modifies = ('_pending',)
    return stub


# ------------------------------------------------------------------ _start_tasks
def start_cover(c, f0):
    f = c.new
    i = f('ghost_i')
    return REQ.cnt_in(f('_pending'), i) + tail_in(f) == REQ.cnt_in(f0('_pending'), f0('ghost_i')) + tail_in(f0)


def start_loop_inv(c):
    f, e = c.new, c.at_entry
    return z3.And(
        sane(f), start_cover(c, e), order_inv(f), sizes_inv(f), ends_inv(f),
        f('_offset') + f('_bytes_left') == e('_offset') + e('_bytes_left'), f('_offset') >= e('_offset'),
        z3.Implies(z3.Length(e('_pending')) <= e('_max_requests'),
                   z3.Length(f('_pending')) <= f('_max_requests')),
        z3.Length(f('_pending')) >= z3.Length(e('_pending')),
        REQ.tot(f('_pending')) + f('_bytes_left') == REQ.tot(e('_pending')) + e('_bytes_left'))


start_tasks = Spec(
    PROP, 'sftp', '_SFTPParallelIO._start_tasks', self_class='PIO', classes=PIO_CLASSES,
    stubs={'self._start_task': start_task_stub, 'asyncio.ensure_future': ensure_future_stub,
           'self._pending.add': pending_add('start')},
    loops={1: LoopSpec(header='self._bytes_left and len(self._pending) < self._max_requests',
                       invariant=start_loop_inv, variant=lambda c: c.new('_bytes_left'))},
    requires=lambda c: z3.And(sane(c.old), order_inv(c.old), sizes_inv(c.old), ends_inv(c.old)),
    modifies=['_offset', '_bytes_left', '_pending'],
    ensures=[
        ('coverage-preserved', lambda c: start_cover(c, c.old)),
        ('issue-order', lambda c: order_inv(c.new)),
        ('sizes-positive', lambda c: sizes_inv(c.new)),
        ('blocks-end-inside-the-range', lambda c: ends_inv(c.new)),
        ('sane', lambda c: sane(c.new)),
        ('range-end-fixed', lambda c: z3.And(
            c.new('_offset') + c.new('_bytes_left') == c.old('_offset') + c.old('_bytes_left'),
            c.new('_offset') >= c.old('_offset'))),
        ('all-scheduled-or-window-full', lambda c: z3.Or(
            c.new('_bytes_left') == 0, z3.Length(c.new('_pending')) >= c.new('_max_requests'))),
        ('at-most-max_requests-outstanding', lambda c: z3.Implies(
            z3.Length(c.old('_pending')) <= c.old('_max_requests'),
            z3.Length(c.new('_pending')) <= c.new('_max_requests'))),
        ('nothing-withdrawn', lambda c: z3.Length(c.new('_pending')) >= z3.Length(c.old('_pending'))),
        ('outstanding-bytes-preserved', lambda c: REQ.tot(c.new('_pending')) + c.new('_bytes_left') ==
         REQ.tot(c.old('_pending')) + c.old('_bytes_left')),
    ])
start_tasks.no_replay = True


# ------------------------------------------------------------------ iter
def wait_stub(cx):
    """asyncio.wait(pending, return_when=FIRST_COMPLETED) -> (done, rest)"""
    P = cx.args[0].z
    i, lo = gi(lambda n_: cx.selff(n_).z)
    D = cx.fresh('seq[' + TILE + ']', 'done')
    R = cx.fresh('seq[' + TILE + ']', 'rest')
    return [Out(ret=VTuple([D, R]),
                assume=[z3.Length(D.z) >= 1, z3.Length(P) == z3.Length(D.z) + z3.Length(R.z)] +
                RQ.ax_union(P, D.z, R.z, i, lo) + RQ.ax_nonneg(D.z, i, lo) + RQ.ax_nonneg(R.z, i, lo))]


wait_stub.modifies = ()
CUR = ('ghost_cur_off', 'ghost_cur_size', 'ghost_cur_count', 'ghost_cur_result', 'ghost_cur_open')


def result_stub(cx):
    """task.result() of a completed block (offset, size): what the peer did with the request.
    count bytes were transferred (0 <= count <= size), or end-of-file, or an error"""
    o, n = cx.recv.items[0], cx.recv.items[1]
    eof, emin = cx.selff('ghost_eof').z, cx.selff('ghost_eof_min').z
    new_min = VInt(z3.If(z3.And(eof, emin <= o.z), emin, o.z))
    outs = []
    # unfolding of the counts of the not yet handled completed blocks at this block (definitional instances);
    # the block is done[k]: destructure the engine's term
    unfold = []
    x = o.z.arg(0) if o.z.num_args() == 1 else None
    if x is not None and z3.is_app(x) and x.decl().kind() == z3.Z3_OP_SEQ_NTH:
        D, k = x.arg(0), x.arg(1)
        i, lo = gi(lambda n_: cx.selff(n_).z)
        unfold = RQ.ax_cons_at(D, k, i, lo) + RQ.ax_nonneg(TL.suffix(D, k + 1), i, lo) + \
            RQ.ax_nonneg(cx.selff('_pending').z, i, lo)
    for zero in (False, True):
        cnt = VInt(0) if zero else cx.fresh('int', 'count')
        res = cx.fresh('any', 'result')
        sets = {'ghost_cur_off': o, 'ghost_cur_size': n, 'ghost_cur_count': cnt, 'ghost_cur_result': res,
                'ghost_cur_open': VBool(True)}
        if zero:
            # a zero-length answer is the end-of-file indication of SFTPFileProtocol.read
            sets.update({'ghost_eof': VBool(True), 'ghost_eof_min': new_min, 'ghost_eofk': VBool(True)})
        outs.append(Out(ret=VTuple([o, n, cnt, res]), sets=sets,
                        assume=unfold + ([] if zero else [cnt.z >= 1, cnt.z <= n.z])))
    outs.append(Out(exc=VExc('SFTPEOFError'), assume=unfold,
                    sets={'ghost_eof': VBool(True), 'ghost_eof_min': new_min, 'ghost_eofk': VBool(True)}))
    outs.append(Out(exc=VExc('SFTPError'), sets={'ghost_failed': VBool(True)}))
    outs.append(Out(exc=VExc('OSError'), sets={'ghost_failed': VBool(True)}))
    return outs


result_stub.modifies = CUR + ('ghost_eof', 'ghost_eof_min', 'ghost_failed', 'ghost_eofk')


def yield_stub(cx):
    """`yield offset, result`: must hand out the block just completed, under its own offset, once"""
    v = cx.args[0]
    ok = z3.BoolVal(False)
    if isinstance(v, VTuple) and len(v.items) == 2 and isinstance(v.items[0], VInt):
        same_res = cx.ex.veq(cx.st, v.items[1], cx.selff('ghost_cur_result'))
        ok = z3.And(cx.selff('ghost_cur_open').z, v.items[0].z == cx.selff('ghost_cur_off').z, same_res)
    cx.require('yields-the-completed-block-at-its-offset', ok)
    cx.require('yielded-offset-not-below-the-requested-range', cx.selff('ghost_cur_off').z >= cx.selff('ghost_lo').z)
    i = cx.selff('ghost_i').z
    add = TL.b2i(TL.covers(cx.selff('ghost_cur_off').z, cx.selff('ghost_cur_count').z, i))
    return [Out(sets={'ghost_ycnt': VInt(cx.selff('ghost_ycnt').z + add), 'ghost_cur_open': VBool(False),
                      'ghost_ysum': VInt(cx.selff('ghost_ysum').z + cx.selff('ghost_cur_count').z)})]


yield_stub.modifies = ('ghost_ycnt', 'ghost_cur_open', 'ghost_ysum')


def exc_append_stub(cx):
    """exceptions.append(exc) on the local list (havocked at the loop cut, hence symbolic)"""
    cur = cx.ex.deref(cx.st, cx.st.env['exceptions'])
    sort = z3.SeqSort(sort_of(parse_type('opaque:Exc')))
    z = cur.z if isinstance(cur, VSeq) else z3.Empty(sort)
    e = cx.fresh('opaque:Exc', 'exc')
    cx.st.env['exceptions'] = VSeq(z3.Concat(z, z3.Unit(e.z)), 'opaque:Exc')
    return [Out()]


exc_append_stub.modifies = ()


def in_range(f):
    return TL.b2i(z3.And(f('ghost_lo') <= f('ghost_i'), f('ghost_i') < f('ghost_hi')))


def below_eof(f):
    return z3.Or(z3.Not(f('ghost_eof')), f('ghost_i') < f('ghost_eof_min'))


def exc_len(c):
    v = c.ex.deref(c.new_state, c.localv('exceptions'))
    return z3.IntVal(len(v.items)) if isinstance(v, VList) else z3.Length(v.z)


def iter_core(f, rem_in, rem_end, rem_bad, rem_hi, rem_tot):
    """the scheduler invariant for the rigid position; rem_* count the completed blocks not yet handled"""
    i = f('ghost_i')
    cover = REQ.cnt_in(f('_pending'), i) + rem_in + f('ghost_ycnt') + tail_in(f)
    outstanding = f('ghost_ysum') + REQ.tot(f('_pending')) + rem_tot + f('_bytes_left')
    return z3.And(
        sane(f), f('_max_requests') >= 1, f('ghost_ycnt') >= 0,
        cover <= in_range(f),                               # nothing delivered twice or from outside the range
        # below the lowest EOF position nothing is lost (unless a block failed: then iter() is going to raise)
        z3.Or(f('ghost_failed'), z3.Implies(below_eof(f), cover == in_range(f))),
        order_inv(f, rem_end), sizes_inv(f, rem_bad), ends_inv(f, rem_hi),
        z3.Not(f('ghost_cur_open')),
        # byte accounting of this activation: yielded + outstanding + unscheduled == requested, until an end-of-file
        # indication drops a (non-empty) block; without one nothing at all is lost
        f('ghost_ysum') >= 0,
        z3.Or(f('ghost_failed'), z3.If(f('ghost_eofk'), outstanding < f('ghost_hi') - f('ghost_lo'),
                                       outstanding == f('ghost_hi') - f('ghost_lo'))),
        z3.Or(f('ghost_failed'), f('ghost_eofk'), cover == in_range(f)))


def iter_loop1_inv(c):
    f = c.new
    return z3.And(iter_core(f, 0, 0, 0, 0, 0), z3.Not(f('ghost_failed')),
                  z3.Length(f('_pending')) <= f('_max_requests'),
                  z3.Or(f('_bytes_left') == 0, z3.Length(f('_pending')) >= f('_max_requests')))


def iter_loop2_inv(c):
    f = c.new
    D, k = c.extra['iter'].z, c.extra['i']
    i, lo = f('ghost_i'), f('ghost_lo')
    S = TL.suffix(D, k)
    return z3.And(iter_core(f, REQ.cnt_in(S, i), REQ.cnt_end(S, i), REQ.cnt_bad(S, lo), REQ.cnt_end(S, f('ghost_hi')),
                            REQ.tot(S)),
                  (exc_len(c) > 0) == f('ghost_failed'),
                  z3.Length(f('_pending')) + z3.Length(D) - k <= f('_max_requests'))


def iter_loop2_lemmas(c):
    D, k0 = c.extra['iter'].z, c.extra['i0']
    i, lo = gi(c.new)
    return RQ.ax_cons_at(D, k0, i, lo) + RQ.ax_nonneg(TL.suffix(D, k0), i, lo) + \
        RQ.ax_nonneg(TL.suffix(D, k0 + 1), i, lo) + RQ.ax_nonneg(c.new('_pending'), i, lo) + RQ.ax_empty(i, lo)


ITER_STUBS = {
    'self._start_tasks': contract_stub(lambda: start_tasks),
    'self._start_task': start_task_stub, 'asyncio.ensure_future': ensure_future_stub,
    'self._pending.add': pending_add('remainder'),
    'asyncio.wait': wait_stub, 'task.result': result_stub, 'task.cancel': noop('cancel'),
    'yield': yield_stub, 'exceptions.append': exc_append_stub,
}


# what a run() / iter() of a scheduler object may change (declared on the run Specs: frame obligations there,
# havoc of exactly these fields at the call sites)
SCHED_MODIFIES = ['_offset', '_bytes_left', '_pending', 'ghost_ycnt', 'ghost_eof', 'ghost_eof_min', 'ghost_failed',
                  'ghost_cur_off', 'ghost_cur_size', 'ghost_cur_count', 'ghost_cur_result', 'ghost_cur_open',
                  'ghost_ysum', 'ghost_eofk']


def iter_pre(f):
    """precondition of iter() over a field accessor f (also demanded at the run() / iter() call sites)"""
    return z3.And(f('_block_size') >= 1, f('_bytes_left') >= 0, f('_max_requests') >= 1,
                  f('_pending') == z3.Empty(REQ.SEQ),
                  f('ghost_lo') == f('_offset'), f('ghost_hi') == f('_offset') + f('_bytes_left'),
                  f('ghost_ycnt') == 0, z3.Not(f('ghost_failed')), z3.Not(f('ghost_cur_open')),
                  f('ghost_ysum') == 0, z3.Not(f('ghost_eofk')))


def iter_requires(c):
    return iter_pre(c.old)


def iter_setup(ex, st):
    """definitional instance: no tile of the empty list covers / ends after the position"""
    g = lambda n_: ex.get_field(st, ex.self_ref, n_).z
    for z in RQ.ax_empty((g('ghost_i'), g('ghost_hi')), g('ghost_lo')):
        st.assume(z)


pio_iter = Spec(
    PROP, 'sftp', '_SFTPParallelIO.iter', self_class='PIO', classes=PIO_CLASSES,
    stubs=ITER_STUBS, globals={'asyncio': VTag('class:asyncio')},
    local_types={'exceptions': 'seq[opaque:Exc]'},
    loops={
        1: LoopSpec(header='self._pending', invariant=iter_loop1_inv, modifies=['_offset'],
                    lemmas=lambda c: RQ.ax_nonneg(c.new('_pending'), *gi(c.new))),
        2: LoopSpec(header='for task in done', invariant=iter_loop2_inv, lemmas=iter_loop2_lemmas),
        3: LoopSpec(header='for task in self._pending', invariant=lambda c: z3.BoolVal(True)),
    },
    requires=iter_requires, setup=iter_setup,
    lemmas=lambda c: RQ.ax_nonneg(c.new('_pending'), *gi(c.new)),
    ensures=[
        # normal exhaustion of the generator
        ('every-byte-below-eof-delivered-exactly-once',
         lambda c: z3.Implies(below_eof(c.new), c.new('ghost_ycnt') == in_range(c.new))),
        ('failed-block-never-ends-in-success', lambda c: z3.Not(c.new('ghost_failed'))),
        ('everything-scheduled-and-answered',
         lambda c: z3.And(c.new('_bytes_left') == 0, z3.Length(c.new('_pending')) == 0)),
        # without an end-of-file indication the activation delivered the whole range: every position exactly once
        # and as many bytes as requested; with one, strictly fewer bytes (what the copier's total check relies on)
        ('whole-range-delivered-unless-eof', lambda c: z3.If(
            c.new('ghost_eofk'), c.new('ghost_ysum') < c.new('ghost_hi') - c.new('ghost_lo'),
            z3.And(c.new('ghost_ysum') == c.new('ghost_hi') - c.new('ghost_lo'),
                   c.new('ghost_ycnt') == in_range(c.new)))),
    ],
    always=[('no-byte-twice-none-outside-the-range',
             lambda c: z3.And(c.new('ghost_ycnt') >= 0, c.new('ghost_ycnt') <= in_range(c.new)))],
    raises={'Exception': lambda c: c.new('ghost_failed')})
pio_iter.no_replay = True


# ------------------------------------------------------------------ _request_ranges (os.SEEK_DATA variant)
# The file's allocation map is an uninterpreted predicate isdata(position), constant during the scan.
isdata = z3.Function('c12_isdata', z3.IntSort(), z3.BoolSort())
FOBJ = {'FileObj': {
    'ghost_i': 'int',           # rigid byte position
    'ghost_cov': 'int',         # number of yielded ranges covering ghost_i
    'ghost_last_end': 'int',    # end of the last yielded range
}}
SEEK_DATA, SEEK_HOLE, ENXIO = 3, 4, 6      # Linux values of os.SEEK_DATA / os.SEEK_HOLE / errno.ENXIO (only compared)
OS_CONSTS = {('os', 'SEEK_DATA'): VInt(SEEK_DATA), ('os', 'SEEK_HOLE'): VInt(SEEK_HOLE),
             ('errno', 'ENXIO'): VInt(ENXIO)}
OS_GLOBALS = {'os': VTag('class:os'), 'errno': VTag('class:errno')}


def seek_stub(cx):
    """OS contract of lseek(fd, pos, SEEK_DATA | SEEK_HOLE) (lseek(2)), for the rigid position"""
    pos = cx.args[0].z
    whence = concrete_int(cx.args[1])
    i = cx.selff('ghost_i').z
    r = cx.fresh('int', 'seekpos')
    other = cx.fresh('int', 'errno')
    err_other = Out(exc=VExc('OSError', attrs={'errno': other}), assume=[other.z != ENXIO])
    if whence == SEEK_DATA:
        return [
            # next position >= pos holding data; nothing in between is data
            Out(ret=r, assume=[r.z >= pos, isdata(r.z), z3.Implies(z3.And(pos <= i, i < r.z), z3.Not(isdata(i)))]),
            # ENXIO: no data at or after pos
            Out(exc=VExc('OSError', attrs={'errno': VInt(ENXIO)}), assume=[z3.Implies(i >= pos, z3.Not(isdata(i)))]),
            err_other]
    if whence == SEEK_HOLE:
        return [
            # next position >= pos not holding data (the end of the file counts as a hole); all in between is data
            Out(ret=r, assume=[r.z >= pos, z3.Not(isdata(r.z)), z3.Implies(z3.And(pos <= i, i < r.z), isdata(i))]),
            # ENXIO: pos is beyond the end of the file (so it is not data)
            Out(exc=VExc('OSError', attrs={'errno': VInt(ENXIO)}), assume=[z3.Not(isdata(pos))]),
            err_other]
    raise Unsupported('file_obj.seek with a whence other than SEEK_DATA / SEEK_HOLE')


seek_stub.modifies = ()


def range_yield_stub(cx):
    """`yield start, length` of _request_ranges: what the property demands of every reported range"""
    v = cx.args[0]
    st, ln = v.items[0].z, v.items[1].z
    off, length = cx.st.env['offset'].z, cx.st.env['length'].z
    i = cx.selff('ghost_i').z
    cx.require('range-is-non-empty', ln >= 1)
    cx.require('range-inside-the-queried-window', z3.And(off <= st, st + ln <= off + length))
    cx.require('ranges-ascending-and-disjoint', st >= cx.selff('ghost_last_end').z)
    cx.require('range-holds-only-data', z3.Implies(TL.covers(st, ln, i), isdata(i)))
    return [Out(sets={'ghost_cov': VInt(cx.selff('ghost_cov').z + TL.b2i(TL.covers(st, ln, i))),
                      'ghost_last_end': VInt(st + ln)})]


range_yield_stub.modifies = ('ghost_cov', 'ghost_last_end')


def ranges_inv(c):
    f = c.new
    i, end = f('ghost_i'), c.local('end')
    off, length = c.arg('offset'), c.arg('length')
    return z3.And(
        c.local('limit') == off + length, end >= off, f('ghost_last_end') <= end,
        f('ghost_cov') == TL.b2i(z3.And(off <= i, i < end, isdata(i), i < off + length)))


request_ranges_posix = Spec(
    PROP, 'sftp', '_request_ranges$2', self_class='FileObj', classes=FOBJ,
    params={'offset': 'int', 'length': 'int'},
    globals=OS_GLOBALS, class_consts=OS_CONSTS,
    stubs={'file_obj.seek': seek_stub, 'yield': range_yield_stub},
    loops={1: LoopSpec(header='end < limit', invariant=ranges_inv, modifies=['ghost_cov', 'ghost_last_end'],
                       variant=lambda c: c.local('limit') - c.local('end'))},
    requires=lambda c: z3.And(c.old('ghost_cov') == 0, c.old('ghost_last_end') <= c.arg('offset'),
                              c.arg('offset') >= 0, c.arg('length') >= 0),
    ensures=[
        # normal exhaustion: exactly the data bytes of the window [offset, offset+length) were reported, once
        ('every-data-byte-of-the-window-reported-exactly-once', lambda c: c.new('ghost_cov') == TL.b2i(z3.And(
            c.arg('offset') <= c.new('ghost_i'), c.new('ghost_i') < c.arg('offset') + c.arg('length'),
            isdata(c.new('ghost_i'))))),
    ],
    raises={'OSError': True})
request_ranges_posix.no_replay = True


# ------------------------------------------------------------------ _SFTPFileReader
from specs.tiles import ITEM

READER_FIELDS = dict(PIO_FIELDS, _handler='obj:Handler', _handle='bytes', _start='int',
                     ghost_b='int')      # the source file's byte at position ghost_i
READER_CLASSES = {'Reader': READER_FIELDS, 'Handler': {}}


def one_call(c, key, *expected):
    """exactly one stubbed call `key` on this path, with exactly these positional arguments"""
    calls = c.calls(key)
    if len(calls) != 1 or len(calls[0]['args']) != len(expected):
        return z3.BoolVal(False)
    return z3.And([c.ex.veq(c.new_state, a, e) for a, e in zip(calls[0]['args'], expected)] + [z3.BoolVal(True)])


reader_run_task = Spec(
    PROP, 'sftp', '_SFTPFileReader.run_task', self_class='Reader', classes=READER_CLASSES,
    params={'offset': 'int', 'size': 'int'},
    stubs={'self._handler.read': may_raise(ret('tuple[bytes,bool]', 'readreply'), 'SFTPEOFError', 'SFTPError')},
    ensures=[
        ('requests-exactly-the-block', lambda c: one_call(c, 'self._handler.read', c.oldv('_handle'),
                                                          c.argv('offset'), c.argv('size'))),
        ('reports-the-received-data-and-its-length', lambda c: z3.And(
            c.result_v.items[1].z == c.calls('self._handler.read')[0]['ret'].items[0].z,
            c.result_v.items[0].z == z3.Length(c.result_v.items[1].z))),
    ],
    raises={'SFTPError': True})
reader_run_task.runtime_class = '_SFTPFileReader'

ITEM_T = 'tuple[int,bytes]'


def reader_iter_stub(cx):
    """callee view of _SFTPParallelIO.iter() as instantiated by _SFTPFileReader: the sequence R of (offset, data)
    items it yields, or an error after any prefix.  Restated from what is proved on iter / run_task above:
      - every yielded offset is >= the start of the requested range (iter: yielded-offset-not-below-...),
      - the data of an item is what handler.read returned for that offset (run_task), which the server contract
        (READ returns the file's bytes at the offset, C14) makes the source bytes: stated for the rigid position"""
    cx.require('iter-requires', iter_pre(lambda n_: cx.selff(n_).z))
    R = cx.fresh('seq[' + ITEM_T + ']', 'items')
    R.raises = ['SFTPError', 'OSError']
    # yielded offsets are >= ghost_lo (obligation yielded-offset-not-below-the-requested-range on iter)
    i, b, start = cx.selff('ghost_i').z, cx.selff('ghost_b').z, cx.selff('ghost_lo').z

    def per_item(k):
        x = R.z[k]
        o, d = ITEM.off(x), ITEM.TS.accessor(0, 1)(x)
        return z3.And(o >= start, z3.Implies(TL.covers(o, z3.Length(d), i), d[i - o] == b))
    R.elem_assume = per_item
    return [Out(ret=R, assume=ITEM.ax_empty(i, start))]


reader_iter_stub.modifies = ()


def reader_res(c):
    v = c.ex.deref(c.new_state, c.localv('result'))
    return v.z


def reader_facts(f, cin, cend, res):
    """what the assembled buffer holds at the rigid position, given the counts over the items handled so far"""
    p = f('ghost_i') - f('_start')
    inside = z3.And(p >= 0, p < z3.Length(res))
    return z3.And(
        z3.Implies(cin >= 1, z3.And(inside, res[p] == f('ghost_b'))),       # reassembly by absolute offset
        z3.Implies(inside, cend >= 1),                                       # nothing beyond the last block's end
        z3.Implies(z3.And(inside, cin == 0), res[p] == 0))                   # gaps are zero-filled


def reader_loop_inv(c):
    f = c.new
    R, k = c.extra['iter'].z, c.extra['i']
    i, lo = f('ghost_i'), f('_start')
    Pk = TL.prefix(R, k)
    return z3.And(ITEM.cnt_in(Pk, i) >= 0, ITEM.cnt_end(Pk, i) >= 0,
                  reader_facts(f, ITEM.cnt_in(Pk, i), ITEM.cnt_end(Pk, i), reader_res(c)))


def reader_loop_lemmas(c):
    R, k0, k = c.extra['iter'].z, c.extra['i0'], c.extra['i']
    i, lo = c.new('ghost_i'), c.new('_start')
    if z3.is_int_value(k0):      # loop entry
        return ITEM.ax_empty(i, lo)
    if k is k0:                  # loop exit: all items handled
        return [Prove(TL.prefix(R, k0) == R, 'items[:len(items)] == items')]
    # instance (at the rigid position) of the engine's own axiom "every element of n * b'\\0' is 0", which is
    # already part of the path condition as a quantified formula: spelled out because cvc5 does not instantiate it
    res0 = c.ex.deref(c.head, c.head.env['result']).z
    rep = z3.Function('bytes_repeat', BytesS, IntS, BytesS)(
        bytes_const(b'\0'), ITEM.off(R[k0]) - lo - z3.Length(res0))
    j = i - lo - z3.Length(res0)
    inst = z3.Implies(z3.And(j >= 0, j < z3.Length(rep)), rep[j] == 0)
    return ITEM.ax_snoc_at(R, k0, i, lo) + [inst]


reader_run = Spec(
    PROP, 'sftp', '_SFTPFileReader.run', self_class='Reader', classes=READER_CLASSES,
    stubs={'self.iter': reader_iter_stub},
    loops={1: LoopSpec(header='for (offset, data) in self.iter()', invariant=reader_loop_inv,
                       lemmas=reader_loop_lemmas)},
    # a freshly constructed reader: scheduler range == requested range, reassembly base == its start
    requires=lambda c: z3.And(iter_pre(c.old), c.old('_start') == c.old('_offset')), returns='bytes',
    modifies=SCHED_MODIFIES,
    ensures=[('result-holds-the-source-bytes-at-their-offsets', lambda c: reader_facts(
        c.new, ITEM.cnt_in(c.calls('self.iter')[0]['ret'].z, c.new('ghost_i')),
        ITEM.cnt_end(c.calls('self.iter')[0]['ret'].z, c.new('ghost_i')), c.result))],
    raises={'SFTPError': True, 'OSError': True})
reader_run.no_replay = True
reader_run.no_if_merge = True      # `if pad > 0` forks (an ite inside a sequence term defeats the solvers)


# ------------------------------------------------------------------ _SFTPFileWriter
WRITER_CLASSES = {'Writer': dict(PIO_FIELDS, _handler='obj:Handler', _handle='bytes', _start='int', _data='bytes'),
                  'Handler': {}}


def writer_block(c):
    """the block is one that iter() issued: inside the requested range [ghost_lo, ghost_hi) (obligation
    issued-block-inside-the-requested-range at both issue sites of iter/_start_tasks; _start_task hands the request
    to run_task unchanged), and the requested range is the data: ghost_lo == _start, ghost_hi == _start + len(_data)
    (from writer_run's precondition, checked where the writer is constructed and run; none of these fields is
    written after construction)"""
    f = c.old
    return z3.And(c.arg('size') >= 0, c.arg('offset') >= f('ghost_lo'), c.arg('offset') + c.arg('size') <= f('ghost_hi'),
                  f('ghost_lo') == f('_start'), f('ghost_hi') == f('_start') + z3.Length(f('_data')))


writer_run_task = Spec(
    PROP, 'sftp', '_SFTPFileWriter.run_task', self_class='Writer', classes=WRITER_CLASSES,
    params={'offset': 'int', 'size': 'int'},
    stubs={'self._handler.write': may_raise(noop('write'), 'SFTPError')},
    requires=writer_block,
    ensures=[
        ('writes-data[offset-start:][:size]-at-offset', lambda c: one_call(
            c, 'self._handler.write', c.oldv('_handle'), c.argv('offset'),
            VBytes(z3.Extract(c.old('_data'), c.arg('offset') - c.old('_start'), c.arg('size'))))),
        ('reports-the-whole-block-written', lambda c: z3.And(c.result_v.items[0].z == c.arg('size'),
                                                             c.result_v.items[1].z == c.arg('size'))),
    ],
    raises={'SFTPError': True})
writer_run_task.runtime_class = '_SFTPFileWriter'


def unit_iter_stub(cx):
    """iter() as seen by a consumer that ignores the items: some sequence of items, or an error after a prefix"""
    cx.require('iter-requires', iter_pre(lambda n_: cx.selff(n_).z))
    R = cx.fresh('seq[' + TILE + ']', 'items')
    R.raises = ['SFTPError', 'OSError']
    return [Out(ret=R, event=('iter', ()))]


unit_iter_stub.modifies = ()

writer_run = Spec(
    PROP, 'sftp', '_SFTPFileWriter.run', self_class='Writer', classes=WRITER_CLASSES,
    stubs={'self.iter': unit_iter_stub},
    loops={1: LoopSpec(header='for _ in self.iter()', invariant=lambda c: z3.BoolVal(True))},
    # a freshly constructed writer: scheduler range == the whole data, placed at _start
    requires=lambda c: z3.And(iter_pre(c.old), c.old('_start') == c.old('_offset'),
                              c.old('_bytes_left') == z3.Length(c.old('_data'))),
    modifies=SCHED_MODIFIES,
    ensures=[('drains-the-scheduler-once', lambda c: z3.BoolVal(len(c.events('iter')) == 1))],
    # a failed block surfaces as the error of the whole write (never swallowed)
    raises={'SFTPError': True, 'OSError': True})
writer_run.no_replay = True


# ------------------------------------------------------------------ _SFTPFileCopier.run_task
COPIER_FIELDS = dict(
    PIO_FIELDS, _sparse='bool', _srcfs='obj:FS', _dstfs='obj:FS', _srcpath='bytes', _dstpath='bytes',
    _src='opt[obj:File]', _dst='opt[obj:File]', _bytes_copied='int', _total_bytes='int',
    _progress_handler='opt[opaque:Progress]',
    ghost_sum='int',         # bytes reported copied by all blocks of all ranges so far
    ghost_wcnt='int', ghost_dst_gt='bool', ghost_lostall='int')      # see _SFTPFileCopier.run below
COPIER_CLASSES = {'Copier': COPIER_FIELDS, 'FS': {'supports_remote_copy': 'bool', 'ghost_is_client': 'bool'},
                  'File': {}}

copier_run_task = Spec(
    PROP, 'sftp', '_SFTPFileCopier.run_task', self_class='Copier', classes=COPIER_CLASSES,
    params={'offset': 'int', 'size': 'int'},
    stubs={'self._src.read': may_raise(ret('bytes', 'srcdata'), 'SFTPError', 'OSError'),
           'self._dst.write': may_raise(ret('int', 'written'), 'SFTPError', 'OSError')},
    requires=lambda c: z3.And(z3.Not(c.is_none(c.oldv('_src'))), z3.Not(c.is_none(c.oldv('_dst')))),
    ensures=[
        ('reads-the-block-from-the-source', lambda c: one_call(c, 'self._src.read', c.argv('size'), c.argv('offset'))),
        ('writes-what-it-read-at-the-same-offset', lambda c: one_call(
            c, 'self._dst.write', c.calls('self._src.read')[0]['ret'], c.argv('offset'))),
        ('reports-the-number-of-bytes-copied', lambda c: z3.And(
            c.result_v.items[0].z == z3.Length(c.calls('self._src.read')[0]['ret'].z),
            c.result_v.items[1].z == z3.Length(c.calls('self._src.read')[0]['ret'].z))),
    ],
    raises={'SFTPError': True, 'OSError': True})
copier_run_task.runtime_class = '_SFTPFileCopier'


# ------------------------------------------------------------------ _SFTPFileCopier.run
# Pointwise again: ghost_i is the rigid byte position.  ghost_wcnt counts the writes of source bytes to the
# destination that cover it, ghost_dst_gt says that some write to the destination ended after it (the destination
# is longer than ghost_i), ghost_lostall sums the bytes of requested ranges that were not delivered because the
# source indicated end-of-file early.
def fs_open_stub(which):
    def stub(cx):
        """srcfs.open(srcpath, 'rb', block_size=0) / dstfs.open(dstpath, 'wb', block_size=0): the copier's own
        scheduler does the blocking, positions are explicit ('wb', never append), the right path on each side"""
        a = cx.args
        path = cx.selff('_srcpath' if which == 'src' else '_dstpath')
        mode = 'rb' if which == 'src' else 'wb'
        ok = z3.BoolVal(False)
        if len(a) == 2 and isinstance(a[1], VStr) and 'block_size' in cx.kwargs:
            ok = z3.And(cx.ex.veq(cx.st, a[0], path), a[1].z == z3.StringVal(mode), cx.kwargs['block_size'].z == 0)
        cx.require(f'{which}-opened-by-its-path-mode-{mode}-unbuffered', ok)
        f = cx.fresh('obj:File', which)
        return [Out(ret=f, event=('open', (which,))), Out(exc=VExc('SFTPError')), Out(exc=VExc('OSError'))]
    stub.modifies = ()
    return stub


def whole_file(cx):
    a = cx.args
    return z3.And(z3.BoolVal(len(a) == 2), a[0].z == 0, a[1].z == cx.selff('_total_bytes').z) if len(a) == 2 \
        else z3.BoolVal(False)


def ranges_stub(cx):
    """self._src.request_ranges(0, total): the data ranges of the source (SFTPFileProtocol.request_ranges), as
    proved for _request_ranges / SFTPClientFile.request_ranges: every data byte of the window is in exactly one
    range, no other byte is; per item 0 <= offset, 0 <= length, offset + length <= end of the window"""
    cx.require('ranges-requested-for-the-whole-announced-size', whole_file(cx))
    total, i = cx.selff('_total_bytes').z, cx.selff('ghost_i').z
    R = cx.fresh('seq[' + TILE + ']', 'ranges')
    R.raises = ['SFTPError', 'OSError']
    R.elem_assume = lambda k: z3.And(REQ.off(R.z[k]) >= 0, REQ.size(R.z[k]) >= 0,
                                     REQ.off(R.z[k]) + REQ.size(R.z[k]) <= total)
    return [Out(ret=R, assume=[REQ.cnt_in(R.z, i) == data_in(i, 0, total)], event=('request_ranges', tuple(cx.args)))]


ranges_stub.modifies = ()


def nonsparse_stub(cx):
    """the local generator _request_nonsparse_range(offset, length): yields exactly (offset, length)
    (verified below on its own body: copier_nonsparse_gen)"""
    cx.require('non-sparse-range-is-the-whole-announced-size', whole_file(cx))
    o, n = cx.args[0].z, cx.args[1].z
    R = VSeq(z3.Unit(REQ.mk(o, n)), TILE)
    # definitional instances for a one-element list
    return [Out(ret=R, assume=[REQ.tot(R.z) == n, REQ.cnt_in(R.z, cx.selff('ghost_i').z) ==
                               TL.b2i(TL.covers(o, n, cx.selff('ghost_i').z))])]


nonsparse_stub.modifies = ()
COPIER_GHOST = ('ghost_sum', 'ghost_wcnt', 'ghost_dst_gt', 'ghost_lostall')


def copier_iter_stub(cx):
    """callee view of one _SFTPParallelIO.iter() activation of the copier, for the range (o, n) =
    (_offset, _bytes_left) at the call; iter's precondition is checked here.  Restated from what is proved on iter
    (whole-range-delivered-unless-eof, no-byte-twice-none-outside-the-range, everything-scheduled-and-answered) and
    on _SFTPFileCopier.run_task (a yielded block (offset, datalen) was read from the source and written to the
    destination at that offset): the items' sizes sum to n - lost with lost >= 0; w = number of blocks covering the
    rigid position, at most one, exactly one for every position of the range when lost == 0."""
    g = lambda n_: cx.selff(n_).z
    o, n, i = g('_offset'), g('_bytes_left'), g('ghost_i')
    cx.require('iter-requires', z3.And(g('_block_size') >= 1, n >= 0, g('_max_requests') >= 1,
                                       g('_pending') == z3.Empty(REQ.SEQ)))
    R = cx.fresh('seq[' + TILE + ']', 'copied')
    R.raises = ['SFTPError', 'OSError']
    off = cx.fresh('int', 'offset_after')
    lost, w = cx.fresh('int', 'lost').z, cx.fresh('int', 'w').z
    inr = TL.b2i(TL.covers(o, n, i))
    return [Out(ret=R, sets={'_bytes_left': VInt(0), '_offset': off,
                             'ghost_sum': VInt(g('ghost_sum') + REQ.tot(R.z)),
                             'ghost_lostall': VInt(g('ghost_lostall') + lost),
                             'ghost_wcnt': VInt(g('ghost_wcnt') + w),
                             'ghost_dst_gt': VBool(z3.Or(g('ghost_dst_gt'), w >= 1))},
                assume=REQ.ax_empty(z3.IntVal(0), z3.IntVal(0)) + [
                    lost >= 0, REQ.tot(R.z) + lost == n, w >= 0, w <= inr, z3.Implies(lost == 0, w == inr)],
                event=('iter', ()))]


copier_iter_stub.modifies = ('_bytes_left', '_offset') + COPIER_GHOST


def remote_copy_stub(cx):
    """SFTPClient.remote_copy(src, dst, src_offset, length, dst_offset) (verified below): the server copies the
    range from the source handle to the destination handle (copy-data; that the server moves all `length` bytes is
    its contract, see _process_copy_data)"""
    a = cx.args
    i = cx.selff('ghost_i').z
    cx.require('remote-copy-keeps-the-position', a[2].z == a[4].z)
    cx.require('remote-copy-from-the-source-to-the-destination', z3.And(
        cx.ex.veq(cx.st, a[0], cx.selff('_src')), cx.ex.veq(cx.st, a[1], cx.selff('_dst'))))
    cov = TL.covers(a[4].z, a[3].z, i)
    me = cx.ex.self_ref
    return [Out(osets=[(me, 'ghost_sum', VInt(cx.selff('ghost_sum').z + a[3].z)),
                       (me, 'ghost_wcnt', VInt(cx.selff('ghost_wcnt').z + TL.b2i(cov))),
                       (me, 'ghost_dst_gt', VBool(z3.Or(cx.selff('ghost_dst_gt').z, cov)))],
                event=('remote_copy', tuple(a))),
            Out(exc=VExc('SFTPError'))]


remote_copy_stub.modifies = COPIER_GHOST


def dst_write_stub(cx):
    """self._dst.write(data, offset) issued by run() itself (not a copied block): only zero bytes, inside the
    announced size, and only where no source byte has been written yet (giving the destination its length)"""
    a = cx.args
    i = cx.selff('ghost_i').z
    ok = z3.BoolVal(False)
    gt = cx.selff('ghost_dst_gt').z
    if len(a) == 2 and isinstance(a[0], VBytes) and isinstance(a[1], VInt):
        d, o = a[0].z, a[1].z
        cov = TL.covers(o, z3.Length(d), i)
        ok = z3.And(o >= 0, o + z3.Length(d) <= cx.selff('_total_bytes').z,
                    z3.Implies(cov, z3.And(d[i - o] == 0, cx.selff('ghost_wcnt').z == 0)))
        gt = z3.Or(gt, z3.And(z3.Length(d) > 0, o + z3.Length(d) > i, i >= 0))
    cx.require('extension-write-is-zeros-inside-the-size-and-precedes-the-data', ok)
    return [Out(ret=cx.fresh('int', 'written'), sets={}, osets=[(cx.ex.self_ref, 'ghost_dst_gt', VBool(gt))]),
            Out(exc=VExc('SFTPError')), Out(exc=VExc('OSError'))]


dst_write_stub.modifies = ('ghost_dst_gt',)


def is_client_stub(cx):
    v = cx.args[0]
    return cx.ex.get_field(cx.st, v, 'ghost_is_client')


is_client_stub.modifies = ()


def copier_frame(f):
    return z3.And(f('_block_size') >= 1, f('_max_requests') >= 1, f('_pending') == z3.Empty(REQ.SEQ))


def copier_point(f, R, k):
    """the pointwise state of the copy after the first k ranges"""
    i = f('ghost_i')
    return z3.And(
        f('_bytes_copied') == f('ghost_sum'), f('ghost_lostall') >= 0,
        f('ghost_sum') + f('ghost_lostall') == REQ.tot(TL.prefix(R, k)),
        z3.Implies(f('ghost_lostall') == 0, f('ghost_wcnt') == REQ.cnt_in(TL.prefix(R, k), i)),
        f('ghost_wcnt') >= 0, z3.Implies(f('ghost_wcnt') >= 1, f('ghost_dst_gt')),
        z3.Implies(f('ghost_dst_gt'), z3.And(i >= 0, i < f('_total_bytes'))))


def copier_loop3_inv(c):
    f = c.new
    R, k = c.extra['iter'].z, c.extra['i']
    # (the loop cut havocs everything the iter() stub in the loop header may set: carried over unchanged)
    same = [f(n_) == c.at_entry(n_) for n_ in ('ghost_wcnt', 'ghost_dst_gt', 'ghost_lostall', 'ghost_sum',
                                                '_bytes_left')]
    return z3.And(f('_bytes_copied') + REQ.tot(R) - REQ.tot(TL.prefix(R, k)) == f('ghost_sum'),
                  copier_frame(f), *same)


def copier_loop3_lemmas(c):
    R, k0, k = c.extra['iter'].z, c.extra['i0'], c.extra['i']
    z = z3.IntVal(0)
    if z3.is_int_value(k0):
        return REQ.ax_empty(z, z)
    if k is k0:
        return [Prove(TL.prefix(R, k0) == R, 'items[:len(items)] == items')]
    return REQ.ax_snoc_at(R, k0, z, z)


def copier_ranges_lemmas(c):
    R, k0, k = c.extra['iter'].z, c.extra['i0'], c.extra['i']
    i, z = c.new('ghost_i'), z3.IntVal(0)
    if z3.is_int_value(k0):
        return REQ.ax_empty(i, z)
    if k is k0:
        return [Prove(TL.prefix(R, k0) == R, 'ranges[:len(ranges)] == ranges')]
    return REQ.ax_snoc_at(R, k0, i, z)


def copier_loop1_inv(c):
    f = c.new
    R, k = c.extra['iter'].z, c.extra['i']
    return z3.And(copier_point(f, R, k), f('ghost_lostall') == 0,
                  z3.Implies(c.at_entry('ghost_dst_gt'), f('ghost_dst_gt')))      # the destination never shrinks


def copier_loop2_inv(c):
    f = c.new
    R, k = c.extra['iter'].z, c.extra['i']
    return z3.And(copier_point(f, R, k), copier_frame(f),
                  z3.Implies(c.at_entry('ghost_dst_gt'), f('ghost_dst_gt')))      # the destination never shrinks


COPIER_STUBS = {
    'self._srcfs.open': fs_open_stub('src'), 'self._dstfs.open': fs_open_stub('dst'),
    'self._progress_handler': noop('progress'),
    'self._src.request_ranges': ranges_stub, '_request_nonsparse_range': nonsparse_stub,
    'self._srcfs.remote_copy': remote_copy_stub, 'isinstance': is_client_stub,
    'self.iter': copier_iter_stub, 'self._dst.write': dst_write_stub,
    'self._src.close': noop('close'), 'self._dst.close': noop('close'),
    'setattr': noop('setattr'),
}


def copier_requires(c):
    f = c.old
    return z3.And(c.is_none(c.oldv('_src')), c.is_none(c.oldv('_dst')), f('_bytes_copied') == 0,
                  f('ghost_sum') == 0, f('ghost_wcnt') == 0, z3.Not(f('ghost_dst_gt')), f('ghost_lostall') == 0,
                  f('_total_bytes') >= 0, copier_frame(f))


def opened(c):
    return len(c.events('open'))


def source_bytes_here(f):
    """1 iff the rigid position holds a byte the copy has to transfer: a data byte of the source for a sparse copy,
    any byte below the announced size otherwise"""
    i, total = f('ghost_i'), f('_total_bytes')
    return z3.If(f('_sparse'), data_in(i, 0, total), TL.b2i(TL.covers(0, total, i)))


def copier_spec(label, setup):
    sp = Spec(
        PROP, 'sftp', '_SFTPFileCopier.run', self_class='Copier', classes=COPIER_CLASSES,
        stubs=COPIER_STUBS, setup=setup, cases=[(label, {})],
        loops={
            1: LoopSpec(header='for (offset, length) in ranges', invariant=copier_loop1_inv,
                        lemmas=copier_ranges_lemmas),
            2: LoopSpec(header='for (self._offset, self._bytes_left) in ranges', invariant=copier_loop2_inv,
                        lemmas=copier_ranges_lemmas),
            3: LoopSpec(header='for (_, datalen) in self.iter()', invariant=copier_loop3_inv,
                        lemmas=copier_loop3_lemmas),
        },
        requires=copier_requires,
        modifies=['_src', '_dst', '_bytes_copied', '_offset', '_bytes_left'] + list(COPIER_GHOST),
        ensures=[
            # a non-sparse copy that returns normally has copied exactly the announced number of bytes
            ('non-sparse-success-means-all-bytes-copied',
             lambda c: z3.Implies(z3.Not(c.new('_sparse')), z3.And(c.new('ghost_sum') == c.new('_total_bytes'),
                                                                   c.new('ghost_lostall') == 0))),
            # unless the source indicated end-of-file early (sparse copies do not check that), every byte the copy
            # has to transfer was written to the destination exactly once, at its own offset, and no other position was
            ('every-source-byte-written-exactly-once-at-its-offset',
             lambda c: z3.Implies(c.new('ghost_lostall') == 0, c.new('ghost_wcnt') == source_bytes_here(c.new))),
            # the destination is as long as the source, also when the source ends in a hole
            ('destination-extends-to-the-announced-size',
             lambda c: z3.Implies(z3.And(c.new('ghost_lostall') == 0, c.new('ghost_i') >= 0,
                                         c.new('ghost_i') < c.new('_total_bytes')), c.new('ghost_dst_gt'))),
            ('nothing-written-beyond-the-announced-size',
             lambda c: z3.Implies(c.new('ghost_dst_gt'), c.new('ghost_i') < c.new('_total_bytes'))),
        ],
        always=[('both-files-closed-if-opened', lambda c: z3.BoolVal(len(c.events('close')) == opened(c)))],
        raises={'SFTPFailure': lambda c: z3.And(z3.Not(c.new('_sparse')),
                                                c.new('ghost_sum') != c.new('_total_bytes')),
                'SFTPError': True, 'OSError': True})
    sp.no_replay = True
    return sp


def alias_fs(ex, st):
    """source and destination on the same file system object (remote-to-remote copy on one client)"""
    st.set_field(ex.self_ref, '_dstfs', ex.get_field(st, ex.self_ref, '_srcfs'))


copier_run = copier_spec('different-fs', None)
copier_run_same = copier_spec('same-fs', alias_fs)


def gen_setup(ex, st):
    for n_ in ('offset', 'length'):
        st.env[n_] = ex.fresh(st, 'int', n_)
        st.inputs[n_] = st.env[n_]


copier_nonsparse_gen = Spec(
    PROP, 'sftp', '_SFTPFileCopier.run', self_class='Copier', classes=COPIER_CLASSES,
    cases=[('_request_nonsparse_range', {})], setup=gen_setup,
    region=lambda fn: [n_ for n_ in fn.body if isinstance(n_, ast.AsyncFunctionDef)][0].body,
    stubs={'yield': lambda cx: [Out(event=('yield', (cx.args[0],)))]},
    ensures=[('yields-exactly-(offset,length)', lambda c: z3.And(
        z3.BoolVal(len(c.events('yield')) == 1),
        c.events('yield')[0][1][0].items[0].z == c.old_state.env['offset'].z,
        c.events('yield')[0][1][0].items[1].z == c.old_state.env['length'].z))])
copier_nonsparse_gen.no_replay = True


# ------------------------------------------------------------------ SFTPClientFile: position tracking
FILE_FIELDS = {
    '_handler': 'obj:Handler', '_handle': 'opt[bytes]', '_appending': 'bool', '_encoding': 'opt[str]',
    '_errors': 'str', '_offset': 'opt[int]', 'read_len': 'int', 'write_len': 'int', '_max_requests': 'int',
}
FILE_CLASSES = {'ClientFile': FILE_FIELDS, 'Handler': {'limits': 'obj:Limits'},
                'Limits': {'max_read_len': 'int', 'max_write_len': 'int'}}
FILE_CLASSES['Reader'] = dict(PIO_FIELDS, _handler='obj:Handler', _handle='bytes', _start='int', ghost_b='int')
FILE_CLASSES['Writer'] = dict(PIO_FIELDS, _handler='obj:Handler', _handle='bytes', _start='int', _data='bytes')
SEEK_GLOBALS = {'SEEK_SET': VInt(0), 'SEEK_CUR': VInt(1), 'SEEK_END': VInt(2)}     # os.SEEK_* (POSIX values)


def construct(cls, init_getter, name, ghost_zero=()):
    """ClassName(args): a new object of heap shape `cls` (arbitrary fields), then the *contract* of its verified
    __init__ (contract_stub on the new object).  Ghost initialisation: the new scheduler's ghost range is its
    requested range and nothing has been yielded yet (ghost fields are specification-only and unconstrained in the
    fresh object, so fixing them is a definition, not an assumption about the code)."""
    from pyvc.engine import CallCtx

    def stub(cx):
        ex, st = cx.ex, cx.st
        ref = ex.new_object(st, cls, name)
        cx2 = CallCtx(ex, st, cx.key + '.__init__', ref, cx.args, cx.kwargs, cx.node)
        outs = contract_stub(init_getter)(cx2)
        cx.requires.extend(cx2.requires)
        g = lambda n_: ex.get_field(st, ref, n_).z
        res = []
        for o in outs:
            if o.exc is not None:
                res.append(o)
                continue
            new = dict(o.sets)
            o.osets = [(ref, f_, v_) for f_, v_ in new.items()]
            o.sets = {}
            o.ret = ref
            o.event = (name, tuple(cx.args))
            o.assume = list(o.assume) + [
                g('ghost_lo') == new['_offset'].z, g('ghost_hi') == new['_offset'].z + new['_bytes_left'].z,
                g('ghost_ycnt') == 0, z3.Not(g('ghost_failed')), z3.Not(g('ghost_cur_open')),
                g('ghost_ysum') == 0, z3.Not(g('ghost_eofk'))] + \
                [(g(n_) == 0 if z3.is_int(g(n_)) else z3.Not(g(n_))) for n_ in ghost_zero]
            res.append(o)
        return res
    stub.modifies = ()
    stub.spec_getter = init_getter      # a verified contract, not a hand-written assumption
    return stub


def ctor_stub(name):
    """_SFTPFileReader(...) / _SFTPFileWriter(...): the object is identified with its constructor arguments"""
    def stub(cx):
        return [Out(ret=VTuple(list(cx.args)), event=(name, tuple(cx.args)))]
    stub.modifies = ()
    return stub


def calls_of(c, key):
    return [x for x in c.calls() if x['key'] == key]


def opt_val(v):
    """(is-none z3, value z3) of an Optional[int] Value"""
    if v is VNone:
        return z3.BoolVal(True), z3.IntVal(0)
    if isinstance(v, VOpt):
        return v.isnone, v.val.z
    return z3.BoolVal(False), v.z


def int_is(v, z):
    """the (possibly Optional) int Value v is the integer z"""
    n, val = opt_val(v)
    return z3.And(z3.Not(n), val == z)


def eff_offset(c):
    """the position an operation works at: the explicit offset, else the current file position"""
    an, av = opt_val(c.argv('offset'))
    on, ov = opt_val(c.oldv('_offset'))
    return z3.And(an, on), z3.If(an, ov, av)


def offset_unchanged(c):
    on, ov = opt_val(c.oldv('_offset'))
    nn, nv = opt_val(c.newv('_offset'))
    return z3.And(on == nn, z3.Implies(z3.Not(on), ov == nv))


def read_post(c):
    """read(size, offset): the position afterwards is (position read at) + (number of bytes obtained); the
    request is made at that position; nothing is requested when there is no position (append mode)"""
    none, eff = eff_offset(c)
    direct = calls_of(c, 'self._handler.read')
    par = calls_of(c, '_SFTPFileReader().run')
    ctor = calls_of(c, '_SFTPFileReader')
    ends = calls_of(c, 'self._end')
    if len(direct) + len(par) == 0:
        return z3.And(none, offset_unchanged(c), z3.BoolVal(not ends))
    if len(direct) + len(par) != 1 or len(ctor) != len(par):
        return z3.BoolVal(False)
    sn, sv = opt_val(c.argv('size'))
    if ends:
        size = ends[0]['ret'].z - eff
        size_ok = z3.Or(sn, sv < 0)
    else:
        size = sv
        size_ok = z3.And(z3.Not(sn), sv >= 0)
    call = (direct or par)[0]
    def size_is(v):
        # "everything up to the end of the file"; beyond the end that is nothing (a negative difference is
        # flagged separately by read-length-is-not-negative)
        if ends:
            return z3.Or(int_is(v, size), z3.And(size < 0, int_is(v, 0)))
        return int_is(v, size)
    if direct:
        a = call['args']
        # a single READ is only good for a request the server can answer in one reply: not larger than the block
        # size / the server's read limit (larger requests must go through the parallel reader, which continues
        # short reads), unless parallel I/O was disabled (block_size=0)
        mr, _mw = limits_of(c)
        sent = opt_val(a[2])[1]
        one_reply = z3.Or(c.old('read_len') == 0, z3.And(sent <= c.old('read_len'), sent <= mr))
        req = z3.And(c.eq(a[0], c.oldv('_handle')), int_is(a[1], eff), size_is(a[2]), one_reply)
    else:
        a = ctor[0]['args']
        mr, _mw = limits_of(c)
        req = z3.And(z3.Or(a[0].z == c.old('read_len'), z3.And(c.old('read_len') == 0, a[0].z == mr)),
                     a[1].z == c.old('_max_requests'),
                     c.eq(a[3], c.oldv('_handle')), int_is(a[4], eff), size_is(a[5]))
    if call.get('exc') is not None:          # SFTPEOFError: nothing read, position unchanged
        moved = offset_unchanged(c)
        data = z3.Empty(BytesS)
    else:
        data = call['ret'].items[0].z if direct else call['ret'].z
        nn, nv = opt_val(c.newv('_offset'))
        moved = z3.And(z3.Not(nn), nv == eff + z3.Length(data))
    res = c.result_v
    returned = res.z == data if isinstance(res, VBytes) else z3.BoolVal(bool(calls_of(c, 'data.decode')))
    return z3.And(z3.Not(none), size_ok, req, moved, returned)


def read_to_eof_post(c):
    """read() with size < 0 / None promises "all data up to the end of the file": a single READ whose (possibly
    short) answer is returned as it is does not keep that promise - the answer must be complete, or the request has
    to go through the parallel reader (which continues short reads up to the end-of-file indication)"""
    direct = calls_of(c, 'self._handler.read')
    ends = calls_of(c, 'self._end')
    if not ends or not direct or direct[0].get('exc') is not None:
        return z3.BoolVal(True)
    data = direct[0]['ret'].items[0].z
    return z3.Length(data) == opt_val(direct[0]['args'][2])[1]


def limits_of(c, new=False):
    get = c.newv if new else c.oldv
    h = get('_handler')
    lim = get('limits', h)
    return (c.new if new else c.old)('max_read_len', lim), (c.new if new else c.old)('max_write_len', lim)


def file_inv(c, new=False):
    """class invariant of SFTPClientFile (established by __init__ below; the fields are never written again) and of
    SFTPLimits as held by the handler (request_limits ignores zero values; defaults are positive)"""
    f = c.new if new else c.old
    mr, mw = limits_of(c, new)
    return z3.And(f('read_len') >= 0, f('write_len') >= 0, f('_max_requests') >= 1, mr >= 1, mw >= 1)


def handler_read_stub(cx):
    """SFTPClientHandler.read(handle, offset, length): length is sent as a uint32 (UInt32(length) raises
    OverflowError for a negative value), so the caller must not ask for a negative number of bytes"""
    n, v = opt_val(cx.args[2])
    cx.require('read-length-is-not-negative', z3.And(z3.Not(n), v >= 0))
    return may_raise(ret('tuple[bytes,bool]', 'readreply'), 'SFTPEOFError', 'SFTPError')(cx)


handler_read_stub.modifies = ()


def reader_ctor_stub(cx):
    """_SFTPFileReader(block_size, max_requests, handler, handle, offset, size): what iter() requires"""
    a = cx.args
    cx.require('parallel-reader-gets-block_size>=1', a[0].z >= 1)
    cx.require('parallel-reader-gets-max_requests>=1', a[1].z >= 1)
    cx.require('parallel-reader-gets-size>=0', z3.And(z3.Not(opt_val(a[5])[0]), opt_val(a[5])[1] >= 0))
    return construct('Reader', lambda: reader_init, 'reader')(cx)


reader_ctor_stub.modifies = ()

file_read = Spec(
    PROP, 'sftp', 'SFTPClientFile.read', self_class='ClientFile', classes=FILE_CLASSES,
    params={'size': 'opt[int]', 'offset': 'opt[int]'},
    stubs={'self._end': may_raise(ret('int', 'end'), 'SFTPError'),
           '_SFTPFileReader': reader_ctor_stub,
           '_SFTPFileReader().run': contract_stub(lambda: reader_run),
           'self._handler.read': handler_read_stub,
           'data.decode': may_raise(ret('str', 'decoded', event='decode'), 'UnicodeDecodeError')},
    requires=file_inv,
    ensures=[('position-advances-by-the-bytes-read', read_post),
             ('read-to-end-of-file-returns-all-of-it', read_to_eof_post)],
    # (UnicodeDecodeError is a ValueError: listed first)
    raises={'UnicodeDecodeError': True,
            'ValueError': lambda c: z3.And(c.is_none(c.oldv('_handle')), offset_unchanged(c)),
            'SFTPError': offset_unchanged, 'OSError': offset_unchanged})
file_read.no_replay = True


def write_post(c):
    """write(data, offset): the data is written at the explicit offset, else at the current position (0 when there
    is none: append mode ignores it); afterwards the position is behind the written data (unknown in append mode)"""
    an, av = opt_val(c.argv('offset'))
    on, ov = opt_val(c.oldv('_offset'))
    eff = z3.If(an, z3.If(on, 0, ov), av)
    enc = calls_of(c, 'cast().encode')
    data = enc[0]['ret'].z if enc else c.arg('data')
    direct = calls_of(c, 'self._handler.write')
    par = calls_of(c, '_SFTPFileWriter().run')
    ctor = calls_of(c, '_SFTPFileWriter')
    if len(direct) + len(par) != 1 or len(ctor) != len(par):
        return z3.BoolVal(False)
    if direct:
        a = direct[0]['args']
        req = z3.And(c.eq(a[0], c.oldv('_handle')), int_is(a[1], eff), a[2].z == data)
    else:
        a = ctor[0]['args']
        req = z3.And(a[0].z == c.old('write_len'), a[1].z == c.old('_max_requests'),
                     c.eq(a[3], c.oldv('_handle')), int_is(a[4], eff), a[5].z == data)
    nn, nv = opt_val(c.newv('_offset'))
    moved = z3.If(c.old('_appending'), nn, z3.And(z3.Not(nn), nv == eff + z3.Length(data)))
    return z3.And(req, moved, c.result == z3.Length(data))


def writer_ctor_stub(cx):
    """_SFTPFileWriter(block_size, max_requests, handler, handle, offset, data): what iter() requires"""
    a = cx.args
    cx.require('parallel-writer-gets-block_size>=1-and-max_requests>=1', z3.And(a[0].z >= 1, a[1].z >= 1))
    return construct('Writer', lambda: writer_init, 'writer')(cx)


writer_ctor_stub.modifies = ()

file_write = Spec(
    PROP, 'sftp', 'SFTPClientFile.write', self_class='ClientFile', classes=FILE_CLASSES,
    params={'data': 'bytes', 'offset': 'opt[int]'},
    stubs={'cast().encode': may_raise(ret('bytes', 'encoded'), 'UnicodeEncodeError'),
           '_SFTPFileWriter': writer_ctor_stub,
           '_SFTPFileWriter().run': contract_stub(lambda: writer_run),
           'self._handler.write': may_raise(noop('write'), 'SFTPError')},
    requires=file_inv,
    ensures=[('written-at-the-position-and-position-advanced', write_post)],
    raises={'UnicodeEncodeError': offset_unchanged,
            'ValueError': lambda c: z3.And(c.is_none(c.oldv('_handle')), offset_unchanged(c)),
            'SFTPError': offset_unchanged, 'OSError': offset_unchanged})
file_write.no_replay = True


def seek_post(c):
    on, ov = opt_val(c.oldv('_offset'))
    nn, nv = opt_val(c.newv('_offset'))
    ends = calls_of(c, 'self._end')
    end = ends[0]['ret'].z if ends else None
    w, off = c.arg('from_what'), c.arg('offset')
    cases = [z3.Implies(w == 0, z3.And(nv == off, z3.BoolVal(not ends)))]
    if end is not None:
        cases.append(z3.Implies(w == 1, z3.And(on, nv == end + off)))
        cases.append(z3.Implies(w == 2, nv == end + off))
    else:
        cases.append(z3.Implies(w == 1, z3.And(z3.Not(on), nv == ov + off)))
        cases.append(w != 2)
    return z3.And(z3.Not(nn), int_is(c.result_v, nv), z3.Or(w == 0, w == 1, w == 2), *cases)


file_seek = Spec(
    PROP, 'sftp', 'SFTPClientFile.seek', self_class='ClientFile', classes=FILE_CLASSES,
    params={'offset': 'int', 'from_what': 'int'}, globals=SEEK_GLOBALS,
    stubs={'self._end': may_raise(ret('int', 'end'), 'SFTPError')},
    ensures=[('seek-arithmetic', seek_post)],
    raises={'ValueError': lambda c: z3.And(offset_unchanged(c), z3.Or(
        c.is_none(c.oldv('_handle')), z3.And(c.arg('from_what') != 0, c.arg('from_what') != 1,
                                             c.arg('from_what') != 2))),
            'SFTPError': offset_unchanged})
file_seek.runtime_class = "SFTPClientFile"


def tell_post(c):
    on, ov = opt_val(c.oldv('_offset'))
    nn, nv = opt_val(c.newv('_offset'))
    ends = calls_of(c, 'self._end')
    if ends:
        return z3.And(on, z3.Not(nn), nv == ends[0]['ret'].z, int_is(c.result_v, nv))
    return z3.And(z3.Not(on), offset_unchanged(c), int_is(c.result_v, ov))


file_tell = Spec(
    PROP, 'sftp', 'SFTPClientFile.tell', self_class='ClientFile', classes=FILE_CLASSES,
    stubs={'self._end': may_raise(ret('int', 'end'), 'SFTPError')},
    ensures=[('tell-reports-the-position(end-of-file-in-append-mode)', tell_post)],
    raises={'ValueError': lambda c: z3.And(c.is_none(c.oldv('_handle')), offset_unchanged(c)),
            'SFTPError': offset_unchanged})
file_tell.runtime_class = "SFTPClientFile"


def init_limits(c):
    h = c.argv('handler')
    lim = c.oldv('limits', h)
    return c.old('max_read_len', lim), c.old('max_write_len', lim)


file_init = Spec(
    PROP, 'sftp', 'SFTPClientFile.__init__', self_class='ClientFile', classes=FILE_CLASSES,
    params={'handler': 'obj:Handler', 'handle': 'bytes', 'appending': 'bool', 'encoding': 'opt[str]',
            'errors': 'str', 'block_size': 'int', 'max_requests': 'int'},
    # documented domain of block_size: -1 (server limit), 0 (no parallel I/O) or a positive size
    requires=lambda c: z3.And(c.arg('block_size') >= -1, init_limits(c)[0] >= 1, init_limits(c)[1] >= 1),
    ensures=[
        ('class-invariant-established', lambda c: file_inv(c, new=True)),
        ('initial-position', lambda c: z3.If(c.arg('appending'), c.is_none(c.newv('_offset')),
                                             int_is(c.newv('_offset'), 0))),
        ('block-sizes-as-requested', lambda c: z3.And(
            c.new('read_len') == z3.If(c.arg('block_size') == -1, init_limits(c)[0], c.arg('block_size')),
            c.new('write_len') == z3.If(c.arg('block_size') == -1, init_limits(c)[1], c.arg('block_size')))),
    ])
file_init.runtime_class = 'SFTPClientFile'


# ------------------------------------------------------------------ SFTPClient._begin_copy: parameter normalisation
BC_PARAMS = {'srcfs': 'obj:CopyFS', 'dstfs': 'obj:CopyFS', 'srcpaths': 'any', 'dstpath': 'any', 'copy_type': 'str',
             'expand_glob': 'bool', 'preserve': 'bool', 'recurse': 'bool', 'follow_symlinks': 'bool',
             'sparse': 'bool', 'block_size': 'int', 'max_requests': 'int', 'progress_handler': 'any',
             'error_handler': 'any', 'remote_only': 'bool'}


def fs_limits(c, name):
    lim = c.oldv('limits', c.argv(name))
    return c.old('max_read_len', lim), c.old('max_write_len', lim)


begin_copy_norm = Spec(
    PROP, 'sftp', 'SFTPClient._begin_copy', self_class='Client', params=BC_PARAMS,
    classes={'Client': {}, 'CopyFS': {'limits': 'obj:Limits'},
             'Limits': {'max_read_len': 'int', 'max_write_len': 'int'}},
    cases=[('normalisation', {})],
    # the two leading `if` statements: what reaches _SFTPFileCopier (and from there iter()) as block size / window
    region=lambda fn: [n_ for n_ in fn.body if isinstance(n_, ast.If)][:2],
    requires=lambda c: z3.And(fs_limits(c, 'srcfs')[0] >= 1, fs_limits(c, 'dstfs')[1] >= 1),
    ensures=[('copier-gets-block_size>=1-and-max_requests>=1',
              lambda c: z3.And(c.local('block_size') >= 1, c.local('max_requests') >= 1)),
             ('explicit-values-are-kept', lambda c: z3.And(
                 z3.Implies(c.arg('block_size') >= 1, c.local('block_size') == c.arg('block_size')),
                 z3.Implies(c.arg('max_requests') >= 1, c.local('max_requests') == c.arg('max_requests'))))])
begin_copy_norm.no_replay = True


# ------------------------------------------------------------------ SFTPClientHandler.request_limits
def decode_limits_stub(cx):
    """SFTPLimits.decode(packet): four uint64 fields (C14), hence non-negative"""
    lim = cx.fresh('obj:Limits', 'decoded')
    g = lambda n_: cx.ex.get_field(cx.st, lim, n_).z
    return [Out(ret=lim, assume=[g('max_read_len') >= 0, g('max_write_len') >= 0]),
            Out(exc=VExc('SFTPBadMessage'))]


decode_limits_stub.modifies = ()


def handler_limits_ok(c, new=True):
    f = c.new if new else c.old
    lim = (c.newv if new else c.oldv)('limits')
    return z3.And(f('max_read_len', lim) >= 1, f('max_write_len', lim) >= 1)


request_limits = Spec(
    PROP, 'sftp', 'SFTPClientHandler.request_limits', self_class='CHandler',
    classes={'CHandler': {'_supports_limits': 'bool', 'limits': 'obj:Limits'},
             'Limits': {'max_read_len': 'int', 'max_write_len': 'int'}, 'Pkt': {}},
    stubs={'self._make_request': may_raise(ret('obj:Pkt', 'reply'), 'SFTPError'),
           'SFTPLimits.decode': decode_limits_stub, 'packet.check_end': may_raise(noop('check_end'), 'SFTPBadMessage'),
           'limits.log': noop('log')},
    requires=lambda c: handler_limits_ok(c, new=False),
    # zero values announced by the server are ignored: the block sizes derived from the limits stay >= 1
    always=[('limits-stay-positive', handler_limits_ok)],
    raises={'SFTPError': True})
request_limits.no_replay = True


# ------------------------------------------------------------------ SFTPClientFile.request_ranges (sparse files)
RF_CLASSES = {
    'RFile': {'_handler': 'obj:RHandler', 'handle': 'bytes',      # `handle` property (== _handle while open)
              'ghost_i': 'int', 'ghost_cov': 'int'},
    'RHandler': {}, 'Ranges': {'ranges': 'seq[' + TILE + ']', 'at_end': 'bool'}}


def data_in(i, lo, hi):
    return TL.b2i(z3.And(isdata(i), lo <= i, i < hi))


def server_ranges_stub(cx):
    """contract of the 'ranges@asyncssh.com' request (offset o, length n) as served by _process_ranges /
    _request_ranges: a non-empty ascending list of the data ranges of the window, complete up to the end E of its
    last range (and E <= o + n, E > o); complete for the whole window when at_end; EOF error when the window holds
    no data.  Stated for the rigid position."""
    o, n = cx.args[1].z, cx.args[2].z
    i = cx.selff('ghost_i').z
    r = cx.fresh('obj:Ranges', 'reply')
    R = cx.ex.get_field(cx.st, r, 'ranges').z
    at_end = cx.ex.get_field(cx.st, r, 'at_end').z
    last = R[z3.Length(R) - 1]
    E = REQ.off(last) + REQ.size(last)
    return [
        Out(ret=r, assume=[z3.Length(R) >= 1, E > o, E <= o + n,
                           REQ.cnt_in(R, i) == data_in(i, o, z3.If(at_end, o + n, E))] +
            REQ.ax_empty(i, z3.IntVal(0))),
        Out(exc=VExc('SFTPEOFError'), assume=[data_in(i, o, o + n) == 0]),
        Out(exc=VExc('SFTPError'))]


server_ranges_stub.modifies = ()


def client_range_yield_stub(cx):
    v = cx.args[0]
    i = cx.selff('ghost_i').z
    return [Out(sets={'ghost_cov': VInt(cx.selff('ghost_cov').z + TL.b2i(TL.covers(v.items[0].z, v.items[1].z, i)))})]


client_range_yield_stub.modifies = ('ghost_cov',)


def cr_outer_inv(c):
    f = c.new
    off, length = c.arg('offset'), c.arg('length')
    end, nxt = c.local('end'), c.local('next_offset')
    return z3.And(end == off + length, nxt >= off, nxt <= end, c.local('next_length') == end - nxt,
                  f('ghost_cov') == data_in(f('ghost_i'), off, z3.If(c.local('at_end'), end, nxt)))


def cr_inner_inv(c):
    f = c.new
    R, k = c.extra['iter'].z, c.extra['i']
    prev = R[k - 1]
    return z3.And(
        f('ghost_cov') == c.at_entry('ghost_cov') + REQ.cnt_in(TL.prefix(R, k), f('ghost_i')),
        z3.Implies(k > 0, z3.And(c.local('range_offset') == REQ.off(prev), c.local('range_length') == REQ.size(prev))))


def cr_inner_lemmas(c):
    R, k0, k = c.extra['iter'].z, c.extra['i0'], c.extra['i']
    i, z = c.new('ghost_i'), z3.IntVal(0)
    if z3.is_int_value(k0):
        return REQ.ax_empty(i, z)
    if k is k0:
        return [Prove(TL.prefix(R, k0) == R, 'ranges[:len(ranges)] == ranges')]
    return REQ.ax_snoc_at(R, k0, i, z)


def cr_setup(ex, st):
    """range_offset / range_length are first bound inside the inner loop and read after it
    (`pylint: disable=undefined-loop-variable` in the source): pre-bound to arbitrary ints so that the loop cut can
    havoc them; the read after the loop is guarded by `if result.ranges` (non-empty list)"""
    for n_ in ('range_offset', 'range_length'):
        st.env[n_] = ex.fresh(st, 'int', n_)


client_request_ranges = Spec(
    PROP, 'sftp', 'SFTPClientFile.request_ranges', self_class='RFile', classes=RF_CLASSES,
    params={'offset': 'int', 'length': 'int'}, setup=cr_setup,
    stubs={'self._handler.request_ranges': server_ranges_stub, 'yield': client_range_yield_stub},
    loops={1: LoopSpec(header='not at_end', invariant=cr_outer_inv, modifies=['ghost_cov']),
           2: LoopSpec(header='for (range_offset, range_length) in result.ranges', invariant=cr_inner_inv,
                       lemmas=cr_inner_lemmas, modifies=['ghost_cov'])},
    requires=lambda c: z3.And(c.old('ghost_cov') == 0, c.arg('offset') >= 0, c.arg('length') >= 0),
    ensures=[('every-data-byte-of-the-window-reported-exactly-once', lambda c: c.new('ghost_cov') == data_in(
        c.new('ghost_i'), c.arg('offset'), c.arg('offset') + c.arg('length')))],
    raises={'SFTPError': True})
client_request_ranges.no_replay = True


# ------------------------------------------------------------------ SFTPClientFile.read_parallel
def read_parallel_post(c):
    """the parallel reader is set up for the requested range at the effective position (nothing when there is no
    position: append mode), and its iterator is what the caller gets"""
    none, eff = eff_offset(c)
    ctor = calls_of(c, '_SFTPFileReader')
    ends = calls_of(c, 'self._end')
    if len(ctor) != 1 or len(calls_of(c, '_SFTPFileReader().iter')) != 1:
        return z3.BoolVal(False)
    a = ctor[0]['args']
    sn, sv = opt_val(c.argv('size'))
    size = ends[0]['ret'].z - eff if ends else sv
    size_ok = z3.Or(sn, sv < 0) if ends else z3.And(z3.Not(sn), sv >= 0)
    # block size: the file's read_len (a positive substitute when parallel I/O was disabled with block_size=0 is
    # demanded separately by parallel-reader-gets-block_size>=1)
    common = z3.And(z3.Or(a[0].z == c.old('read_len'), c.old('read_len') == 0), a[1].z == c.old('_max_requests'),
                    c.eq(a[3], c.oldv('_handle')), offset_unchanged(c))
    size_is = z3.Or(int_is(a[5], size), z3.And(size < 0, int_is(a[5], 0))) if ends else int_is(a[5], size)
    return z3.And(common, z3.If(none, z3.And(int_is(a[4], 0), int_is(a[5], 0), z3.BoolVal(not ends)),
                                z3.And(int_is(a[4], eff), size_is, size_ok)))


def reader_iter_handout_stub(cx):
    """_SFTPFileReader(...).iter(): the async iterator handed to the caller; iter()'s precondition must hold for the
    freshly constructed reader"""
    g = lambda n_: cx.ex.get_field(cx.st, cx.recv, n_).z
    cx.require('iter-requires', iter_pre(g))
    return [Out(ret=cx.fresh('opaque:AsyncIter', 'iterator'))]


reader_iter_handout_stub.modifies = ()

file_read_parallel = Spec(
    PROP, 'sftp', 'SFTPClientFile.read_parallel', self_class='ClientFile', classes=FILE_CLASSES,
    params={'size': 'opt[int]', 'offset': 'opt[int]'},
    stubs={'self._end': may_raise(ret('int', 'end'), 'SFTPError'), '_SFTPFileReader': reader_ctor_stub,
           '_SFTPFileReader().iter': reader_iter_handout_stub},
    requires=file_inv,
    ensures=[('reader-set-up-for-the-requested-range', read_parallel_post)],
    raises={'ValueError': lambda c: z3.And(c.is_none(c.oldv('_handle')), offset_unchanged(c)),
            'SFTPError': offset_unchanged})
file_read_parallel.no_replay = True


# ------------------------------------------------------------------ lemmas about the spec functions
def extra_checks(tier, seed):
    """base and step of the structural inductions behind the two non-definitional axioms about the tile counts
    (non-negativity; additivity over list concatenation, of which additivity over a partition is the multiset form)"""
    lemmas = []
    for tl in (REQ, ITEM):
        for name, ok in tl.induction_checks():
            lemmas.append({'name': f'C12.specs.tiles#{name}', 'verdict': 'proved' if ok else 'unknown',
                           'backend': 'z3', 'reason': None if ok else 'not discharged'})
    return {'lemmas': lemmas}


# ------------------------------------------------------------------ constructors and _start_task (the glue)
def iarg(c, name):
    """int argument (an Optional at some call sites: its value; the None case is excluded there by the caller)"""
    return opt_val(c.argv(name))[1]


def same_obj(c, field, arg):
    """the field holds the very object passed in.  Proved on __init__; at call sites (callee view) object-typed
    fields are not part of `modifies` - a modular call cannot express reference identity - so the clause is void
    there and the new object's collaborator stays an arbitrary object of its class"""
    if getattr(c, 'callee_view', False):
        return z3.BoolVal(True)
    return c.eq(c.newv(field), c.argv(arg))


def empty_set_stub(cx):
    """set(): the empty set of tasks (modelled as the empty list of requests)"""
    return VSeq(z3.Empty(REQ.SEQ), TILE)


empty_set_stub.modifies = ()
PIO_INIT_FIELDS = ['_block_size', '_max_requests', '_offset', '_bytes_left', '_pending']


def pio_init_post(c, size):
    f = c.new
    return z3.And(f('_block_size') == iarg(c, 'block_size'), f('_max_requests') == iarg(c, 'max_requests'),
                  f('_offset') == iarg(c, 'offset'), f('_bytes_left') == size, f('_pending') == z3.Empty(REQ.SEQ))


pio_init = Spec(
    PROP, 'sftp', '_SFTPParallelIO.__init__', self_class='PIO', classes=PIO_CLASSES,
    params={'block_size': 'int', 'max_requests': 'int', 'offset': 'int', 'size': 'int'},
    stubs={'set': empty_set_stub}, modifies=PIO_INIT_FIELDS,
    ensures=[('range-is-[offset,offset+size)-nothing-outstanding', lambda c: pio_init_post(c, iarg(c, 'size')))])
pio_init.no_replay = True

reader_init = Spec(
    PROP, 'sftp', '_SFTPFileReader.__init__', self_class='Reader', classes=dict(READER_CLASSES),
    params={'block_size': 'int', 'max_requests': 'int', 'handler': 'obj:Handler', 'handle': 'bytes',
            'offset': 'int', 'size': 'int'},
    stubs={'super().__init__': contract_stub(lambda: pio_init)},
    modifies=PIO_INIT_FIELDS + ['_handle', '_start', '_handler'],      # (_handler: see same_obj)
    ensures=[('scheduler-range', lambda c: pio_init_post(c, iarg(c, 'size'))),
             # the base of the reassembly buffer is the start of the requested range
             ('reassembly-base-is-the-range-start', lambda c: z3.And(
                 c.new('_start') == iarg(c, 'offset'), same_obj(c, '_handler', 'handler'),
                 c.eq(c.newv('_handle'), c.argv('handle'))))])
reader_init.no_replay = True

writer_init = Spec(
    PROP, 'sftp', '_SFTPFileWriter.__init__', self_class='Writer', classes=dict(WRITER_CLASSES),
    params={'block_size': 'int', 'max_requests': 'int', 'handler': 'obj:Handler', 'handle': 'bytes',
            'offset': 'int', 'data': 'bytes'},
    stubs={'super().__init__': contract_stub(lambda: pio_init)},
    modifies=PIO_INIT_FIELDS + ['_handle', '_start', '_data', '_handler'],      # (_handler: see same_obj)
    ensures=[('scheduler-range-is-the-whole-data', lambda c: pio_init_post(c, z3.Length(c.arg('data')))),
             ('data-base-is-the-range-start', lambda c: z3.And(
                 c.new('_start') == iarg(c, 'offset'), c.new('_data') == c.arg('data'),
                 same_obj(c, '_handler', 'handler'), c.eq(c.newv('_handle'), c.argv('handle'))))])
writer_init.no_replay = True

COPIER_INIT_PARAMS = {'block_size': 'int', 'max_requests': 'int', 'total_bytes': 'int', 'sparse': 'bool',
                      'srcfs': 'obj:FS', 'dstfs': 'obj:FS', 'srcpath': 'bytes', 'dstpath': 'bytes',
                      'progress_handler': 'opt[opaque:Progress]'}


def copier_init_post(c):
    f = c.new
    return z3.And(
        f('_block_size') == iarg(c, 'block_size'), f('_max_requests') == iarg(c, 'max_requests'),
        f('_pending') == z3.Empty(REQ.SEQ), f('_bytes_left') == 0,
        f('_total_bytes') == iarg(c, 'total_bytes'), f('_sparse') == c.arg('sparse'), f('_bytes_copied') == 0,
        c.is_none(c.newv('_src')), c.is_none(c.newv('_dst')),
        same_obj(c, '_srcfs', 'srcfs'), same_obj(c, '_dstfs', 'dstfs'),
        f('_srcpath') == c.arg('srcpath'), f('_dstpath') == c.arg('dstpath'))


copier_init = Spec(
    PROP, 'sftp', '_SFTPFileCopier.__init__', self_class='Copier', classes=COPIER_CLASSES,
    params=COPIER_INIT_PARAMS,
    stubs={'super().__init__': contract_stub(lambda: pio_init)},
    modifies=PIO_INIT_FIELDS + ['_sparse', '_srcpath', '_dstpath', '_src', '_dst', '_srcfs', '_dstfs',
                                '_bytes_copied', '_total_bytes', '_progress_handler'],
    ensures=[('copier-starts-with-the-announced-size-and-nothing-copied', copier_init_post)])
copier_init.no_replay = True


def run_task_stub(cx):
    """self.run_task(offset, size) of the subclass: (count, result)"""
    cnt, res = cx.fresh('int', 'count'), cx.fresh('any', 'result')
    return [Out(ret=VTuple([cnt, res]), event=('run_task', tuple(cx.args))),
            Out(exc=VExc('SFTPError')), Out(exc=VExc('OSError'))]


run_task_stub.modifies = ()

start_task = Spec(
    PROP, 'sftp', '_SFTPParallelIO._start_task', self_class='PIO', classes=PIO_CLASSES,
    params={'offset': 'int', 'size': 'int'}, stubs={'self.run_task': run_task_stub},
    ensures=[
        # the completed task reports its own request and exactly what run_task did with it (the count drives the
        # short-read continuation in iter())
        ('runs-the-block-it-was-started-for', lambda c: one_call(c, 'self.run_task', c.argv('offset'), c.argv('size'))),
        ('reports-request-count-and-result-unchanged', lambda c: z3.And(
            c.result_v.items[0].z == c.arg('offset'), c.result_v.items[1].z == c.arg('size'),
            c.result_v.items[2].z == c.calls('self.run_task')[0]['ret'].items[0].z,
            c.eq(c.result_v.items[3], c.calls('self.run_task')[0]['ret'].items[1]))),
    ],
    raises={'SFTPError': True, 'OSError': True})
start_task.no_replay = True


# ------------------------------------------------------------------ SFTPClientHandler.read / write / request_ranges
# what goes on the wire for a block: (handle, offset, length | data); the reply is decoded by _make_request (C14)
from pyvc.builtins_model import be

CH_CLASSES = {'CHandler2': {'_supports_ranges': 'bool'}, 'Pkt': {}}


def wire_string(b):
    return z3.Concat(be(z3.IntVal(4), z3.Length(b)), b)


def uint_ok(v, width):
    return z3.And(v >= 0, v < 256 ** width)


def request_is(c, *fields):
    """exactly one self._make_request(type, *fields) with these encoded fields, in this order"""
    calls = c.calls('self._make_request')
    if len(calls) != 1 or len(calls[0]['args']) != len(fields):
        return z3.BoolVal(False)
    conj = []
    for a, e in zip(calls[0]['args'], fields):
        conj.append(a.z == (z3.IntVal(e) if isinstance(e, int) else e))
    return z3.And(conj)


def mk_request_stub(cx):
    return [Out(ret=cx.fresh('any', 'reply'), event=('request', tuple(cx.args))), Out(exc=VExc('SFTPError'))]


mk_request_stub.modifies = ()
FXP_READ, FXP_WRITE = 5, 6        # draft-ietf-secsh-filexfer: SSH_FXP_READ / SSH_FXP_WRITE

handler_read = Spec(
    PROP, 'sftp', 'SFTPClientHandler.read', self_class='CHandler2', classes=CH_CLASSES,
    params={'handle': 'bytes', 'offset': 'int', 'length': 'int'}, stubs={'self._make_request': mk_request_stub},
    ensures=[('READ-carries-handle-offset-length', lambda c: request_is(
        c, FXP_READ, wire_string(c.arg('handle')), be(z3.IntVal(8), c.arg('offset')),
        be(z3.IntVal(4), c.arg('length')))),
        ('reply-is-passed-on', lambda c: c.eq(c.result_v, c.calls('self._make_request')[0]['ret']))],
    raises={'OverflowError': lambda c: z3.Not(z3.And(uint_ok(c.arg('offset'), 8), uint_ok(c.arg('length'), 4))),
            'SFTPError': True})
handler_read.no_replay = True

handler_write = Spec(
    PROP, 'sftp', 'SFTPClientHandler.write', self_class='CHandler2', classes=CH_CLASSES,
    params={'handle': 'bytes', 'offset': 'int', 'data': 'bytes'}, stubs={'self._make_request': mk_request_stub},
    ensures=[('WRITE-carries-handle-offset-data', lambda c: request_is(
        c, FXP_WRITE, wire_string(c.arg('handle')), be(z3.IntVal(8), c.arg('offset')),
        wire_string(c.arg('data'))))],
    raises={'OverflowError': lambda c: z3.Not(uint_ok(c.arg('offset'), 8)), 'SFTPError': True})
handler_write.no_replay = True


def ranges_ctor_stub(cx):
    return [Out(ret=cx.fresh('opaque:SFTPRanges', 'ranges'), event=('SFTPRanges', tuple(cx.args)))]


ranges_ctor_stub.modifies = ()


def handler_ranges_post(c):
    reqs = c.calls('self._make_request')
    made = c.events('SFTPRanges')
    if reqs:
        a = reqs[0]['args']
        return z3.And(z3.BoolVal(len(reqs) == 1 and len(a) == 4 and not made), c.old('_supports_ranges'),
                      a[0].z == bytes_const(b'ranges@asyncssh.com'), a[1].z == wire_string(c.arg('handle')),
                      a[2].z == be(z3.IntVal(8), c.arg('offset')), a[3].z == be(z3.IntVal(8), c.arg('length')),
                      z3.BoolVal(len(c.calls('SFTPRanges.decode')) == 1),
                      c.eq(c.result_v, c.calls('SFTPRanges.decode')[0]['ret']))
    # no extension: the whole window is one data range and the answer is final
    if len(made) != 1:
        return z3.BoolVal(False)
    lst, at_end = made[0][1]
    lst = c.ex.deref(c.new_state, lst)
    ok = isinstance(lst, VList) and len(lst.items) == 1 and isinstance(lst.items[0], VTuple)
    if not ok:
        return z3.BoolVal(False)
    o, n = lst.items[0].items
    return z3.And(z3.Not(c.old('_supports_ranges')), o.z == c.arg('offset'), n.z == c.arg('length'),
                  c.truthy(at_end))


handler_request_ranges = Spec(
    PROP, 'sftp', 'SFTPClientHandler.request_ranges', self_class='CHandler2', classes=CH_CLASSES,
    params={'handle': 'bytes', 'offset': 'int', 'length': 'int'},
    stubs={'self._make_request': mk_request_stub, 'SFTPRanges': ranges_ctor_stub,
           'SFTPRanges.decode': may_raise(ret('opaque:SFTPRanges', 'decoded'), 'SFTPBadMessage'),
           'packet.check_end': may_raise(noop('check_end'), 'SFTPBadMessage'), 'result.log': noop('log')},
    ensures=[('ranges-request-carries-handle-offset-length(or-whole-window-fallback)', handler_ranges_post)],
    raises={'OverflowError': lambda c: z3.Not(z3.And(uint_ok(c.arg('offset'), 8), uint_ok(c.arg('length'), 8))),
            'SFTPError': True})
handler_request_ranges.no_replay = True


# ------------------------------------------------------------------ SFTPServerHandler: READ / WRITE / ranges requests
# The server half of a transfer: the request's (offset, length | data) reach SFTPServer.read / write unchanged and
# the reply is what that call produced.  Packet field decoding itself (get_string/get_uint64/...) is C14.
SH_CLASSES = {'SHandler': {'_version': 'int', '_file_handles': 'dict[bytes,obj:SrvFile]', '_server': 'obj:Server'},
              'SrvFile': {}, 'Server': {}, 'Pkt': {}, 'Attrs': {'size': 'opt[int]'}}
PKT_STUBS = {'packet.get_string': ret('bytes', 'str_field'), 'packet.get_uint64': ret('int', 'u64_field'),
             'packet.get_uint32': ret('int', 'u32_field'),
             'packet.check_end': may_raise(noop('check_end'), 'SFTPBadMessage')}


def handle_file(c, handle_z):
    """the open file the handle denotes (object held in the handle table)"""
    m = c.oldv('_file_handles')
    return c.ex.map_value(c.new_state, m, handle_z)


def srv_read_post(c):
    strs, u64, u32 = c.calls('packet.get_string'), c.calls('packet.get_uint64'), c.calls('packet.get_uint32')
    rd = c.calls('self._server.read')
    if len(strs) != 1 or len(u64) != 1 or len(u32) != 1 or len(rd) != 1 or len(rd[0]['args']) != 3:
        return z3.BoolVal(False)
    a = rd[0]['args']
    data = rd[0]['ret'].z
    res = c.result_v
    return z3.And(c.eq(a[0], handle_file(c, strs[0]['ret'].z)), a[1].z == u64[0]['ret'].z, a[2].z == u32[0]['ret'].z,
                  res.items[0].z == data, z3.Length(data) > 0)


process_read = Spec(
    PROP, 'sftp', 'SFTPServerHandler._process_read', self_class='SHandler', classes=SH_CLASSES,
    params={'packet': 'obj:Pkt'},
    stubs=dict(PKT_STUBS, **{
        'self._server.read': may_raise(ret('bytes', 'filedata'), 'OSError', 'SFTPError'),
        'self._server.fstat': ret('any', 'osattrs'),
        'self._server.convert_attrs': ret('obj:Attrs', 'attrs')}),
    ensures=[('reads-the-requested-range-of-the-handle-and-returns-it', srv_read_post)],
    # end-of-file is reported as an error status, never as an empty DATA reply
    raises={'SFTPEOFError': lambda c: z3.And(z3.BoolVal(len(c.calls('self._server.read')) == 1), *[
        z3.Length(x['ret'].z) == 0 for x in c.calls('self._server.read') if x.get('exc') is None]),
        'SFTPInvalidHandle': lambda c: z3.BoolVal(len(c.calls('self._server.read')) == 0),
        'SFTPBadMessage': lambda c: z3.BoolVal(len(c.calls('self._server.read')) == 0),
        'SFTPError': True, 'OSError': True})
process_read.no_replay = True


def srv_write_post(c):
    strs, u64 = c.calls('packet.get_string'), c.calls('packet.get_uint64')
    wr = c.calls('self._server.write')
    if len(strs) != 2 or len(u64) != 1 or len(wr) != 1 or len(wr[0]['args']) != 3:
        return z3.BoolVal(False)
    a = wr[0]['args']
    return z3.And(c.eq(a[0], handle_file(c, strs[0]['ret'].z)), a[1].z == u64[0]['ret'].z,
                  a[2].z == strs[1]['ret'].z, c.eq(c.result_v, wr[0]['ret']))


process_write = Spec(
    PROP, 'sftp', 'SFTPServerHandler._process_write', self_class='SHandler', classes=SH_CLASSES,
    params={'packet': 'obj:Pkt'},
    stubs=dict(PKT_STUBS, **{'self._server.write': may_raise(ret('int', 'written'), 'OSError', 'SFTPError')}),
    ensures=[('writes-the-received-data-at-the-requested-offset-of-the-handle', srv_write_post)],
    raises={'SFTPInvalidHandle': lambda c: z3.BoolVal(len(c.calls('self._server.write')) == 0),
            'SFTPBadMessage': lambda c: z3.BoolVal(len(c.calls('self._server.write')) == 0),
            'SFTPError': True, 'OSError': True})
process_write.no_replay = True


def srv_request_ranges_stub(cx):
    """callee view of _request_ranges(file_obj, offset, length) (verified above): the ascending data ranges of the
    window, in order, or OSError"""
    R = cx.fresh('seq[' + TILE + ']', 'ranges')
    R.raises = ['OSError']
    return [Out(ret=R, event=('_request_ranges', tuple(cx.args)))]


srv_request_ranges_stub.modifies = ()
MAX_RANGES = 128          # _MAX_SPARSE_RANGES: the protocol constant of the extension (ranges per reply)


def local_seq(c, name):
    v = c.ex.deref(c.new_state, c.localv(name))
    return z3.Empty(REQ.SEQ) if isinstance(v, VList) and not v.items else v.z


def srv_ranges_inv(c):
    R, k = c.extra['iter'].z, c.extra['i']
    return z3.And(local_seq(c, 'result') == TL.prefix(R, k), c.local('count') == k, k < MAX_RANGES)


def srv_ranges_post(c):
    strs, u64 = c.calls('packet.get_string'), c.calls('packet.get_uint64')
    rr, made = c.calls('_request_ranges'), c.events('SFTPRanges')
    if len(strs) != 1 or len(u64) != 2 or len(rr) != 1 or len(made) != 1 or len(rr[0]['args']) != 3:
        return z3.BoolVal(False)
    a = rr[0]['args']
    R = rr[0]['ret'].z
    lst, at_end = made[0][1]
    lst = c.ex.deref(c.new_state, lst)
    L = z3.Length(lst.z)
    return z3.And(
        # the scan is made for the requested window of the handle's file
        c.eq(a[0], handle_file(c, strs[0]['ret'].z)), a[1].z == u64[0]['ret'].z, a[2].z == u64[1]['ret'].z,
        # the reply is a non-empty prefix of the ranges, in order
        L >= 1, lst.z == TL.prefix(R, L), L <= z3.Length(R),
        # "at end" only if nothing was cut off; a cut-off reply is full (the client continues behind it)
        z3.Implies(c.truthy(at_end), lst.z == R),
        z3.Implies(z3.Not(c.truthy(at_end)), L == MAX_RANGES))


process_ranges = Spec(
    PROP, 'sftp', 'SFTPServerHandler._process_ranges', self_class='SHandler', classes=SH_CLASSES,
    params={'packet': 'obj:Pkt'}, local_types={'result': 'seq[' + TILE + ']'},
    stubs=dict(PKT_STUBS, **{'_request_ranges': srv_request_ranges_stub, 'SFTPRanges': ranges_ctor_stub}),
    loops={1: LoopSpec(header='for data_range in _request_ranges(file_obj, offset, length)',
                       invariant=srv_ranges_inv)},
    ensures=[('reply-is-a-prefix-of-the-ranges-and-at_end-only-when-complete', srv_ranges_post)],
    raises={'SFTPEOFError': lambda c: z3.And(*[z3.Length(x['ret'].z) == 0 for x in c.calls('_request_ranges')]),
            'SFTPInvalidHandle': lambda c: z3.BoolVal(len(c.calls('_request_ranges')) == 0),
            'SFTPBadMessage': lambda c: z3.BoolVal(len(c.calls('_request_ranges')) == 0),
            'OSError': True})
process_ranges.no_replay = True


# ------------------------------------------------------------------ SFTPClient._copy: the file branch
# (paths and the directory / symlink branches of _copy are C13's; here: what reaches the copier - in particular the
# announced size, which the total check of a non-sparse copy is measured against)
def copy_file_branch(fn):
    def find(block):
        for st_ in block:
            if isinstance(st_, ast.Expr) and any(isinstance(n_, ast.Name) and n_.id == '_SFTPFileCopier'
                                                 for n_ in ast.walk(st_)):
                return block
            for sub in ('body', 'orelse', 'finalbody'):
                r = find(getattr(st_, sub, []) or [])
                if r is not None:
                    return r
        return None
    return find(fn.body)


COPY_PARAMS = {'srcfs': 'obj:FS', 'dstfs': 'obj:FS', 'srcpath': 'bytes', 'dstpath': 'bytes',
               'srcattrs': 'obj:SrcAttrs', 'preserve': 'bool', 'recurse': 'bool', 'follow_symlinks': 'bool',
               'sparse': 'bool', 'block_size': 'int', 'max_requests': 'int',
               'progress_handler': 'opt[opaque:Progress]', 'error_handler': 'any', 'remote_only': 'bool'}
COPY_CLASSES = dict(COPIER_CLASSES, CopyClient={'supports_remote_copy': 'bool'},
                    SrcAttrs={'size': 'opt[int]', 'type': 'int'})


def src_size(c):
    n, v = opt_val(c.oldv('size', c.argv('srcattrs')))
    return n, v


def copy_file_post(c):
    ctor = calls_of(c, '_SFTPFileCopier')
    if len(ctor) != 1 or len(ctor[0]['args']) != 9 or len(calls_of(c, '_SFTPFileCopier().run')) != 1:
        return z3.BoolVal(False)
    a = ctor[0]['args']
    n, v = src_size(c)
    names = ['block_size', 'max_requests', None, 'sparse', 'srcfs', 'dstfs', 'srcpath', 'dstpath', 'progress_handler']
    conj = [c.eq(a[k], c.argv(nm)) for k, nm in enumerate(names) if nm]
    # the announced size is the size the source reported (0 when it reported none)
    conj.append(int_is(a[2], z3.If(n, 0, v)))
    return z3.And(conj)


copy_file = Spec(
    PROP, 'sftp', 'SFTPClient._copy', self_class='CopyClient', classes=COPY_CLASSES, params=COPY_PARAMS,
    cases=[('file-branch', {})], region=copy_file_branch,
    stubs={'_SFTPFileCopier': construct('Copier', lambda: copier_init, 'copier', ghost_zero=COPIER_GHOST),
           '_SFTPFileCopier().run': contract_stub(lambda: copier_run)},
    # block size / window as normalised by _begin_copy (proved there) and handed down unchanged by the recursion;
    # a size attribute is a uint64 on the wire / a stat size locally
    requires=lambda c: z3.And(c.arg('block_size') >= 1, c.arg('max_requests') >= 1,
                              z3.Or(src_size(c)[0], src_size(c)[1] >= 0)),
    ensures=[('copier-gets-the-announced-size-and-the-given-endpoints', copy_file_post)],
    raises={'SFTPOpUnsupported': lambda c: z3.And(c.arg('remote_only'), z3.Not(c.old('supports_remote_copy')),
                                                   z3.BoolVal(len(calls_of(c, '_SFTPFileCopier')) == 0)),
            'SFTPError': True, 'OSError': True})
copy_file.no_replay = True


# ------------------------------------------------------------------ SFTPClient._copy: whole function, non-directory
# Scope: the source is not a directory (requires / the stat stub's answer; directories and names are C13's).
# What is decided here: which attributes announce the size (the ones re-read when a symlink is followed), and that
# a failed transfer is never swallowed (it propagates, or goes to the caller's error_handler exactly once).
FT_DIRECTORY, FT_SYMLINK = 2, 3          # FILEXFER_TYPE_DIRECTORY / FILEXFER_TYPE_SYMLINK


def copy_stat_stub(cx):
    a = cx.fresh('obj:SrcAttrs', 'statattrs')
    t = cx.ex.get_field(cx.st, a, 'type').z
    n, v = opt_val(cx.ex.get_field(cx.st, a, 'size'))
    return [Out(ret=a, assume=[t != FT_DIRECTORY, z3.Or(n, v >= 0)], event=('stat', tuple(cx.args))),
            Out(exc=VExc('SFTPError')), Out(exc=VExc('OSError'))]


copy_stat_stub.modifies = ()


def copy_errors(c):
    """stubbed calls of this path that raised a transfer error which _copy's own handler has to deal with
    (SFTPOpUnsupported of setstat is handled by the inner try: preserving symlink attributes is optional)"""
    return [x for x in c.calls() if x.get('exc') is not None and x['key'] != 'error_handler' and
            not (x['key'] == 'dstfs.setstat' and x['exc'].cls == 'SFTPOpUnsupported')]


def copy_whole_post(c):
    calls = c.calls()
    ctor = [k for k, x in enumerate(calls) if x['key'] == '_SFTPFileCopier']
    errs = copy_errors(c)
    eh = c.truthy(c.argv('error_handler'), c.old_state)
    handled = len(c.events('error_handler'))
    # (_copy's own SFTPOpUnsupported for remote_only without server support goes the same way)
    own = z3.And(z3.BoolVal(not errs and handled == 1 and not ctor), c.arg('remote_only'),
                 z3.Not(c.old('supports_remote_copy')))
    conj = [z3.BoolVal(len(errs) <= 1), z3.Or(z3.BoolVal(handled == len(errs)), own)]
    if errs or handled:
        conj.append(eh)
    if ctor:
        a = calls[ctor[0]]['args']
        restat = [x for x in calls[:ctor[0]] if x['key'] == 'srcfs.stat']
        attrs = restat[0]['ret'] if restat else c.argv('srcattrs')
        n, v = opt_val(c.oldv('size', attrs) if not restat else c.newv('size', attrs))
        at, _ = opt_val(VNone), None
        conj += [z3.BoolVal(len(ctor) == 1 and len(a) == 9), int_is(a[2], z3.If(n, 0, v)),
                 # attributes are re-read exactly when a symlink is followed
                 z3.BoolVal(bool(restat)) == z3.And(c.arg('follow_symlinks'),
                                                    c.old('type', c.argv('srcattrs')) == FT_SYMLINK)]
        names = ['block_size', 'max_requests', None, 'sparse', 'srcfs', 'dstfs', 'srcpath', 'dstpath',
                 'progress_handler']
        conj += [c.eq(a[k], c.argv(nm)) for k, nm in enumerate(names) if nm]
    return z3.And(conj)


def copy_whole_raise(c):
    """an error leaves _copy only if there is no error_handler to take it (or the handler itself raised)"""
    eh = c.truthy(c.argv('error_handler'), c.old_state)
    handler_raised = any(x['key'] == 'error_handler' and x.get('exc') is not None for x in c.calls())
    return z3.Or(z3.Not(eh), z3.BoolVal(handler_raised))


def error_handler_stub(cx):
    return [Out(event=('error_handler', tuple(cx.args))), Out(exc=VExc('SFTPError'))]


error_handler_stub.modifies = ()

copy_whole = Spec(
    PROP, 'sftp', 'SFTPClient._copy', self_class='CopyClient',
    classes=dict(COPY_CLASSES, CopyClient={'supports_remote_copy': 'bool', 'version': 'int'}), params=COPY_PARAMS,
    cases=[('non-directory', {})],
    stubs={'_SFTPFileCopier': construct('Copier', lambda: copier_init, 'copier', ghost_zero=COPIER_GHOST),
           '_SFTPFileCopier().run': contract_stub(lambda: copier_run),
           'srcfs.stat': copy_stat_stub,
           'srcfs.readlink': may_raise(ret('bytes', 'target'), 'SFTPError', 'OSError'),
           'dstfs.symlink': may_raise(noop('symlink'), 'SFTPError', 'OSError'),
           'SFTPAttrs': ret('any', 'newattrs'),
           'dstfs.setstat': may_raise(noop('setstat'), 'SFTPOpUnsupported', 'SFTPError', 'OSError'),
           'setattr': noop('setattr'), 'error_handler': error_handler_stub},
    requires=lambda c: z3.And(c.arg('block_size') >= 1, c.arg('max_requests') >= 1,
                              z3.Or(src_size(c)[0], src_size(c)[1] >= 0),
                              c.old('type', c.argv('srcattrs')) != FT_DIRECTORY),
    ensures=[('announced-size-from-the-followed-attrs-and-errors-never-swallowed', copy_whole_post)],
    raises={'SFTPError': copy_whole_raise, 'OSError': copy_whole_raise})
copy_whole.no_replay = True


# ------------------------------------------------------------------ the remaining small functions on the byte path
def calls_in_order(c, *expected):
    """the stubbed calls of this path are exactly these (key, args...) in this order"""
    calls = c.calls()
    if len(calls) != len(expected):
        return z3.BoolVal(False)
    conj = [z3.BoolVal(True)]
    for x, (key, *args) in zip(calls, expected):
        if x['key'] != key or len(x['args']) != len(args):
            return z3.BoolVal(False)
        conj += [c.eq(a, e) for a, e in zip(x['args'], args)]
    return z3.And(conj)


IOERR2 = ('OSError',)
LF_CLASSES = {'LocalFile': {'_file': 'obj:PyFile'}, 'PyFile': {}}

localfile_read = Spec(
    PROP, 'sftp', 'LocalFile.read', self_class='LocalFile', classes=LF_CLASSES,
    params={'size': 'int', 'offset': 'int'},
    stubs={'self._file.seek': may_raise(ret('int', 'pos'), *IOERR2), 'self._file.read': may_raise(ret('bytes', 'data'), *IOERR2)},
    ensures=[('seeks-to-the-offset-then-reads-size-bytes', lambda c: z3.And(
        calls_in_order(c, ('self._file.seek', c.argv('offset')), ('self._file.read', c.argv('size'))),
        c.eq(c.result_v, c.calls()[-1]['ret'])))],
    raises={'OSError': True})
localfile_read.no_replay = True

localfile_write = Spec(
    PROP, 'sftp', 'LocalFile.write', self_class='LocalFile', classes=LF_CLASSES,
    params={'data': 'bytes', 'offset': 'int'},
    stubs={'self._file.seek': may_raise(ret('int', 'pos'), *IOERR2), 'self._file.write': may_raise(ret('int', 'n'), *IOERR2)},
    ensures=[('seeks-to-the-offset-then-writes-the-data', lambda c: z3.And(
        calls_in_order(c, ('self._file.seek', c.argv('offset')), ('self._file.write', c.argv('data'))),
        c.eq(c.result_v, c.calls()[-1]['ret'])))],
    raises={'OSError': True})
localfile_write.no_replay = True

localfile_ranges = Spec(
    PROP, 'sftp', 'LocalFile.request_ranges', self_class='LocalFile', classes=LF_CLASSES,
    params={'offset': 'int', 'length': 'int'},
    stubs={'_request_ranges': ret('opaque:AsyncIter', 'ranges')},
    ensures=[('ranges-of-its-own-file-for-the-given-window', lambda c: z3.And(
        calls_in_order(c, ('_request_ranges', c.oldv('_file'), c.argv('offset'), c.argv('length'))),
        c.eq(c.result_v, c.calls()[-1]['ret'])))])
localfile_ranges.no_replay = True

SRV_CLASSES = {'SrvImpl': {}, 'PyFile': {}}
server_read = Spec(
    PROP, 'sftp', 'SFTPServer.read', self_class='SrvImpl', classes=SRV_CLASSES,
    params={'file_obj': 'obj:PyFile', 'offset': 'int', 'size': 'int'},
    stubs={'file_obj.seek': may_raise(ret('int', 'pos'), *IOERR2), 'file_obj.read': may_raise(ret('bytes', 'data'), *IOERR2)},
    ensures=[('seeks-to-the-offset-then-reads-size-bytes', lambda c: z3.And(
        calls_in_order(c, ('file_obj.seek', c.argv('offset')), ('file_obj.read', c.argv('size'))),
        c.eq(c.result_v, c.calls()[-1]['ret'])))],
    raises={'OSError': True})
server_read.no_replay = True

server_write = Spec(
    PROP, 'sftp', 'SFTPServer.write', self_class='SrvImpl', classes=SRV_CLASSES,
    params={'file_obj': 'obj:PyFile', 'offset': 'int', 'data': 'bytes'},
    stubs={'file_obj.seek': may_raise(ret('int', 'pos'), *IOERR2), 'file_obj.write': may_raise(ret('int', 'n'), *IOERR2)},
    ensures=[('seeks-to-the-offset-then-writes-the-data', lambda c: z3.And(
        calls_in_order(c, ('file_obj.seek', c.argv('offset')), ('file_obj.write', c.argv('data'))),
        c.eq(c.result_v, c.calls()[-1]['ret'])))],
    raises={'OSError': True})
server_write.no_replay = True

file_end = Spec(
    PROP, 'sftp', 'SFTPClientFile._end', self_class='EFile', classes={'EFile': {}, 'Attrs': {'size': 'opt[int]'}},
    stubs={'self.stat': may_raise(ret('obj:Attrs', 'attrs'), 'SFTPError', 'ValueError')},
    ensures=[('end-is-the-size-the-server-reports-(0-if-none)', lambda c: (lambda n, v: int_is(
        c.result_v, z3.If(n, 0, v)))(*opt_val(c.newv('size', c.calls('self.stat')[0]['ret']))))],
    raises={'SFTPError': True, 'ValueError': True})
file_end.no_replay = True

# ---- copy-data: client side
handler_copy_data = Spec(
    PROP, 'sftp', 'SFTPClientHandler.copy_data', self_class='CHandler3',
    classes={'CHandler3': {'_supports_copy_data': 'bool'}},
    params={'read_from_handle': 'bytes', 'read_from_offset': 'int', 'read_from_length': 'int',
            'write_to_handle': 'bytes', 'write_to_offset': 'int'},
    stubs={'self._make_request': mk_request_stub},
    ensures=[('copy-data-carries-both-handles-offsets-and-the-length', lambda c: z3.And(
        c.old('_supports_copy_data'), request_is_bytes(
            c, b'copy-data', wire_string(c.arg('read_from_handle')), be(z3.IntVal(8), c.arg('read_from_offset')),
            be(z3.IntVal(8), c.arg('read_from_length')), wire_string(c.arg('write_to_handle')),
            be(z3.IntVal(8), c.arg('write_to_offset')))))],
    raises={'OverflowError': lambda c: z3.Not(z3.And(uint_ok(c.arg('read_from_offset'), 8),
                                                     uint_ok(c.arg('read_from_length'), 8),
                                                     uint_ok(c.arg('write_to_offset'), 8))),
            'SFTPOpUnsupported': lambda c: z3.And(z3.Not(c.old('_supports_copy_data')),
                                                  z3.BoolVal(len(c.calls('self._make_request')) == 0)),
            'SFTPError': True})
handler_copy_data.no_replay = True


def request_is_bytes(c, name, *fields):
    calls = c.calls('self._make_request')
    if len(calls) != 1 or len(calls[0]['args']) != len(fields) + 1:
        return z3.BoolVal(False)
    a = calls[0]['args']
    return z3.And([a[0].z == bytes_const(name)] + [x.z == e for x, e in zip(a[1:], fields)])


client_remote_copy = Spec(
    PROP, 'sftp', 'SFTPClient.remote_copy', self_class='RClient',
    classes={'RClient': {'_handler': 'obj:RCHandler'}, 'RCHandler': {}, 'CFile': {'handle': 'bytes'}},
    # analysed for open file objects (the copier's use); path arguments are opened 'rb' / 'wb' first
    params={'src': 'obj:CFile', 'dst': 'obj:CFile', 'src_offset': 'int', 'src_length': 'int', 'dst_offset': 'int'},
    globals={'PurePath': VTag('class:PurePath')},
    stubs={'self._handler.copy_data': may_raise(noop('copy_data'), 'SFTPError', 'OverflowError')},
    ensures=[('copies-from-the-source-handle-to-the-destination-handle-at-the-given-offsets', lambda c: calls_in_order(
        c, ('self._handler.copy_data', c.oldv('handle', c.argv('src')), c.argv('src_offset'), c.argv('src_length'),
            c.oldv('handle', c.argv('dst')), c.argv('dst_offset'))))],
    raises={'SFTPError': True, 'OverflowError': True})
client_remote_copy.no_replay = True

# ---- SFTPClient.open: the append flag decides whether the file object tracks a position
FXF_APPEND_BIT = 4       # SSH_FXF_APPEND


def client_open_post(c):
    made = c.calls('SFTPClientFile')
    op = c.calls('self._handler.open')
    cp = c.calls('self.compose_path')
    if len(made) != 1 or len(op) != 1 or len(cp) != 1 or len(made[0]['args']) != 7 or len(op[0]['args']) != 3:
        return z3.BoolVal(False)
    a, o = made[0]['args'], op[0]['args']
    pflags = c.arg('pflags_or_mode')
    return z3.And(
        c.eq(o[0], cp[0]['ret']), o[1].z == pflags, c.eq(a[1], op[0]['ret']),
        # no file position is tracked exactly for files opened in append mode
        c.truthy(a[2]) == ((pflags / FXF_APPEND_BIT) % 2 == 1),
        c.eq(a[3], c.argv('encoding')), c.eq(a[5], c.argv('block_size')), c.eq(a[6], c.argv('max_requests')))


client_open = Spec(
    PROP, 'sftp', 'SFTPClient.open', self_class='OClient', classes={'OClient': {'_handler': 'obj:OHandler'}, 'OHandler': {}},
    # analysed for numeric pflags (string modes go through _mode_to_pflags first: not covered)
    params={'path': 'bytes', 'pflags_or_mode': 'int', 'attrs': 'any', 'encoding': 'opt[str]', 'errors': 'str',
            'block_size': 'int', 'max_requests': 'int'},
    stubs={'self.compose_path': ret('bytes', 'fullpath'),
           'self._handler.open': may_raise(ret('bytes', 'handle'), 'SFTPError'),
           'SFTPClientFile': ret('opaque:ClientFile', 'fileobj')},
    requires=lambda c: c.arg('pflags_or_mode') >= 0,
    ensures=[('opens-the-path-and-tracks-a-position-unless-appending', client_open_post)],
    raises={'SFTPError': True})
client_open.no_replay = True


# ---- copy-data: server side (the whole data movement of a remote copy on one server)
CD_CLASSES = {'SHandlerCD': {'_version': 'int', '_file_handles': 'dict[bytes,obj:SrvFile]', '_server': 'obj:Server',
                             'ghost_started': 'bool', 'ghost_next_r': 'int', 'ghost_rd_off': 'int',
                             'ghost_rd_data': 'bytes'},
              'SrvFile': {}, 'Server': {}, 'Pkt': {}}
CD_PKT = dict(PKT_STUBS, **{'packet.get_uint64': ret('int', 'u64_field', assume=lambda cx, v: v.z >= 0)})


CD_BLOCK = z3.Int('c12_copy_data_block_size')


def cd_fields(st):
    """(read handle, r0, L0, write handle, w0) as decoded from the request"""
    strs = [x for x in st.calls if x['key'] == 'packet.get_string']
    u64 = [x for x in st.calls if x['key'] == 'packet.get_uint64']
    return strs[0]['ret'].z, u64[0]['ret'].z, u64[1]['ret'].z, strs[1]['ret'].z, u64[2]['ret'].z


def cd_file(cx, handle_z):
    return cx.ex.map_value(cx.st, cx.selff('_file_handles'), handle_z)


def cd_read_stub(cx):
    """SFTPServer.read(src, offset, size) inside copy-data: from the source handle's file, each read starting
    where the previous one ended (the first at the requested offset); returns at most size bytes"""
    a = cx.args
    rh, r0, _l0, _wh, _w0 = cd_fields(cx.st)
    nxt = z3.If(cx.selff('ghost_started').z, cx.selff('ghost_next_r').z, r0)
    cx.require('reads-the-source-handle-contiguously', z3.And(cx.ex.veq(cx.st, a[0], cd_file(cx, rh)), a[1].z == nxt))
    d = cx.fresh('bytes', 'chunk')
    me = cx.ex.self_ref
    return [Out(ret=d, assume=[z3.Length(d.z) <= a[2].z],
                osets=[(me, 'ghost_started', VBool(True)), (me, 'ghost_rd_off', a[1]), (me, 'ghost_rd_data', d),
                       (me, 'ghost_next_r', VInt(a[1].z + z3.Length(d.z)))]),
            Out(exc=VExc('OSError')), Out(exc=VExc('SFTPError'))]


cd_read_stub.modifies = ('ghost_started', 'ghost_rd_off', 'ghost_rd_data', 'ghost_next_r')


def cd_write_stub(cx):
    """SFTPServer.write(dst, offset, data) inside copy-data: the chunk just read, to the destination handle's file, at
    the same distance from the requested write offset as the chunk is from the requested read offset"""
    a = cx.args
    _rh, r0, _l0, wh, w0 = cd_fields(cx.st)
    cx.require('writes-the-chunk-just-read-to-the-destination-handle-at-the-matching-offset', z3.And(
        cx.selff('ghost_started').z, cx.ex.veq(cx.st, a[0], cd_file(cx, wh)),
        a[1].z - w0 == cx.selff('ghost_rd_off').z - r0, a[2].z == cx.selff('ghost_rd_data').z))
    return [Out(ret=cx.fresh('int', 'written')), Out(exc=VExc('OSError')), Out(exc=VExc('SFTPError'))]


cd_write_stub.modifies = ()


def cd_inv(c):
    f = c.new
    _rh, r0, l0, _wh, w0 = cd_fields(c.new_state)
    ro, wo, rl, te = c.local('read_from_offset'), c.local('write_to_offset'), c.local('read_from_length'), \
        c.local('read_to_end')
    return z3.And(wo - w0 == ro - r0, ro >= r0, te == (l0 == 0),
                  ro == z3.If(f('ghost_started'), f('ghost_next_r'), r0),
                  z3.Implies(z3.Not(te), z3.And(rl == l0 - (ro - r0), rl >= 0)))


process_copy_data = Spec(
    PROP, 'sftp', 'SFTPServerHandler._process_copy_data', self_class='SHandlerCD', classes=CD_CLASSES,
    params={'packet': 'obj:Pkt'},
    stubs=dict(CD_PKT, **{'self._server.read': cd_read_stub, 'self._server.write': cd_write_stub}),
    loops={1: LoopSpec(header='read_to_end or read_from_length', invariant=cd_inv)},
    # proved for every positive block size (the module constant 256 KiB is one instance; a symbolic size also keeps
    # the solver from building quarter-megabyte sequence models)
    globals={'_COPY_DATA_BLOCK_SIZE': VInt(CD_BLOCK)},
    requires=lambda c: z3.And(z3.Not(c.old('ghost_started')), CD_BLOCK >= 1),
    ensures=[('request-decoded-once', lambda c: z3.BoolVal(len(c.calls('packet.get_string')) == 2 and
                                                            len(c.calls('packet.get_uint64')) == 3))],
    raises={'SFTPInvalidHandle': lambda c: z3.BoolVal(len(c.calls('self._server.read')) == 0),
            'SFTPBadMessage': True, 'SFTPError': True, 'OSError': True})
process_copy_data.no_replay = True
