"""Shared heap shapes, inlines and stubs for the sidecars (only the fields contracts need are declared)."""
import z3
from pyvc.contracts import *
from pyvc.engine import LoopSpec, Out
from pyvc.values import *

# ---- packet.py: SSHPacket is executed from its real source (inlined), never stubbed
PACKET_CLASSES = {'SSHPacket': {'_packet': 'bytes', '_idx': 'int', '_len': 'int'}}
PACKET_INLINE = {
    'SSHPacket.__init__': ('packet', 'SSHPacket.__init__'),
    'SSHPacket.get_bytes': ('packet', 'SSHPacket.get_bytes'),
    'SSHPacket.get_byte': ('packet', 'SSHPacket.get_byte'),
    'SSHPacket.get_boolean': ('packet', 'SSHPacket.get_boolean'),
    'SSHPacket.get_uint16': ('packet', 'SSHPacket.get_uint16'),
    'SSHPacket.get_uint32': ('packet', 'SSHPacket.get_uint32'),
    'SSHPacket.get_uint64': ('packet', 'SSHPacket.get_uint64'),
    'SSHPacket.get_string': ('packet', 'SSHPacket.get_string'),
    'SSHPacket.check_end': ('packet', 'SSHPacket.check_end'),
    'SSHPacket.get_consumed_payload': ('packet', 'SSHPacket.get_consumed_payload'),
    'SSHPacket.get_remaining_payload': ('packet', 'SSHPacket.get_remaining_payload'),
    'SSHPacket.get_full_payload': ('packet', 'SSHPacket.get_full_payload'),
}


def packet_truthy(ex, st, ref):
    r = st.rec(ref)
    return r.fields['_idx'].z != r.fields['_len'].z


def packet_wf(c, p):
    """well-formedness of an SSHPacket object (its representation invariant)"""
    st = c.new_state
    r = st.rec(p)
    return z3.And(r.fields['_idx'].z >= 0, r.fields['_idx'].z <= r.fields['_len'].z,
                  r.fields['_len'].z == z3.Length(r.fields['_packet'].z))


PACKET_TRUTHY = {'SSHPacket': packet_truthy}

# ---- connection.py
CONN_FIELDS = {
    '_is_client': 'bool',            # ghost: what is_client() returns (class constant per subclass)
    '_inpbuf': 'bytes', '_packet': 'bytes', '_pktlen': 'int',
    '_recv_blocksize': 'int', '_recv_macsize': 'int', '_recv_seq': 'int',
    '_recv_encryption': 'opt[obj:Encryption]', '_next_recv_encryption': 'opt[obj:Encryption]',
    '_decompressor': 'opt[obj:Decompressor]', '_decompress_after_auth': 'bool',
    '_auth_complete': 'bool', '_auth_final': 'bool', '_auth_in_progress': 'bool',
    '_kex': 'opt[obj:Kex]', '_ignore_first_kex': 'bool', '_strict_kex': 'bool',
    '_auth': 'opt[obj:Auth]', '_channels': 'dict[int,obj:Channel]',
    '_recv_handler': 'tag', '_transport': 'opt[opaque:Transport]',
    '_kex_complete': 'bool', '_kexinit_sent': 'bool',
    '_send_seq': 'int', '_send_encryption': 'opt[obj:Encryption]', '_send_blocksize': 'int',
    '_send_enchdrlen': 'int', '_compressor': 'opt[obj:Compressor]', '_compress_after_auth': 'bool',
    '_rekey_bytes': 'int', '_rekey_bytes_sent': 'int', '_rekey_seconds': 'int', '_rekey_time': 'int',
    '_deferred_packets': 'seq[tuple[int,seq[bytes]]]',
}
CONN_CLASSES = {
    'SSHConnection': CONN_FIELDS,
    'Encryption': {}, 'Decompressor': {}, 'Compressor': {}, 'Kex': {}, 'Auth': {}, 'Channel': {}, 'Task': {},
}
CONN_INLINE = {
    'self.is_client': None,   # replaced by stub below (is_client is a one-line override per subclass)
}


def is_client_stub(cx):
    return cx.selff('_is_client')


def is_server_stub(cx):
    return VBool(z3.Not(cx.selff('_is_client').z))


ROLE_STUBS = {'self.is_client': is_client_stub, 'self.is_server': is_server_stub}
for _s in ROLE_STUBS.values():
    _s.modifies = ()

# ---- channel.py
CHUNK = 'tuple[bytearray,opt[int]]'        # (data, datatype) entries of _send_buf
RCHUNK = 'tuple[bytes,opt[int]]'           # entries of _recv_buf
CHAN_FIELDS = {
    '_send_buf': 'seq[' + CHUNK + ']', '_send_buf_len': 'int', '_send_window': 'int', '_send_pktsize': 'int',
    '_send_state': 'str', '_send_paused': 'bool', '_send_high_water': 'int', '_send_low_water': 'int',
    '_send_chan': 'opt[int]', '_recv_chan': 'opt[int]',
    '_recv_buf': 'seq[' + RCHUNK + ']', '_recv_window': 'int', '_init_recv_window': 'int',
    '_recv_pktsize': 'int', '_recv_state': 'str', '_recv_paused': 'any',
    '_encoding': 'opt[str]', '_session': 'opt[obj:Session]', '_decoder': 'opt[obj:Decoder]',
    '_conn': 'opt[obj:Conn]', '_read_datatypes': 'opaque:IntSet',
    # ghost state (verification only)
    'ghost_emitted': 'seq[' + RCHUNK + ']',     # (data, datatype) of every DATA/EXTENDED_DATA packet sent
    'ghost_delivered': 'seq[' + RCHUNK + ']',   # every chunk handed to _deliver_data
    'ghost_credit': 'int',                      # window advertised to the peer minus bytes accepted
}
CHAN_CLASSES = {'SSHChannel': CHAN_FIELDS, 'Session': {}, 'Decoder': {}, 'Conn': {}}
