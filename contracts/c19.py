"""C19 - stream and process APIs deliver what was sent, split as asked.  Sidecar contracts.

Receive side of SSHStreamSession for one (arbitrary, symbolic) datatype k.  The buffer self._recv_buf[k] is a list
of chunks (data or exception marker, type orexc[bytes]).  specs/recvbuf.py: flat / units / dlen / ok / cat.

Awaits are cut points.  What the rest of the program may do while a reader is suspended (the rely condition) is the
stub `env_step`: append chunks (non-empty data or exception markers) at the TAIL of any buffer, set EOF, pause/resume
reading, lose the connection - but never remove anything from the buffer of the datatype whose read lock is held.
Acquiring the read lock is a different cut point (`lock_step`): the previous lock holder may also have consumed
from the head.  From then on ghost_base ++ ghost_app is the unit stream offered to this call.
"""
import z3
from pyvc.contracts import *
from pyvc.engine import LoopSpec, Out, Prove
from pyvc.values import *
from specs import recvbuf as R

PROP = 'C19'

# Developer switch, used by no registered command: generate the clause "a cancelled read consumes nothing" for
# SSHStreamSession.read (see NOTES).  Cancellation is outside C19's quantifier, so the clause is not part of the check.
CHECK_CANCELLED_READ = False

NOTES = [
    'OBSERVATION outside the claim (cancellation is not in C19\'s quantifier: data streams, chunkings, separators, n, '
    'wire orderings, redirection targets): a read cancelled while it waits for more data - e.g. '
    'asyncio.wait_for(reader.readexactly(n), t) timing out - drops the chunks it had already moved out of the receive '
    'buffer; the next read continues after them.  Native repro: notes/findings/c19_cancelled_read_loses_data.py; a '
    'patch that puts the chunks back is in notes/findings/c19_proposed_fixes_round2.diff (checked natively only).  '
    'CancelledError therefore has no clause on read/readuntil/readline/drain; set CHECK_CANCELLED_READ = True in '
    'contracts/c19.py to see the failing obligation read#post-raise(CancelledError).',
    'SSHClientProcess.communicate (hence wait()/run()) is under contract for its prefix: after `_limit = 0` the '
    'flow-control invariant must hold with the lifted limit when the call suspends in wait_closed(), i.e. reading is '
    'resumed if only the old limit had paused it; wait_closed / collect_output are stubs (environment step / two '
    'fresh strings), the exit-status ordering behind them is C07 + _flush_recv_buf (re-generated here).',
    'FIXED defects found by this sidecar: 12d9355 (collect_output releases the byte count), ab0120d (no empty chunk '
    'buffered: \'\' from a split multi-byte character made read() return \'\' without EOF), 99b1b3e (readuntil resumes '
    'reading after consuming data ahead of a marker), 7a31306 (collect_output empties the list in place: mixing it '
    'with a stream reader delivered data twice).  Repros: notes/findings/c19_*.py',
]

ASSUMPTIONS = [
    'AnyStr is instantiated at bytes (self._encoding is None); the str instantiation runs the same statements over '
    'str with the same sequence algebra (it is exercised only by the bounded native stand-in)',
    'rely condition at every await inside read/readuntil (read lock held): the environment appends only at the tail '
    'of the locked buffer and keeps the list object (guarantees of data_received / connection_lost / '
    'exception_received, proved here), EOF and connection-lost flags are monotone, _limit is not changed; everything '
    'else it may change is havocked.  That the list object is kept is PROVED for every writer under contract, '
    'including SSHClientProcess._collect_output (clause buffer-list-object-is-kept, after fix 7a31306; feed_recv_buf '
    'empties with list.clear()).  API-USAGE ASSUMPTION that remains: SSHProcess.feed_recv_buf (setting up a '
    'redirection) and SSHClientProcess.collect_output() take data from the head WITHOUT the read lock, so the '
    '"append only" part of the rely excludes them running while a reader of the same datatype is suspended (whoever '
    'comes first gets the data; the conservation clauses of read/readuntil are not claimed for that mix)',
    'progress is proved only in the form "a reader suspends only when no result can be produced from its buffer, not '
    'after EOF and (readuntil) not while the channel is paused"; that the environment eventually delivers data or EOF '
    'is not decided',
    'flat/units/dlen/ok/cat are uninterpreted; only instances of their recursive definitions (empty, cons, '
    'append homomorphism) are assumed',
    'exception markers in the buffer are instances of Exception (type annotation of connection_lost / '
    'exception_received)',
    'a dict is iterated as a duplicate-free sequence of exactly its keys; a set of futures as a sequence',
    'stubs resume_stub / await_stub / block_stub used inside read, readuntil, feed_recv_buf, _collect_output are the '
    'constructive forms of the contracts PROVED for _maybe_resume_reading (Spec maybe_resume) and _block_read (Spec '
    'block_read); chan.resume_reading() may synchronously deliver buffered packets, so it is an environment step; '
    'unblock_drain_stub is the contract proved for _unblock_drain (Spec unblock_drain)',
    'class invariants assumed after a suspension (accounting, no empty chunk, flow-control invariant J) are proved on '
    'the writers covered here: data_received, connection_lost, eof_received (flag only), exception_received, read, '
    'readuntil, readline, SSHProcess.data_received, SSHProcess.feed_recv_buf, SSHClientProcess._collect_output.  '
    'NOT covered: connection_made (initial state), SSHTunTapStreamSession.read (packet-preserving override), '
    'SSHProcess.eof_received / connection_lost (iterate the redirection tables), pause_feeding / resume_feeding '
    '(J is assumed, not proved, across them)',
    '_should_pause_reading() is dispatched dynamically; SSHProcess ors in bool(_paused_write_streams), modelled by '
    'the ghost flag ghost_pws and not verified against process.py.  _should_block_drain() likewise: both versions '
    '(SSHStreamSession, SSHProcess: or a redirection source feeds the datatype) are proved; a plain stream session is '
    'taken to have no redirection sources',
    'SSHClientProcess._collect_output requires "at most one exception marker, and only as the last element" (markers '
    'reach a client process only through connection_lost(), after which nothing is appended; exception_received is a '
    'server-session method): a class fact NOT proved on the writers; if it is false the code raises TypeError in sum()',
    'redirection targets (writer stubs): write() may push back synchronously (pause_feeding) or fail with OSError; '
    'on a failing write feed_recv_buf has already released the byte count of the chunks copied so far while they stay '
    'buffered - accounting is NOT re-established on that path (declared, clause states only the prefix copied); '
    'write_exception / write_eof are taken not to re-enter the session',
    'cancellation is outside the claim: CancelledError has no clause (a cancelled read loses what it had already '
    'taken out of the buffer - see NOTES)',
    'a compiled Pattern WITHOUT max_separator_len is under contract as an abstract pattern (Spec readuntil_pattern0: '
    'conservation, accounting, blocking, and "with unknown separator length every search restarts from the beginning '
    'of the unreturned data"; occ(b, pattern, j) is then an uninterpreted "matches at j", first-match clauses are not '
    'stated for it).  Otherwise '
    'regex separators (compiled Pattern + max_separator_len) and lists of separators are delegated to `re`: they are '
    'exercised natively over all chunkings of all streams of <= 5 (thorough: 6) units (bounded stand-in, not a proof; '
    'a crash or hang of a case is a violation, a harness failure makes the check undecided); literal separators and '
    'the newline sentinel are proved',
    '"complete output comes with the exit status" (ordering of data, EOF, exit-status and close across channel and '
    'process; communicate()/wait()) and redirections to OS-level targets are NOT decided here: only the pieces '
    'listed as functions under contract are',
]

KT = 'opt[int]'
STREAM = {
    '_chan': 'opt[obj:Chan]', '_loop': 'opt[opaque:Loop]', '_limit': 'int', '_encoding': 'opt[str]',
    '_exception': 'opt[opaque:Exc]', '_eof_received': 'bool', '_connection_lost': 'bool',
    '_read_paused': 'bool', '_write_paused': 'bool', '_recv_buf_len': 'int',
    '_recv_buf': f'dict[{KT},seq[orexc[bytes]]]',
    '_read_locks': f'dict[{KT},opaque:Lock]',
    '_read_waiters': f'dict[{KT},opt[opaque:Future]]',
    '_drain_waiters': f'dict[{KT},seq[opaque:Future]]',     # (a set of futures; only iterated / add / remove)
    '_readers': f'dict[{KT},opaque:Reader]',                # SSHProcess only: redirection sources per datatype
    # ghost (verification only)
    'ghost_base': 'seq[opaque:RbUnit]',        # unit stream buffered for datatype k when the read lock was acquired
    'ghost_app': 'seq[opaque:RbUnit]',         # unit stream appended for k by the environment since then
    'ghost_other': 'int',                      # _recv_buf_len minus the data bytes buffered for datatype k
}
CLASSES = {'SSHStreamSession': STREAM, 'Chan': {}}


# ------------------------------------------------------------------ drain
def should_block(c, new=True):
    f = c.new if new else c.old
    return z3.And(f('_write_paused'), z3.Not(f('_connection_lost')))


def has_reader(c, new=True, arg='datatype'):
    m = c.newv('_readers') if new else c.oldv('_readers')
    return z3.Select(m.dom, to_z3(c.argv(arg), KT))


should_block_drain = Spec(
    PROP, 'stream', 'SSHStreamSession._should_block_drain', self_class='SSHStreamSession',
    params=dict(datatype=KT), classes=CLASSES, returns='bool', modifies=[],
    ensures=[('blocks-iff-paused-and-connected', lambda c: c.result == should_block(c))])

# SSHProcess overrides it: a redirection source feeding this datatype also blocks drain()
process_should_block_drain = Spec(
    PROP, 'process', 'SSHProcess._should_block_drain', self_class='SSHStreamSession',
    params=dict(datatype=KT), classes=CLASSES, returns='bool', modifies=[],
    stubs={'super()._should_block_drain': contract_stub(lambda: should_block_drain)},
    ensures=[('blocks-iff-redirected-or-paused-and-connected',
              lambda c: c.result == z3.Or(has_reader(c, False), should_block(c)))])


def should_block_z(st_field, dtz):
    return z3.Or(z3.Select(st_field('_readers').dom, dtz),
                 z3.And(st_field('_write_paused').z, z3.Not(st_field('_connection_lost').z)))


def should_block_dyn_stub(cx):
    """self._should_block_drain(datatype), dispatched dynamically: SSHStreamSession's version (no redirection sources:
    _readers has no keys there) or SSHProcess's override - both proved above"""
    return VBool(should_block_z(cx.selff, kz_of(cx.args[0])))


should_block_dyn_stub.modifies = ()


def drain_env_stub(cx):
    """`await waiter` in drain: anything may happen to the writer-side flags; connection loss is permanent and
    the stored exception is the one connection_lost() recorded.  The await itself may be cancelled."""
    was_lost = cx.selff('_connection_lost').z
    lost = cx.fresh('bool', 'env_connection_lost')
    o = Out(ret=VNone, sets={'_write_paused': cx.fresh('bool', 'env_write_paused'), '_connection_lost': lost,
                             '_exception': cx.fresh('opt[opaque:Exc]', 'env_exception'),
                             '_readers': cx.fresh(f'dict[{KT},opaque:Reader]', 'env_readers')},
            assume=[z3.Implies(was_lost, lost.z)], event=('await', ()))
    return [o, Out(exc=VExc('CancelledError'), event=('await', ()))]


drain_env_stub.modifies = ('_write_paused', '_connection_lost', '_exception', '_readers')


def waiter_set_stub(name):
    def stub(cx):
        return [Out(ret=VNone, event=(name, tuple(cx.args)))]
    stub.modifies = ()
    return stub


def balanced(c):
    """every waiter registered by this call has been unregistered when the call is over"""
    adds, rems = c.events('add'), c.events('remove')
    if len(adds) != len(rems):
        return z3.BoolVal(False)
    return z3.And([a[1][0].z == r[1][0].z for a, r in zip(adds, rems)] + [z3.BoolVal(True)])


def stream_wf(c):
    """facts established by connection_made()"""
    return z3.And(z3.Not(c.is_none(c.oldv('_loop'))), c.is_none(c.oldv('_encoding')))


def has_key(c, field, arg='datatype'):
    m = c.oldv(field)
    return z3.Select(m.dom, to_z3(c.argv(arg), KT))


drain = Spec(
    PROP, 'stream', 'SSHStreamSession.drain', self_class='SSHStreamSession',
    params=dict(datatype=KT), classes=CLASSES,
    stubs={'self._should_block_drain': should_block_dyn_stub,
           'self._loop.create_future': ret('opaque:Future', 'waiter'),
           'self._drain_waiters[].add': waiter_set_stub('add'),
           'self._drain_waiters[].remove': waiter_set_stub('remove'),
           'await waiter': drain_env_stub},
    loops={1: LoopSpec(header='self._should_block_drain(datatype)',
                       invariant=lambda c: z3.And(z3.BoolVal(len(c.events('add')) == len(c.events('remove'))),
                                                  balanced(c)))},
    requires=lambda c: z3.And(stream_wf(c), has_key(c, '_drain_waiters')),
    ensures=[
        # "drain returns only when more can be written": the blocking condition was re-checked after the last wake-up
        ('returns-only-when-writable', lambda c: z3.Not(c.new('_write_paused'))),
        ('returns-only-when-no-redirection-feeds-this-datatype', lambda c: z3.Not(has_reader(c))),
        ('not-after-connection-error', lambda c: z3.Implies(c.new('_connection_lost'),
                                                            c.is_none(c.newv('_exception')))),
    ],
    always=[('waiters-unregistered', balanced)],
    raises={
        # "... or fails if the channel is gone"
        'BrokenPipeError': lambda c: z3.And(c.new('_connection_lost'), c.new('_write_paused'),
                                            c.is_none(c.newv('_exception'))),
        'CancelledError': True,
        'Exception': lambda c: z3.And(c.new('_connection_lost'), z3.Not(c.is_none(c.newv('_exception'))),
                                      z3.BoolVal('opaque' in c.result_v.attrs) if c.result_v is not None else False,
                                      c.result_v.attrs['opaque'].z == c.newv('_exception').val.z
                                      if c.result_v is not None and 'opaque' in c.result_v.attrs else False),
    })


# ================================================================== receive side
STREAM['ghost_key'] = KT                        # the datatype k this verification view is about
STREAM['ghost_last'] = 'seq[orexc[bytes]]'      # chunks appended for k by the last environment step
STREAM['ghost_pws'] = 'bool'                    # SSHProcess only: bool(self._paused_write_streams); False otherwise
CLASSES['SSHStreamSession'] = STREAM
ENV_FIELDS = ['_recv_buf', '_recv_buf_len', '_eof_received', '_read_paused', '_connection_lost', '_exception',
              '_write_paused', 'ghost_other', 'ghost_app', 'ghost_last', 'ghost_pws']


def should_pause_z(limit, buflen, pws):
    """_should_pause_reading(): bool(_limit) and _recv_buf_len >= _limit; SSHProcess adds `or a redirect target is
    paused` (ghost_pws)"""
    return z3.Or(pws, z3.And(limit != 0, buflen >= limit))


def should_pause(c, new=True):
    f = c.new if new else c.old
    return should_pause_z(f('_limit'), f('_recv_buf_len'), f('ghost_pws'))


def flow_inv(c, new=True):
    """J: reading is paused only while _should_pause_reading() holds.  It holds whenever control is outside the
    session's methods (at every await and at every return): this is what "the window is replenished as long as the
    application keeps reading" needs from this class."""
    f = c.new if new else c.old
    return z3.Implies(f('_read_paused'), should_pause(c, new))


def flow_inv_cx(cx):
    return z3.Implies(cx.selff('_read_paused').z,
                      should_pause_z(cx.selff('_limit').z, cx.selff('_recv_buf_len').z, cx.selff('ghost_pws').z))



def kz_of(v):
    return to_z3(v, KT)


def key(c, new=False):
    """the view key k; syntactically the function's own `datatype` parameter when it has one (the contracts
    require ghost_key == datatype), so that select/store terms over the buffer map simplify"""
    env = (getattr(c.ex, 'entry_state', None) or c.old_state).env
    if 'datatype' in env and not c.args:
        return kz_of(env['datatype'])
    return kz_of(c.newv('ghost_key') if new else c.oldv('ghost_key'))


def view_is(c, arg='datatype'):
    return kz_of(c.oldv('ghost_key')) == kz_of(c.argv(arg))


def stub_key(cx):
    env = (getattr(cx.ex, 'entry_state', None) or cx.st).env
    if 'datatype' in env:
        return kz_of(env['datatype'])
    return kz_of(cx.selff('ghost_key'))


def buf(c, new=True, k=None):
    m = c.newv('_recv_buf') if new else c.oldv('_recv_buf')
    return z3.Select(m.val, key(c) if k is None else k)


def offered(c):
    """the unit stream offered to the current reader: buffered at lock acquisition ++ appended since"""
    return z3.Concat(c.new('ghost_base'), c.new('ghost_app'))


def accounted(c, new=True):
    f = c.new if new else c.old
    return f('_recv_buf_len') == R.dlen(buf(c, new)) + f('ghost_other')


def wf(c):
    """established by connection_made(): loop and channel set, every per-datatype table has the key"""
    kz = key(c)
    return z3.And(z3.Not(c.is_none(c.oldv('_loop'))), z3.Not(c.is_none(c.oldv('_chan'))),
                  c.is_none(c.oldv('_encoding')),
                  z3.Select(c.oldv('_recv_buf').dom, kz), z3.Select(c.oldv('_read_locks').dom, kz),
                  z3.Select(c.oldv('_read_waiters').dom, kz), c.old('_limit') >= 0)


def rely(c):
    """old -> new across a suspension of a reader that holds the read lock of datatype k"""
    B0, B1 = buf(c, False), buf(c, True)
    last = c.new('ghost_last')
    m0, m1 = c.oldv('_recv_buf'), c.newv('_recv_buf')
    return z3.And(B1 == z3.Concat(B0, last), R.ok(last), m1.dom == m0.dom,
                  c.new('ghost_app') == z3.Concat(c.old('ghost_app'), R.flat(last)),
                  accounted(c, True),
                  z3.Implies(c.old('_eof_received'), c.new('_eof_received')),
                  z3.Implies(c.old('_connection_lost'), c.new('_connection_lost')), flow_inv(c))


def unchanged(c, fields):
    conj = []
    for f in fields:
        a, b = c.oldv(f), c.newv(f)
        if isinstance(a, VMap):
            conj.append(z3.And(a.dom == b.dom, a.val == b.val))
        else:
            conj.append(c.ex.veq(c.new_state, a, b))
    return z3.And(*conj)


def env_step(cx):
    """Stub of a suspension point (`await waiter`) / a synchronous call-out into the channel (resume_reading()
    delivers buffered packets through data_received / eof_received): the rely condition, constructively."""
    ex, st = cx.ex, cx.st
    kz = stub_key(cx)
    m = cx.selff('_recv_buf')
    B0 = z3.Select(m.val, kz)
    last = cx.fresh('seq[orexc[bytes]]', 'env_appended')
    rest = z3.Const(fresh_name('env_recv_buf'), m.val.sort())
    B1 = z3.Concat(B0, last.z)
    other = cx.fresh('int', 'env_other')
    eof, lost = cx.fresh('bool', 'env_eof'), cx.fresh('bool', 'env_lost')
    paused, pws = cx.fresh('bool', 'env_read_paused'), cx.fresh('bool', 'env_pws')
    # guarantee: control leaves the session's methods only with the flow-control invariant established
    cx.require('flow-control-invariant', flow_inv_cx(cx))
    sets = {'_recv_buf': VMap(m.dom, z3.Store(rest, kz, B1), m.kt, m.vt),
            '_recv_buf_len': VInt(R.dlen(B1) + other.z), 'ghost_other': other,
            'ghost_app': VSeq(z3.Concat(cx.selff('ghost_app').z, R.flat(last.z)), 'opaque:RbUnit'),
            'ghost_last': last, '_eof_received': eof, '_connection_lost': lost,
            '_read_paused': paused, 'ghost_pws': pws, '_write_paused': cx.fresh('bool', 'env_wp'),
            '_exception': cx.fresh('opt[opaque:Exc]', 'env_exception')}
    assume = [R.ok(last.z), z3.Implies(cx.selff('_eof_received').z, eof.z),
              z3.Implies(cx.selff('_connection_lost').z, lost.z),
              z3.Implies(paused.z, should_pause_z(cx.selff('_limit').z, R.dlen(B1) + other.z, pws.z))]
    # the receiver of the stubbed call may be the channel: the effects are on the session (self)
    return [Out(ret=VNone, osets=[(ex.self_ref, f, v) for f, v in sets.items()], assume=assume, event=('env', ()))]


env_step.modifies = tuple(ENV_FIELDS)


def await_stub(cx):
    return env_step(cx) + [Out(exc=VExc('CancelledError'))]


await_stub.modifies = tuple(ENV_FIELDS)


def block_stub(kind):
    """`await self._block_read(datatype)` as used by read / readuntil: the environment step, PLUS the condition under
    which a reader may suspend at all (progress: nobody wakes a reader after EOF, and nobody resumes a paused channel
    while the only reader sleeps, so suspending then means never returning).  A reader may block only when no result
    can be produced from what is buffered."""
    def stub(cx):
        env = cx.st.env
        kz = stub_key(cx)
        B = z3.Select(cx.selff('_recv_buf').val, kz)
        cx.require('blocks-only-before-eof', z3.Not(cx.selff('_eof_received').z))
        if kind == 'read':
            d = cx.ex.deref(cx.st, env['data'])
            nd = z3.IntVal(len(d.items)) if isinstance(d, VList) else z3.Length(d.z)
            n, exact, br = env['n'].z, cx.ex.truthy(cx.st, env['exact']), cx.ex.truthy(cx.st, env['break_read'])
            cx.require('blocks-only-when-nothing-is-buffered-for-this-datatype', z3.Length(B) == 0)
            cx.require('blocks-only-when-no-result-can-be-returned-yet',
                       z3.And(n != 0, z3.Not(z3.And(n > 0, nd > 0, z3.Not(exact))), z3.Not(br)))
        else:
            # readuntil: everything buffered has been scanned without a match, and the channel is not paused
            # (a paused channel means the buffer is full: more data can never arrive - give up instead)
            cx.require('blocks-only-while-the-channel-is-not-paused', z3.Not(cx.selff('_read_paused').z))
            cx.require('blocks-only-after-scanning-everything-buffered', env['curbuf'].z == z3.Length(B))
        return await_stub(cx)
    stub.modifies = tuple(ENV_FIELDS)
    return stub


def lock_step(cx):
    """`async with self._read_locks[k]`: waiting for the lock is a suspension during which the previous holder may
    also have consumed from the head of the buffer.  What is buffered on acquisition is the base of the stream
    offered to this call; the class invariants (accounting, no empty chunk) hold."""
    kz = stub_key(cx)
    m = cx.selff('_recv_buf')
    newval = z3.Const(fresh_name('locked_recv_buf'), m.val.sort())
    B = z3.Select(newval, kz)
    other = cx.fresh('int', 'locked_other')
    eof, lost = cx.fresh('bool', 'locked_eof'), cx.fresh('bool', 'locked_lost')
    paused, pws = cx.fresh('bool', 'locked_read_paused'), cx.fresh('bool', 'locked_pws')
    cx.require('flow-control-invariant', flow_inv_cx(cx))
    sets = {'_recv_buf': VMap(m.dom, newval, m.kt, m.vt), '_recv_buf_len': VInt(R.dlen(B) + other.z),
            'ghost_other': other, 'ghost_base': VSeq(R.flat(B), 'opaque:RbUnit'),
            'ghost_app': VSeq(z3.Empty(R.US), 'opaque:RbUnit'),
            '_eof_received': eof, '_connection_lost': lost,
            '_read_paused': paused, 'ghost_pws': pws, '_write_paused': cx.fresh('bool', 'locked_wp'),
            '_exception': cx.fresh('opt[opaque:Exc]', 'locked_exception')}
    assume = [R.ok(B), z3.Implies(cx.selff('_eof_received').z, eof.z),
              z3.Implies(cx.selff('_connection_lost').z, lost.z),
              z3.Implies(paused.z, should_pause_z(cx.selff('_limit').z, R.dlen(B) + other.z, pws.z))]
    return [Out(ret=VNone, sets=sets, assume=assume, event=('acquire', ())), Out(exc=VExc('CancelledError'))]


lock_step.modifies = tuple(ENV_FIELDS) + ('ghost_base',)


# ---- instantiation of the spec-function definitions at the terms of a path ("E-matching by hand")
def _subterms(roots):
    seen, out, stack = set(), [], list(roots)
    while stack:
        x = stack.pop()
        i = x.get_id()
        if i in seen:
            continue
        seen.add(i)
        out.append(x)
        if z3.is_quantifier(x):
            continue
        if z3.is_app(x):
            stack.extend(x.children())
    return out


def _state_terms(st, ex):
    roots = list(st.pc)
    for v in list(st.env.values()) + list(st.rec(ex.self_ref).fields.values()):
        v = ex.deref(st, v) if isinstance(v, VRef) else v
        if hasattr(v, 'z'):
            roots.append(v.z)
        elif isinstance(v, VMap):
            roots.append(v.val)
    return roots


def auto_lemmas(c, extra=()):
    """Definitional instances of flat/dlen/ok/units/cat for the list and byte terms occurring on this path; the
    only non-definitional facts (a slice pair re-assembles its base) are returned as Prove obligations."""
    st = c.new_state
    terms = _subterms(_state_terms(st, c.ex) + list(extra))
    out, done = [R.ax_empty()], set()

    def once(tag, *ts):
        k = (tag,) + tuple(t.get_id() for t in ts)
        if k in done:
            return False
        done.add(k)
        return True

    def seq_term(t):
        k = t.decl().kind()
        if k == z3.Z3_OP_SEQ_CONCAT:
            args = t.children()
            for j in range(len(args) - 1):
                x = args[j]
                y = args[j + 1] if j == len(args) - 2 else z3.Concat(*args[j + 1:])
                if once('app', x, y):
                    out.append(R.ax_append(x, y))
                    if x.decl().kind() == z3.Z3_OP_SEQ_UNIT:
                        out.append(R.ax_cons2(x.arg(0), y))
        elif k == z3.Z3_OP_SEQ_UNIT:
            if once('single', t):
                out.append(R.ax_single(t.arg(0)))
        elif k == z3.Z3_OP_SEQ_EXTRACT:
            pass
        elif k != z3.Z3_OP_SEQ_EMPTY:
            if once('cons', t):
                out.append(R.ax_cons(t))

    slices = {}
    for t in terms:
        if not z3.is_app(t):
            continue
        srt = t.sort()
        if srt == R.SEQ:
            seq_term(t)
        name = t.decl().name()
        if name == 'rb_units':
            a = t.arg(0)
            if once('ulen', a):
                out.append(R.ax_units_len(a))
            if a.decl().kind() == z3.Z3_OP_SEQ_CONCAT:
                args = a.children()
                for j in range(len(args) - 1):
                    x = args[j]
                    y = args[j + 1] if j == len(args) - 2 else z3.Concat(*args[j + 1:])
                    if once('usplit', x, y):
                        out.append(R.ax_units_split(x, y))
        elif name == 'join_b':
            p = t.arg(1)
            if p.decl().kind() == z3.Z3_OP_SEQ_CONCAT and p.num_args() == 2 and \
                    p.arg(1).decl().kind() == z3.Z3_OP_SEQ_UNIT and t.arg(0).eq(R.EMPTYB):
                if once('snoc', p):
                    x = p.arg(1).arg(0)
                    out.append(R.ax_cat_snoc(p.arg(0), x))
                    out.append(R.ax_units_split(R.cat(R.EMPTYB, p.arg(0)), x))
        if srt == BytesS and t.decl().kind() == z3.Z3_OP_SEQ_EXTRACT:
            slices.setdefault(t.arg(0).get_id(), []).append(t)
    for _bid, sl in slices.items():
        for a in sl:
            if not (z3.is_int_value(z3.simplify(a.arg(1))) and z3.simplify(a.arg(1)).as_long() == 0):
                continue
            for b in sl:
                if b.arg(1).eq(a.arg(2)) and not b.eq(a) and once('slice', a, b):
                    base = a.arg(0)
                    # x == x[:n] ++ x[n:] : a fact about the code's own slices -> proved, then used
                    out.append(Prove(base == z3.Concat(a, b), 'slice pair re-assembles the chunk'))
                    out.append(R.ax_units_split(a, b))
    return out


# ------------------------------------------------------------------ flow control hooks
def should_pause_stub(cx):
    """self._should_pause_reading() is dispatched dynamically: SSHStreamSession's version (Spec should_pause_base) or
    SSHProcess's override, which or-s in bool(self._paused_write_streams) (ghost_pws; not verified here)"""
    return VBool(should_pause_z(cx.selff('_limit').z, cx.selff('_recv_buf_len').z, cx.selff('ghost_pws').z))


should_pause_stub.modifies = ()

should_pause_base = Spec(
    PROP, 'stream', 'SSHStreamSession._should_pause_reading', self_class='SSHStreamSession',
    classes=CLASSES, returns='bool', modifies=[],
    requires=lambda c: z3.Not(c.old('ghost_pws')),
    ensures=[('pause-iff-limit-set-and-reached', lambda c: c.result == should_pause(c))])

maybe_resume = Spec(
    PROP, 'stream', 'SSHStreamSession._maybe_resume_reading', self_class='SSHStreamSession',
    classes=CLASSES, returns='bool', modifies=list(ENV_FIELDS),
    stubs={'self._chan.resume_reading': env_step, 'self._should_pause_reading': should_pause_stub},
    requires=lambda c: z3.And(wf(c), accounted(c, False)),
    lemmas=auto_lemmas,
    ensures=[
        ('resumes-iff-paused-and-below-limit',
         lambda c: c.result == z3.And(c.old('_read_paused'), z3.Not(should_pause(c, False)))),
        ('no-resume-no-effect', lambda c: z3.Or(c.result, unchanged(c, ENV_FIELDS))),
        # resume_reading() makes the channel deliver what it had buffered: an environment step
        ('resume-is-an-environment-step', lambda c: z3.Or(z3.Not(c.result), rely(c))),
    ])

maybe_pause = Spec(
    PROP, 'stream', 'SSHStreamSession._maybe_pause_reading', self_class='SSHStreamSession',
    classes=CLASSES, returns='bool', modifies=['_read_paused'],
    stubs={'self._chan.pause_reading': noop('pause_reading'), 'self._should_pause_reading': should_pause_stub},
    requires=wf,
    ensures=[
        ('pauses-iff-at-limit',
         lambda c: c.result == z3.And(z3.Not(c.old('_read_paused')), should_pause(c, False))),
        ('paused-after-iff', lambda c: c.new('_read_paused') == z3.Or(c.old('_read_paused'), c.result)),
        ('channel-told-exactly-when-pausing',
         lambda c: z3.BoolVal(len(c.events('pause_reading')) == 1) == c.result),
    ])


# ------------------------------------------------------------------ _block_read / _unblock_read
def waiter_of(c, new=True):
    m = c.newv('_read_waiters') if new else c.oldv('_read_waiters')
    return z3.Select(m.val, kz_of(c.argv('datatype')))


block_read = Spec(
    PROP, 'stream', 'SSHStreamSession._block_read', self_class='SSHStreamSession',
    params=dict(datatype=KT), classes=CLASSES, modifies=list(ENV_FIELDS) + ['_read_waiters'],
    stubs={'self._loop.create_future': ret('opaque:Future', 'waiter'), 'await waiter': await_stub},
    requires=lambda c: z3.And(wf(c), accounted(c, False), view_is(c), flow_inv(c, False)),
    lemmas=auto_lemmas,
    ensures=[('suspension-is-one-environment-step', rely)],
    always=[('waiter-slot-cleared', lambda c: sort_of(parse_type('opt[opaque:Future]')).recognizer(0)(waiter_of(c)))],
    raises={'CancelledError': True})


def resume_stub(cx):
    """Constructive form of the contract proved for _maybe_resume_reading (Spec maybe_resume: result iff paused and
    below the limit; no effect when False; one environment step when True)."""
    cond = z3.And(cx.selff('_read_paused').z,
                  z3.Not(should_pause_z(cx.selff('_limit').z, cx.selff('_recv_buf_len').z, cx.selff('ghost_pws').z)))
    outs = [Out(ret=VBool(False), assume=[z3.Not(cond)])]
    # (the environment step happens after _read_paused was cleared, so J holds when control leaves)
    saved = list(cx.requires)
    eo = env_step(cx)
    del cx.requires[len(saved):]
    for o in eo:
        o.ret = VBool(True)
        o.assume.append(cond)
        outs.append(o)
    return outs


resume_stub.modifies = tuple(ENV_FIELDS)


# ------------------------------------------------------------------ read
def pieces(c):
    """the local list `data` as a sequence of pieces"""
    v = c.ex.deref(c.new_state, c.localv('data'))
    if isinstance(v, VList):
        return to_z3(v, parse_type('seq[bytes]'))
    return v.z


def is_mark(u):
    return R.UNIT.is_um(u)


def soft_case(c, B1, got_len):
    """a SoftEOFReceived marker stood at the head of the offered stream: it is consumed and nothing else is"""
    U = offered(c)
    return z3.And(got_len == 0, z3.Length(U) >= 1, is_mark(U[0]), R.soft(R.UNIT.um_e(U[0])),
                  z3.Concat(z3.Unit(U[0]), R.flat(B1)) == U)


def read_inv(c):
    Rb = c.local('recv_buf')
    D = pieces(c)
    got = R.cat(R.EMPTYB, D)
    N, n0 = c.local('n'), c.arg('n')
    BR = c.local('break_read')
    main = z3.And(N == n0 - z3.Length(got), z3.Implies(n0 > 0, N >= 0),
                  z3.Concat(R.units(got), R.flat(Rb)) == offered(c))
    softm = z3.And(N == 0, n0 != 0, z3.Length(D) == 0, z3.Not(BR), soft_case(c, Rb, z3.Length(got)))
    return z3.And(
        buf(c) == Rb,                                   # the local is the list object stored in the dict
        z3.Select(c.newv('_recv_buf').dom, key(c)),
        z3.Implies(n0 == 0, z3.Length(D) == 0),
        z3.Implies(z3.Length(D) == 0, flow_inv(c)),     # nothing consumed yet: J as the last suspension left it
        accounted(c), R.ok(Rb),
        (z3.Length(D) > 0) == (z3.Length(got) > 0),
        z3.Implies(BR, z3.And(z3.Length(D) > 0, z3.Length(Rb) > 0, R.is_exc(Rb[0]))),
        z3.Or(main, softm))


def stopped_short(c, B1, got_len):
    """why a read may return fewer units than asked for: EOF with nothing left, or an exception marker is next"""
    return z3.Or(z3.And(c.new('_eof_received'), z3.Length(B1) == 0),
                 z3.And(z3.Length(B1) > 0, R.is_exc(B1[0]), got_len >= 1))


def read_post_return(c):
    r, B1, n0 = c.result, buf(c), c.arg('n')
    sc = soft_case(c, B1, z3.Length(r))
    return [
        ('delivers-the-next-units-in-order-nothing-lost',
         z3.Or(z3.Concat(R.units(r), R.flat(B1)) == offered(c), sc)),
        ('exact-returns-n', z3.Implies(z3.And(n0 > 0, c.arg('exact')), z3.Or(z3.Length(r) == n0, sc))),
        ('at-most-n-at-least-one-unless-eof',
         z3.Implies(z3.And(n0 > 0, z3.Not(c.arg('exact'))),
                    z3.And(z3.Length(r) <= n0, z3.Or(z3.Length(r) >= 1, sc, stopped_short(c, B1, z3.Length(r)))))),
        ('negative-n-reads-to-eof', z3.Implies(n0 < 0, z3.Or(sc, stopped_short(c, B1, z3.Length(r))))),
        ('zero-n-reads-nothing', z3.Implies(n0 == 0, z3.And(z3.Length(r) == 0, R.flat(B1) == offered(c)))),
    ]


def read_frame(c):
    return [('buffer-length-accounting', accounted(c)), ('no-empty-chunk-left', R.ok(buf(c))),
            ('flow-control-invariant', flow_inv(c))]


def ire_stub(cx):
    return VExc('IncompleteReadError', tuple(cx.args))


ire_stub.modifies = ()


def read_raise_incomplete(c):
    p, expected = c.result_v.args[0].z, c.result_v.args[1]
    B1, n0 = buf(c), c.arg('n')
    return z3.And(c.arg('exact'), n0 > 0, c.ex.veq(c.new_state, expected, VInt(n0)), z3.Length(p) < n0,
                  z3.Concat(R.units(p), R.flat(B1)) == offered(c), stopped_short(c, B1, z3.Length(p)),
                  *[z for _l, z in read_frame(c)])


def read_raise_marker(c):
    if 'opaque' not in c.result_v.attrs:
        return z3.BoolVal(False)
    e = c.result_v.attrs['opaque'].z
    return z3.And(z3.Concat(R.mark(e), R.flat(buf(c))) == offered(c), z3.Not(R.soft(e)),
                  accounted(c), R.ok(buf(c)), flow_inv(c))


def read_cancelled(c):
    """a cancelled read (asyncio.wait_for timing out) consumes nothing: everything offered to it is still buffered"""
    if not c.events('acquire'):
        return z3.And(buf(c) == buf(c, False), c.new('_recv_buf_len') == c.old('_recv_buf_len'))
    return z3.And(R.flat(buf(c)) == offered(c), accounted(c), R.ok(buf(c)))


READ_LOOP_MOD = list(ENV_FIELDS)


def read_loop_lemmas(c):
    return auto_lemmas(c, extra=[read_inv(c)])


def outcome_lemmas(c, spec):
    """instances for the terms of the clauses that apply to this outcome"""
    goals = []
    try:
        if c.raised is None:
            goals = [f(c) for _l, f in spec.ensures]
        else:
            post = spec.raises.get(c.raised)
            if callable(post):
                goals = [post(c)]
    except Unsupported:
        goals = []
    return auto_lemmas(c, extra=[g for g in goals if isinstance(g, z3.ExprRef)])


def _nth(i):
    return lambda c: (lambda xs: xs[i])


def _post(fn, i):
    return lambda c: fn(c)[i][1]


read = Spec(
    PROP, 'stream', 'SSHStreamSession.read', self_class='SSHStreamSession',
    params=dict(datatype=KT, n='int', exact='bool'), classes=CLASSES,
    local_types={'data': 'seq[bytes]'},
    stubs={'with self._read_locks[]': lock_step,
           'self._maybe_resume_reading': resume_stub,      # = contract of Spec maybe_resume
           'self._block_read': block_stub('read'),         # = contract of Spec block_read + when blocking is allowed
           'asyncio.IncompleteReadError': ire_stub},
    loops={1: LoopSpec(header='True', modifies=READ_LOOP_MOD, invariant=read_inv, lemmas=read_loop_lemmas),
           2: LoopSpec(header='recv_buf and n != 0', modifies=['_recv_buf'], invariant=read_inv,
                       variant=lambda c: z3.Length(c.local('recv_buf')), lemmas=read_loop_lemmas)},
    requires=lambda c: z3.And(wf(c), view_is(c), flow_inv(c, False)),
    lemmas=lambda c: outcome_lemmas(c, read),
    ensures=[(lbl, _post(read_post_return, i)) for i, lbl in enumerate(
        ['delivers-the-next-units-in-order-nothing-lost', 'exact-returns-n', 'at-most-n-at-least-one-unless-eof',
         'negative-n-reads-to-eof', 'zero-n-reads-nothing'])] +
            [(lbl, _post(read_frame, i)) for i, lbl in enumerate(
                ['buffer-length-accounting', 'no-empty-chunk-left', 'flow-control-invariant'])],
    raises={'IncompleteReadError': read_raise_incomplete,
            'CancelledError': read_cancelled if CHECK_CANCELLED_READ else True,
            'Exception': read_raise_marker})
read.alias_map_lists = True
read.loops[2].lemmas_on_break = True
ABSTRACT = ['rb_flat', 'rb_units', 'rb_dlen', 'rb_ok', 'join_b']
read.abstract_fns = ABSTRACT


# ================================================================== process.py: collect_output
def data_part(B):
    """the buffer without a trailing exception marker"""
    n = z3.Length(B)
    return z3.If(z3.And(n > 0, R.is_exc(B[n - 1])), z3.Extract(B, 0, n - 1), B)


def collect_lemmas(c):
    B = buf(c, False)
    n = z3.Length(B)
    init, last = z3.Extract(B, 0, n - 1), z3.Extract(B, n - 1, 1)
    out = [R.ax_empty(), R.ax_alldata_empty(), R.ax_catd(B), R.ax_catd(init), R.ax_append(init, last),
           z3.Implies(n > 0, R.ax_single(B[n - 1])),
           # facts about the code's own slices: proved, then used
           Prove(z3.Implies(n > 0, B == z3.Concat(init, last)), 'list == list[:-1] ++ list[-1:]'),
           Prove(z3.Implies(n > 0, last == z3.Unit(B[n - 1])), 'list[-1:] == [list[-1]]')]
    return out


def collect_requires(c):
    B = buf(c, False)
    n = z3.Length(B)
    return z3.And(wf(c), view_is(c), accounted(c, False), R.ok(B), flow_inv(c, False),
                  # markers are appended by connection_lost() only, after which nothing is appended
                  z3.Implies(z3.And(n > 0, R.is_exc(B[n - 1])), R.alldata(z3.Extract(B, 0, n - 1))),
                  z3.Implies(z3.Not(z3.And(n > 0, R.is_exc(B[n - 1]))), R.alldata(B)))


def app_delta(c):
    a0, a1 = c.old('ghost_app'), c.new('ghost_app')
    return z3.Extract(a1, z3.Length(a0), z3.Length(a1) - z3.Length(a0))


def sum_of_lengths_stub(cx):
    """sum(len(cast(AnyStr, data)) for data in <list>): the data bytes of the list, provided every element is data
    (len() of an exception marker would be a TypeError): dlen restricted to marker-free lists IS that sum"""
    import ast as _ast
    g = cx.args[0]
    if not (isinstance(g, VTag) and g.tag == 'genexp'):
        raise Unsupported('sum() of something that is not a generator expression')
    e = g.payload
    gen = e.generators[0]
    tgt = _ast.unparse(gen.target)
    if _ast.unparse(e.elt) not in (f'len(cast(AnyStr, {tgt}))', f'len({tgt})') or not isinstance(gen.target, _ast.Name) \
            or gen.ifs or not isinstance(gen.iter, _ast.Name):
        raise Unsupported('sum() over an unexpected generator: ' + _ast.unparse(e))
    lst = cx.ex.deref(cx.st, cx.st.env[gen.iter.id])
    if not isinstance(lst, VSeq):
        raise Unsupported('sum() over a non-symbolic list')
    cx.require('every-summand-is-data', R.alldata(lst.z))
    return VInt(R.dlen(lst.z))


sum_of_lengths_stub.modifies = ()


collect_one = Spec(
    PROP, 'process', 'SSHClientProcess._collect_output', self_class='SSHStreamSession',
    params=dict(datatype=KT), classes=CLASSES,
    stubs={'self._maybe_resume_reading': resume_stub, 'sum': sum_of_lengths_stub},
    requires=collect_requires,
    lemmas=lambda c: collect_lemmas(c) + auto_lemmas(c),
    ensures=[
        # everything buffered is handed out, in order; what stays is the trailing marker (plus whatever the
        # environment appended meanwhile - nothing for the code as it stands, which never calls out)
        ('returns-all-buffered-data-in-order',
         lambda c: z3.Concat(R.units(c.result), R.flat(buf(c))) == z3.Concat(R.flat(buf(c, False)), app_delta(c))),
        ('no-empty-chunk-left', lambda c: R.ok(buf(c))),
        # F8: the bytes handed out must leave the flow-control account, and reading must resume
        ('buffer-length-accounting', lambda c: accounted(c)),
        ('flow-control-invariant', lambda c: flow_inv(c)),
        # readers keep a reference to the list (taken even before the read lock): it must be emptied in place, never
        # replaced - otherwise a woken reader and collect_output() both deliver the same data (fix 7a31306)
        ('buffer-list-object-is-kept', lambda c: z3.BoolVal(not c.new_state.heap.get('__list_slot_rebound__'))),
    ])
collect_one.alias_map_lists = True
collect_one.abstract_fns = ABSTRACT + ['rb_alldata']


# ================================================================== readuntil (literal separators)
NEWLINE_TAG = VTag('newline-sentinel')
MSTART = z3.Function('rb_match_start', opaque_sort('Match'), IntS)


MEND = z3.Function('rb_match_end', opaque_sort('Match'), IntS)
PATSEP = z3.Const('rb_compiled_pattern', BytesS)       # token standing for "the compiled pattern" in occ(b, ., j)
PATTERN_TAG = VTag('compiled-pattern')


def pattern_isinstance_stub(cx):
    """isinstance() when the separator is the compiled-pattern token: it is a typing.Pattern and nothing else"""
    from pyvc import builtins_model as bm
    v, cls = cx.args
    if isinstance(v, VTag) and v.tag == 'compiled-pattern':
        names = [c_.tag[6:] for c_ in (cls.items if isinstance(cls, VTuple) else [cls])]
        return VBool('Pattern' in names)
    (_s, r), = bm.b_isinstance(cx.ex, cx.st, cx.args, {}, cx.node)
    return r


pattern_isinstance_stub.modifies = ()


def re_escape_stub(cx):
    return VTag('escaped-literal', payload=cx.args[0])


def re_compile_stub(cx):
    """re.compile(re.escape(lit)) / re.compile(b'\\n'): a pattern that matches exactly the literal"""
    a = cx.args[0]
    if isinstance(a, VTag) and a.tag == 'escaped-literal':
        return VTag('literal-pattern', payload=a.payload)
    if concrete_bytes(a) == b'\n':
        return VTag('literal-pattern', payload=a)
    raise Unsupported('re.compile of something that is not a literal separator')


def search_stub(cx):
    """pat.search(buf, start) for a literal pattern: None iff the literal does not occur at any offset >= start,
    else the match object of the FIRST occurrence at an offset >= start (leftmost match semantics of re)"""
    pat = cx.recv
    if isinstance(pat, VTag) and pat.tag == 'compiled-pattern':
        # an arbitrary compiled pattern whose maximal match length is unknown (max_separator_len == 0): occ(b, PATSEP, j)
        # stands for "the pattern matches in b starting at j"; no length, no stability under append is known, so
        # the search must restart from the beginning of the not yet returned data
        b, start = cx.args[0].z, cx.args[1].z
        cx.require('with-unknown-separator-length-the-search-restarts-from-the-beginning', start == 0)
        m = cx.fresh('opaque:Match', 'match')
        k, e = MSTART(m.z), MEND(m.z)
        j = z3.Int(fresh_name('occj'))
        return [Out(ret=VNone, assume=[R.no_occ_from(b, PATSEP, start)]),
                Out(ret=m, assume=[k >= start, k >= 0, R.occ(b, PATSEP, k), e >= k, e <= z3.Length(b),
                                   z3.ForAll([j], z3.Implies(z3.And(j >= start, j < k),
                                                             z3.Not(R.occ(b, PATSEP, j))))])]
    if not (isinstance(pat, VTag) and pat.tag == 'literal-pattern'):
        raise Unsupported('search on a non-literal pattern')
    sep, b, start = pat.payload.z, cx.args[0].z, cx.args[1].z
    m = cx.fresh('opaque:Match', 'match')
    k = MSTART(m.z)
    j = z3.Int(fresh_name('occj'))
    return [Out(ret=VNone, assume=[R.no_occ_from(b, sep, start)]),
            Out(ret=m, assume=[k >= start, k >= 0, R.occ(b, sep, k), k + z3.Length(sep) <= z3.Length(b),
                               z3.ForAll([j], z3.Implies(z3.And(j >= start, j < k), z3.Not(R.occ(b, sep, j))))])]


def match_end_stub(cx):
    if cx.st.env['pat'].tag == 'compiled-pattern':
        return VInt(MEND(cx.recv.z))
    sep = cx.st.env['pat'].payload.z
    return VInt(MSTART(cx.recv.z) + z3.Length(sep))


for _s in (re_escape_stub, re_compile_stub, search_stub, match_end_stub):
    _s.modifies = ()


STREAM['ghost_gave_up'] = 'bool'     # readuntil: reading was paused or EOF seen when it last decided to give up
CLASSES['SSHStreamSession'] = STREAM


def ru_resume_stub(cx):
    """resume_stub + a ghost record of the flags the caller has just tested"""
    outs = resume_stub(cx)
    flag = VBool(z3.Or(cx.selff('_read_paused').z, cx.selff('_eof_received').z))
    for o in outs:
        o.osets = list(o.osets) + [(cx.ex.self_ref, 'ghost_gave_up', flag)]
    return outs


ru_resume_stub.modifies = tuple(resume_stub.modifies) + ('ghost_gave_up',)


def decided(c, cond):
    """True / False when the path condition settles cond (quick solver check), else None; used only to choose which
    lemma to state - every stated lemma is still proved"""
    from pyvc.engine import relevant
    for val, neg in ((True, z3.Not(cond)), (False, cond)):
        sol = z3.Solver()
        sol.set('timeout', 1500)
        sol.add(*relevant(c.new_state.pc, cond))
        sol.add(neg)
        if sol.check() == z3.unsat:
            return val
    return None


def once_per_path(c, items):
    """drop lemma items that an earlier hook call on this very path has already contributed"""
    st = c.new_state
    seen = set(st.heap.get('__c19_lemmas__', ()))
    out = []
    for it in items:
        z = it.z if isinstance(it, Prove) else it
        i = z.get_id()
        if i in seen:
            continue
        seen.add(i)
        out.append(it)
    st.heap['__c19_lemmas__'] = frozenset(seen)
    st.heap.setdefault('__c19_keep__', [])
    st.heap['__c19_keep__'] = st.heap['__c19_keep__'] + [it.z if isinstance(it, Prove) else it for it in out]
    return out


def make_readuntil(kind):
    literal = kind != 'pattern0'

    def sep_of(c):
        if kind == 'pattern0':
            return PATSEP
        return VBytes(b'\n').z if kind == 'newline' else c.arg('separator')

    def inv(c):
        Rb, cur, bl, b = c.local('recv_buf'), c.local('curbuf'), c.local('buflen'), c.local('buf')
        P = z3.Extract(Rb, 0, cur)
        return z3.And(
            buf(c) == Rb, z3.Select(c.newv('_recv_buf').dom, key(c)),
            accounted(c), R.ok(Rb), flow_inv(c),                      # nothing is consumed before the exit
            cur >= 0, cur <= z3.Length(Rb), bl == z3.Length(b),
            R.alldata(P), R.units(b) == R.flat(P), z3.Length(b) == R.dlen(P),
            (z3.Length(b) > 0) == (cur > 0),
            R.flat(Rb) == offered(c), z3.Not(c.new('ghost_gave_up')),
            # no separator match inside what was scanned
            R.no_occ(b, sep_of(c)) if literal else z3.Implies(cur > 0, R.no_occ(b, sep_of(c))))

    def head_terms(c):
        """(list, index, scanned data) at the head of the current inner-loop iteration.  Recorded in the state by the
        hook call made on the loop-head state so that the hooks of later cut points of the same path see them."""
        h = getattr(c, 'head', None)
        st = c.new_state
        if h is not None and 'curbuf' in h.env:
            t = (h.env['recv_buf'].z, h.env['curbuf'].z, h.env['buf'].z)
            if 'curbuf' in st.env and st.env['recv_buf'].z.eq(t[0]) and st.env['buf'].z.eq(t[2]):
                st.heap['__ru_head__'] = t
            return t
        return st.heap.get('__ru_head__')

    def step_lemmas(c):
        ht = head_terms(c)
        if ht is None:
            return []
        Rb, cur, b0 = ht
        sep = sep_of(c)
        n = z3.Length(Rb)
        P, y, rest = z3.Extract(Rb, 0, cur), Rb[cur], z3.Extract(Rb, cur + 1, n - cur - 1)
        P1 = z3.Extract(Rb, 0, cur + 1)
        full = z3.Concat(b0, R.val_of(y))
        isdata = z3.And(cur < n, z3.Not(R.is_exc(y)))
        out = [R.ax_empty(), R.ax_alldata_empty(),
               Prove(z3.Implies(cur < n, Rb == z3.Concat(P, z3.Unit(y), rest)), 'list == scanned ++ [current] ++ rest'),
               Prove(z3.Implies(cur < n, P1 == z3.Concat(P, z3.Unit(y))), 'scanned part grows by the current chunk'),
               Prove(z3.Implies(cur == n, P == Rb), 'everything scanned'),
               R.ax_append(P, z3.Concat(z3.Unit(y), rest)), R.ax_cons2(y, rest), R.ax_append(P, z3.Unit(y)),
               R.ax_single(y), R.ax_alldata_append(P, z3.Unit(y)), R.ax_alldata_single(y),
               R.ax_units_split(b0, R.val_of(y)),
               ] + ([R.ax_occ_stable(b0, R.val_of(y), sep), R.ax_occ_bounds(b0, sep), R.ax_occ_bounds(full, sep)]
                    if literal else [R.ax_occ_nonneg(full, sep)]) + [
               # proof script: the unit stream of the list, split at the current chunk
               Prove(z3.Implies(isdata, R.flat(Rb) == z3.Concat(R.flat(P), R.units(R.val_of(y)), R.flat(rest))),
                     'flat(list) == flat(scanned) ++ units(current) ++ flat(rest)'),
               Prove(z3.Implies(isdata, R.dlen(Rb) == R.dlen(P) + z3.Length(R.val_of(y)) + R.dlen(rest)),
                     'dlen(list) == dlen(scanned) + len(current) + dlen(rest)'),
               Prove(z3.Implies(cur < n, R.ok(rest)), 'rest has no empty chunk')]
        st = c.new_state
        if isinstance(st.env.get('idx'), VInt) and 'match' in st.env:
            # a match was found: the remainder is re-queued at the head (or dropped when empty)
            idx = st.env['idx'].z
            rem = z3.Extract(full, idx, z3.Length(full) - idx)
            res = z3.Extract(full, 0, idx)
            newR = c.local('recv_buf')
            # (_maybe_resume_reading() may already have let the environment append: look at the list before that)
            last = c.new('ghost_last')
            mv = c.newv('_recv_buf').val
            if mv.decl().kind() == z3.Z3_OP_STORE:
                newR = mv.arg(2)
            if newR.decl().kind() == z3.Z3_OP_SEQ_CONCAT and newR.num_args() == 2 and newR.arg(1).eq(last):
                out.append(R.ax_append(newR.arg(0), last))
                newR = newR.arg(0)
            nonempty = decided(c, z3.Length(rem) > 0)
            if nonempty is True:
                out += [Prove(z3.Length(rem) > 0, 'remainder is not empty on this path'),
                        Prove(newR == z3.Concat(z3.Unit(R.mk_val(rem)), rest), 'remainder re-queued at the head')]
            elif nonempty is False:
                out += [Prove(z3.Length(rem) == 0, 'remainder is empty on this path'),
                        Prove(newR == rest, 'empty remainder removed'),
                        Prove(R.units(rem) == z3.Empty(R.US), 'an empty remainder has no units')]
            out += [Prove(z3.Implies(z3.Length(rem) > 0, newR == z3.Concat(z3.Unit(R.mk_val(rem)), rest)),
                          'remainder re-queued at the head'),
                    Prove(z3.Implies(z3.Length(rem) == 0, newR == rest), 'empty remainder removed'),
                    Prove(full == z3.Concat(res, rem), 'match prefix ++ remainder == scanned data'),
                    R.ax_cons2(R.mk_val(rem), rest), R.ax_units_split(res, rem),
                    ] + ([R.ax_occ_stable(res, rem, sep), R.ax_occ_bounds(res, sep)] if literal else []) + [
                    Prove(R.units(full) == z3.Concat(R.units(res), R.units(rem)), 'units split at the match end'),
                    Prove(R.flat(newR) == z3.Concat(R.units(rem), R.flat(rest)), 'flat(new list) == units(remainder) ++ flat(rest)'),
                    Prove(R.dlen(newR) == z3.Length(rem) + R.dlen(rest), 'dlen(new list) == len(remainder) + dlen(rest)'),
                    Prove(z3.Concat(R.units(b0), R.units(R.val_of(y))) == R.units(full), 'units of the scanned data')]
            if c.result_v is not None and hasattr(c.result_v, 'z'):
                out.append(Prove(c.result_v.z == res, 'result is the prefix through the match end'))
        return out

    def lemmas(c):
        h = getattr(c, 'head', None)
        st = c.new_state
        if h is not None and len(st.pc) == len(h.pc) and 'curbuf' in st.env and \
                st.env['recv_buf'].z.eq(h.env['recv_buf'].z) and st.env['curbuf'].z.eq(h.env['curbuf'].z):
            # the call on the loop-head state itself: only remember the head terms; the (quantified) instances are
            # supplied where the path ends, so that the feasibility checks along the path stay cheap
            head_terms(c)
            return [R.ax_empty(), R.ax_alldata_empty()] + \
                ([R.ax_occ_bounds(R.EMPTYB, sep_of(c))] if literal and isinstance(st.env['curbuf'], VInt) and
                 concrete_int(st.env['curbuf']) == 0 else [])
        return once_per_path(c, step_lemmas(c) + auto_lemmas(c, extra=[inv(c)] if c.has_local('curbuf') else []))

    def post_return(c):
        r, B1, sep = c.result, buf(c), sep_of(c)
        k = z3.Length(r) - z3.Length(sep)
        sc = soft_case(c, B1, z3.Length(r))
        return [z3.Or(z3.Concat(R.units(r), R.flat(B1)) == offered(c), sc),   # the next units, nothing lost/skipped
                z3.Or(R.occ(r, sep, k), sc) if literal else z3.BoolVal(True),         # ... ending in a separator match
                z3.Or(R.no_occ_before(r, sep, k), sc) if literal else z3.BoolVal(True)]   # ... the FIRST match

    def raise_incomplete(c):
        p, expected = c.result_v.args[0].z, c.result_v.args[1]
        B1, sep = buf(c), sep_of(c)
        marker_next = z3.And(z3.Length(B1) > 0, R.is_exc(B1[0]), z3.Length(p) >= 1)
        gave_up = c.new('ghost_gave_up')
        return z3.And(expected is VNone, z3.Concat(R.units(p), R.flat(B1)) == offered(c),
                      R.no_occ(p, sep) if literal else z3.Implies(z3.Length(p) > 0, R.no_occ(p, sep)),
                      accounted(c), R.ok(B1),
                      # only at EOF, with reading paused (buffer full, no separator in it), or before a marker
                      z3.Or(marker_next, gave_up))

    def raise_marker(c):
        if 'opaque' not in c.result_v.attrs:
            return z3.BoolVal(False)
        e = c.result_v.attrs['opaque'].z
        return z3.And(z3.Concat(R.mark(e), R.flat(buf(c))) == offered(c), z3.Not(R.soft(e)),
                      accounted(c), R.ok(buf(c)))

    def out_lemmas(c):
        goals = []
        if c.raised is None:
            goals = post_return(c)
        elif c.raised == 'IncompleteReadError':
            goals = [raise_incomplete(c)]
        return once_per_path(c, step_lemmas(c) + auto_lemmas(c, extra=goals))

    params = dict(datatype=KT, max_separator_len='int')
    if kind == 'literal':
        params['separator'] = 'bytes'
    else:
        params['separator'] = 'any'        # replaced by the sentinel object in setup

    def setup(ex, st):
        if kind == 'newline':
            st.env['separator'] = NEWLINE_TAG
        elif kind == 'pattern0':
            st.env['separator'] = PATTERN_TAG

    sp = Spec(
        PROP, 'stream', 'SSHStreamSession.readuntil', self_class='SSHStreamSession',
        params=params, classes=CLASSES, globals={'_NEWLINE': NEWLINE_TAG, 'Pattern': VTag('class:Pattern')},
        setup=setup,
        stubs={'with self._read_locks[]': lock_step, 'self._maybe_resume_reading': ru_resume_stub,
               **({'isinstance': pattern_isinstance_stub} if kind == 'pattern0' else {}),
               'self._block_read': block_stub('readuntil'), 'asyncio.IncompleteReadError': ire_stub,
               're.escape': re_escape_stub, 're.compile': re_compile_stub, 'pat.search': search_stub,
               'match.end': match_end_stub},
        loops={1: LoopSpec(header='True', modifies=list(ENV_FIELDS) + ['ghost_gave_up'], invariant=inv, lemmas=lemmas),
               2: LoopSpec(header='curbuf < len(recv_buf)', modifies=['_recv_buf'], invariant=inv, lemmas=lemmas,
                           variant=lambda c: z3.Length(c.local('recv_buf')) - c.local('curbuf'))},
        requires=lambda c: z3.And(wf(c), view_is(c), flow_inv(c, False), z3.Not(c.old('ghost_gave_up')),
                                  *([c.arg('max_separator_len') == 0] if kind == 'pattern0' else [])),
        lemmas=out_lemmas, returns='bytes', modifies=list(ENV_FIELDS) + ['ghost_base', 'ghost_gave_up'],
        ensures=[('delivers-the-next-units-in-order-nothing-lost', lambda c: post_return(c)[0]),
                 ('result-ends-with-a-separator-match', lambda c: post_return(c)[1]),
                 ('no-earlier-separator-match-in-result', lambda c: post_return(c)[2]),
                 ('buffer-length-accounting', lambda c: accounted(c)),
                 ('no-empty-chunk-left', lambda c: R.ok(buf(c)))],
        # J on EVERY outcome: whoever consumed data must have re-evaluated the pause before control leaves
        always=[('flow-control-invariant', lambda c: flow_inv(c))],
        raises={'IncompleteReadError': raise_incomplete, 'CancelledError': True,
                'ValueError': lambda c: z3.Length(sep_of(c)) == 0,
                'Exception': raise_marker})
    sp.alias_map_lists = True
    sp.abstract_fns = ABSTRACT + ['rb_alldata']
    sp.loops[2].lemmas_on_break = True
    sp.simplify_index = True
    sp.tag = kind
    sp.post_return, sp.raise_incomplete, sp.raise_marker = post_return, raise_incomplete, raise_marker
    return sp


readuntil_literal = make_readuntil('literal')
readuntil_newline = make_readuntil('newline')
# a compiled pattern WITHOUT max_separator_len: conservation / accounting / blocking clauses, and the search-start
# clause "with unknown separator length the search restarts from the beginning of the unreturned data"
readuntil_pattern0 = make_readuntil('pattern0')


# ================================================================== writers of the receive buffer / EOF / close
STREAM['ghost_woken'] = f'dict[{KT},bool]'        # datatypes whose blocked reader has been woken by this call
STREAM['ghost_drain_woken'] = f'dict[{KT},bool]'  # datatypes whose blocked drainers have been woken by this call
STREAM['ghost_wkey'] = KT                         # the (arbitrary) write datatype the drain clauses are about
CLASSES['SSHStreamSession'] = STREAM
KEYS = z3.Function('dict_keys_' + str(sort_of(parse_type(KT))), z3.ArraySort(sort_of(parse_type(KT)), BoolS),
                   z3.SeqSort(sort_of(parse_type(KT))))
KEYPOS = z3.Function('dict_keypos_' + str(sort_of(parse_type(KT))), z3.ArraySort(sort_of(parse_type(KT)), BoolS),
                     sort_of(parse_type(KT)), IntS)


def wake_stub(field):
    def stub(cx):
        m = cx.selff(field)
        return [Out(ret=VNone, sets={field: VMap(m.dom, z3.Store(m.val, kz_of(cx.args[0]), True), m.kt, m.vt)},
                    event=('wake:' + field, tuple(cx.args)))]
    stub.modifies = (field,)
    return stub


unblock_read_stub = wake_stub('ghost_woken')


def unblock_drain_stub(cx):
    """self._unblock_drain(datatype): the contract proved for it below (Spec unblock_drain) - the drainers of that
    datatype are completed exactly when _should_block_drain(datatype) is false AT THE TIME OF THE CALL"""
    m = cx.selff('ghost_drain_woken')
    kz = kz_of(cx.args[0])
    now = z3.Or(z3.Select(m.val, kz), z3.Not(should_block_z(cx.selff, kz)))
    return [Out(ret=VNone, sets={'ghost_drain_woken': VMap(m.dom, z3.Store(m.val, kz, now), m.kt, m.vt)},
                event=('wake:drain', tuple(cx.args)))]


unblock_drain_stub.modifies = ('ghost_drain_woken',)

# ---- _unblock_drain itself: for an arbitrary registered drainer (index ghost_widx in the set's iteration order)
STREAM['ghost_widx'] = 'int'
STREAM['ghost_set'] = 'dict[opaque:Future,bool]'      # futures completed by set_result() during this call
CLASSES['SSHStreamSession'] = STREAM
FDONE = z3.Function('future_done_before', opaque_sort('Future'), BoolS)


def fut_done(m, w):
    return z3.Or(FDONE(w), z3.Select(m.val, w))


def fut_done_stub(cx):
    return VBool(fut_done(cx.selff('ghost_set'), cx.recv.z))


def fut_set_result_stub(cx):
    m = cx.selff('ghost_set')
    cx.require('set_result-only-on-a-pending-future', z3.Not(fut_done(m, cx.recv.z)))   # else InvalidStateError
    return [Out(ret=VNone, osets=[(cx.ex.self_ref, 'ghost_set',
                                   VMap(m.dom, z3.Store(m.val, cx.recv.z, True), m.kt, m.vt))])]


fut_done_stub.modifies = ()
fut_set_result_stub.modifies = ('ghost_set',)


def view_waiter(c):
    ws = z3.Select(c.oldv('_drain_waiters').val, kz_of(c.argv('datatype')))
    return ws, c.old('ghost_widx')


unblock_drain = Spec(
    PROP, 'stream', 'SSHStreamSession._unblock_drain', self_class='SSHStreamSession',
    params=dict(datatype=KT), classes=CLASSES, modifies=['ghost_set'],
    stubs={'self._should_block_drain': should_block_dyn_stub, 'waiter.done': fut_done_stub,
           'waiter.set_result': fut_set_result_stub},
    loops={1: LoopSpec(header='for waiter in self._drain_waiters[datatype]', modifies=['ghost_set'],
                       invariant=lambda c: z3.Implies(view_waiter(c)[1] < for_i(c),
                                                      fut_done(c.newv('ghost_set'),
                                                               view_waiter(c)[0][view_waiter(c)[1]])))},
    requires=lambda c: z3.And(has_key(c, '_drain_waiters'), view_waiter(c)[1] >= 0,
                              view_waiter(c)[1] < z3.Length(view_waiter(c)[0])),
    ensures=[
        ('every-registered-drainer-completed-when-drain-need-not-block',
         lambda c: z3.Or(should_block_z(lambda f: c.oldv(f), kz_of(c.argv('datatype'))),
                         fut_done(c.newv('ghost_set'), view_waiter(c)[0][view_waiter(c)[1]]))),
        ('nobody-woken-while-drain-must-still-block',
         lambda c: z3.Or(z3.Not(should_block_z(lambda f: c.oldv(f), kz_of(c.argv('datatype')))),
                         c.newv('ghost_set').val == c.oldv('ghost_set').val)),
    ])


def woken(c, field='ghost_woken', k=None, new=True):
    m = c.newv(field) if new else c.oldv(field)
    return z3.Select(m.val, key(c) if k is None else k)


unblock_read = Spec(
    PROP, 'stream', 'SSHStreamSession._unblock_read', self_class='SSHStreamSession',
    params=dict(datatype=KT), classes=CLASSES,
    stubs={'waiter.done': ret('bool', 'done'), 'waiter.set_result': noop('set_result')},
    requires=lambda c: z3.And(wf(c), view_is(c)),
    ensures=[('a-pending-waiter-is-completed-exactly-once', lambda c: z3.And(
        z3.BoolVal(len(c.events('set_result')) <= 1),
        z3.Implies(z3.BoolVal(len(c.events('set_result')) == 0),
                   z3.Or(c.is_none(from_z3(z3.Select(c.oldv('_read_waiters').val, key(c)),
                                           'opt[opaque:Future]')),
                         z3.And(*[cl['ret'].z for cl in c.calls('waiter.done')] + [z3.BoolVal(True)])))))])

at_eof = Spec(
    PROP, 'stream', 'SSHStreamSession.at_eof', self_class='SSHStreamSession',
    params=dict(datatype=KT), classes=CLASSES, returns='bool',
    requires=lambda c: z3.And(wf(c), view_is(c)),
    ensures=[('eof-only-when-flagged-and-drained',
              lambda c: c.result == z3.And(c.old('_eof_received'), z3.Length(buf(c, False)) == 0))])


def data_received_post(c):
    d = kz_of(c.argv('datatype'))
    m0, m1 = c.oldv('_recv_buf'), c.newv('_recv_buf')
    B0 = z3.Select(m0.val, d)
    data = c.arg('data')
    # the data becomes the last chunk of its datatype's list; an empty delivery (no units) may also be dropped
    return z3.And(m1.dom == m0.dom,
                  z3.Or(m1.val == z3.Store(m0.val, d, z3.Concat(B0, z3.Unit(R.mk_val(data)))),
                        z3.And(z3.Length(data) == 0, m1.val == m0.val)))


data_received = Spec(
    PROP, 'stream', 'SSHStreamSession.data_received', self_class='SSHStreamSession',
    params=dict(data='bytes', datatype=KT), classes=CLASSES,
    modifies=['_recv_buf', '_recv_buf_len', '_read_paused', 'ghost_woken'],
    stubs={'self._unblock_read': unblock_read_stub, 'self._maybe_pause_reading': contract_stub(lambda: maybe_pause)},
    # NO precondition on len(data): the channel hands over whatever it decoded (see finding: '' in str mode)
    requires=lambda c: z3.And(wf(c), view_is(c), accounted(c, False), R.ok(buf(c, False)), flow_inv(c, False)),
    lemmas=lambda c: auto_lemmas(c, extra=[R.dlen(buf(c)), R.ok(buf(c))]),
    ensures=[
        ('appended-at-the-tail-nothing-else-touched', data_received_post),
        ('buffer-length-accounting', lambda c: accounted(c)),
        ('no-empty-chunk-left', lambda c: R.ok(buf(c))),
        ('flow-control-invariant', lambda c: flow_inv(c)),
        ('reader-woken-when-data-arrived', lambda c: z3.Implies(z3.Length(c.arg('data')) > 0, woken(c))),
        # the other half of J: once the buffered amount reaches the limit the channel is told to stop delivering
        ('reading-paused-when-the-limit-is-reached',
         lambda c: z3.Implies(z3.And(z3.Length(c.arg('data')) > 0, should_pause(c)), c.new('_read_paused'))),
    ])
data_received.abstract_fns = ABSTRACT


def drain_woken_or_redirected(c):
    return z3.Or(z3.Select(c.oldv('_readers').dom, kz_of(c.oldv('ghost_wkey'))),
                 woken(c, 'ghost_drain_woken', kz_of(c.oldv('ghost_wkey'))))


def for_i(c):
    return c.extra['i']


def view_pos(c, field):
    return KEYPOS(c.oldv(field).dom, key(c))


eof_received = Spec(
    PROP, 'stream', 'SSHStreamSession.eof_received', self_class='SSHStreamSession',
    classes=CLASSES, returns='bool', modifies=['_eof_received', 'ghost_woken'],
    stubs={'self._unblock_read': unblock_read_stub},
    loops={1: LoopSpec(header='for datatype in self._read_waiters', modifies=['ghost_woken'],
                       invariant=lambda c: z3.And(c.new('_eof_received'),
                                                  z3.Implies(view_pos(c, '_read_waiters') < for_i(c), woken(c))))},
    requires=wf,
    ensures=[('eof-flag-set', lambda c: c.new('_eof_received')),
             ('every-blocked-reader-woken', lambda c: woken(c)),
             ('returns-true', lambda c: c.result)])


def lost_marker_inv(c):
    e = c.argv('exc')
    B0, B1 = buf(c, False), buf(c)
    m0, m1 = c.oldv('_recv_buf'), c.newv('_recv_buf')
    ez = e.val.z if isinstance(e, VOpt) else e.z
    return z3.And(m1.dom == m0.dom,
                  B1 == z3.If(view_pos(c, '_read_waiters') < for_i(c), z3.Concat(B0, z3.Unit(R.mk_exc(ez))), B0))


def lost_post_marker(c):
    e = c.argv('exc')
    B0, B1 = buf(c, False), buf(c)
    appended = z3.And(z3.Not(c.old('_eof_received')), z3.Not(e.isnone))
    return z3.And(z3.Implies(appended, B1 == z3.Concat(B0, z3.Unit(R.mk_exc(e.val.z)))),
                  z3.Implies(z3.Not(appended), B1 == B0))


connection_lost = Spec(
    PROP, 'stream', 'SSHStreamSession.connection_lost', self_class='SSHStreamSession',
    params=dict(exc='opt[opaque:Exc]'), classes=CLASSES,
    stubs={'self.eof_received': contract_stub(lambda: eof_received), 'self._unblock_drain': unblock_drain_stub},
    loops={1: LoopSpec(header='for datatype in self._read_waiters', modifies=['_recv_buf'],
                       invariant=lost_marker_inv),
           2: LoopSpec(header='for datatype in self._drain_waiters', modifies=['ghost_drain_woken'],
                       invariant=lambda c: z3.Implies(
                           KEYPOS(c.oldv('_drain_waiters').dom, kz_of(c.oldv('ghost_wkey'))) < for_i(c),
                           drain_woken_or_redirected(c))),},
    requires=lambda c: z3.And(wf(c), accounted(c, False), R.ok(buf(c, False)), flow_inv(c, False),
                              c.oldv('_recv_buf').dom == c.oldv('_read_waiters').dom,
                              z3.Select(c.oldv('_drain_waiters').dom, kz_of(c.oldv('ghost_wkey')))),
    lemmas=lambda c: auto_lemmas(c, extra=[R.dlen(buf(c)), R.ok(buf(c))]),
    ensures=[
        ('loss-recorded', lambda c: z3.And(c.new('_connection_lost'),
                                           c.ex.veq(c.new_state, c.newv('_exception'), c.argv('exc')))),
        # exactly one marker, exactly when EOF had not been seen and there is an exception to report
        ('exception-marker-appended-once-iff-no-eof-yet', lost_post_marker),
        ('eof-flag-set', lambda c: c.new('_eof_received')),
        ('blocked-readers-woken-unless-eof-was-already-signalled',
         lambda c: z3.Or(c.old('_eof_received'), woken(c))),
        # "drain ... fails if the channel is gone": the drainers are woken (the loss flag is set BEFORE they are looked
        # at); with a redirection source still feeding that datatype they are woken when the source is removed
        ('blocked-drainers-woken', lambda c: z3.Or(
            z3.Select(c.oldv('_readers').dom, kz_of(c.oldv('ghost_wkey'))),
            woken(c, 'ghost_drain_woken', kz_of(c.oldv('ghost_wkey'))))),
        ('buffer-length-accounting', lambda c: accounted(c)),
        ('no-empty-chunk-left', lambda c: R.ok(buf(c))),
        ('flow-control-invariant', lambda c: flow_inv(c)),
    ])
connection_lost.abstract_fns = ABSTRACT

SERVER_CLASSES = dict(CLASSES)
SERVER_CLASSES['SSHServerStreamSession'] = STREAM
exception_received = Spec(
    PROP, 'stream', 'SSHServerStreamSession.exception_received', self_class='SSHStreamSession',
    params=dict(exc='opaque:Exc'), classes=CLASSES,
    stubs={'self._unblock_read': unblock_read_stub},
    requires=lambda c: z3.And(wf(c), c.is_none(c.oldv('ghost_key')), accounted(c, False), R.ok(buf(c, False)),
                              flow_inv(c, False)),
    lemmas=lambda c: auto_lemmas(c, extra=[R.dlen(buf(c)), R.ok(buf(c))]),
    ensures=[
        ('marker-appended-at-the-tail',
         lambda c: buf(c) == z3.Concat(buf(c, False), z3.Unit(R.mk_exc(c.arg('exc'))))),
        ('buffer-length-accounting', lambda c: accounted(c)),
        ('no-empty-chunk-left', lambda c: R.ok(buf(c))),
        ('flow-control-invariant', lambda c: flow_inv(c)),
        ('reader-woken', lambda c: woken(c)),
    ])
exception_received.abstract_fns = ABSTRACT

pause_writing = Spec(
    PROP, 'stream', 'SSHStreamSession.pause_writing', self_class='SSHStreamSession', classes=CLASSES,
    ensures=[('write-paused', lambda c: c.new('_write_paused'))])

resume_writing = Spec(
    PROP, 'stream', 'SSHStreamSession.resume_writing', self_class='SSHStreamSession', classes=CLASSES,
    stubs={'self._unblock_drain': unblock_drain_stub},
    loops={1: LoopSpec(header='for datatype in self._drain_waiters', modifies=['ghost_drain_woken'],
                       invariant=lambda c: z3.And(z3.Not(c.new('_write_paused')), z3.Implies(
                           KEYPOS(c.oldv('_drain_waiters').dom, kz_of(c.oldv('ghost_wkey'))) < for_i(c),
                           drain_woken_or_redirected(c)))),},
    requires=lambda c: z3.Select(c.oldv('_drain_waiters').dom, kz_of(c.oldv('ghost_wkey'))),
    ensures=[('write-resumed', lambda c: z3.Not(c.new('_write_paused'))),
             ('blocked-drainers-woken', lambda c: z3.Or(
                 z3.Select(c.oldv('_readers').dom, kz_of(c.oldv('ghost_wkey'))),
                 woken(c, 'ghost_drain_woken', kz_of(c.oldv('ghost_wkey')))))])


# ================================================================== exit status / exit signal (channel.py)
from .common import PACKET_CLASSES, PACKET_INLINE, PACKET_TRUTHY, packet_wf
from pyvc.builtins_model import unbe

EXIT_CHAN = {'_exit_status': 'opt[int]', '_exit_signal': 'opt[tuple[str,bool,str,str]]',
             '_session': 'obj:Session', '_utf8_decode_errors': 'str'}
EXIT_CLASSES = dict({'SSHClientChannel': EXIT_CHAN, 'Session': {}}, **PACKET_CLASSES)


def status_notify_stub(cx):
    """session.exit_status_received(status): by then the channel must already report that status"""
    cur = cx.selff('_exit_status')
    cx.require('status-stored-before-the-session-is-told',
               z3.And(z3.Not(cur.isnone), cur.val.z == cx.args[0].z) if isinstance(cur, VOpt)
               else cur.z == cx.args[0].z)
    return [Out(ret=VNone, event=('exit_status_received', tuple(cx.args)))]


status_notify_stub.modifies = ()

process_exit_status = Spec(
    PROP, 'channel', 'SSHClientChannel._process_exit_status_request', self_class='SSHClientChannel',
    params=dict(packet='obj:SSHPacket'), classes=EXIT_CLASSES, inline=dict(PACKET_INLINE), truthy=PACKET_TRUTHY,
    stubs={'self._session.exit_status_received': status_notify_stub},
    requires=lambda c: packet_wf(c, c.argv('packet')),
    ensures=[('status-is-the-low-byte-of-the-uint32-sent',
              lambda c: z3.And(z3.Not(c.is_none(c.newv('_exit_status'))),
                               c.ex.veq(c.new_state, c.newv('_exit_status'),
                                        c.events('exit_status_received')[0][1][0])
                               if c.events('exit_status_received') else False)),
             # tied to the wire: the uint32 at the read position of the request payload, reduced to its low byte
             ('status-is-uint32-at-the-read-position-and-0xff', lambda c: c.ex.veq(
                 c.new_state, c.newv('_exit_status'),
                 VInt(unbe(z3.Extract(c.old_state.rec(c.argv('packet')).fields['_packet'].z,
                                      c.old_state.rec(c.argv('packet')).fields['_idx'].z, 4)) % 256))),
             ('session-told-exactly-once', lambda c: z3.BoolVal(len(c.events('exit_status_received')) == 1)),
             ('request-accepted', lambda c: c.result)],
    returns='bool',
    raises={'PacketDecodeError': lambda c: z3.BoolVal(len(c.events('exit_status_received')) == 0)})


def signal_notify_stub(cx):
    """session.exit_signal_received(signal, core_dumped, msg, lang): by then the channel must already report it"""
    cur = cx.selff('_exit_signal')
    want = VTuple(list(cx.args))
    ok = z3.And(z3.Not(cur.isnone), cx.ex.veq(cx.st, cur.val, want)) if isinstance(cur, VOpt) else \
        (cx.ex.veq(cx.st, cur, want) if cur is not VNone else z3.BoolVal(False))
    cx.require('signal-stored-before-the-session-is-told', ok)
    return [Out(ret=VNone, event=('exit_signal_received', tuple(cx.args)))]


signal_notify_stub.modifies = ()

process_exit_signal = Spec(
    PROP, 'channel', 'SSHClientChannel._process_exit_signal_request', self_class='SSHClientChannel',
    params=dict(packet='obj:SSHPacket'), classes=EXIT_CLASSES, inline=dict(PACKET_INLINE), truthy=PACKET_TRUTHY,
    stubs={'self._session.exit_signal_received': signal_notify_stub},
    requires=lambda c: packet_wf(c, c.argv('packet')),
    returns='bool',
    ensures=[('signal-recorded-and-session-told-exactly-once',
              lambda c: z3.And(z3.BoolVal(len(c.events('exit_signal_received')) == 1),
                               z3.Not(c.is_none(c.newv('_exit_signal'))))),
             ('request-accepted', lambda c: c.result)],
    # a malformed request reports nothing and records nothing
    raises={'PacketDecodeError': lambda c: z3.And(z3.BoolVal(len(c.events('exit_signal_received')) == 0),
                                                  c.is_none(c.newv('_exit_signal')) == c.is_none(c.oldv('_exit_signal'))),
            'ProtocolError': lambda c: z3.And(z3.BoolVal(len(c.events('exit_signal_received')) == 0),
                                              c.is_none(c.newv('_exit_signal')) == c.is_none(c.oldv('_exit_signal')))})


def has_status(c):
    return z3.Not(c.is_none(c.oldv('_exit_status')))


def has_signal(c):
    return z3.Not(c.is_none(c.oldv('_exit_signal')))


get_exit_status = Spec(
    PROP, 'channel', 'SSHClientChannel.get_exit_status', self_class='SSHClientChannel', classes=EXIT_CLASSES,
    ensures=[('status-if-sent-else-minus-one-for-a-signal-else-none', lambda c: z3.And(
        z3.Implies(has_status(c), c.ex.veq(c.new_state, c.result_v, c.oldv('_exit_status'))),
        z3.Implies(z3.And(z3.Not(has_status(c)), has_signal(c)), c.ex.veq(c.new_state, c.result_v, VInt(-1))),
        z3.Implies(z3.And(z3.Not(has_status(c)), z3.Not(has_signal(c))), c.is_none(c.result_v))))])

get_returncode = Spec(
    PROP, 'channel', 'SSHClientChannel.get_returncode', self_class='SSHClientChannel', classes=EXIT_CLASSES,
    # assumed: signal numbers (module table built from the signal module, default 99) are positive
    stubs={'_signal_numbers.get': ret('int', 'signum', assume=lambda cx, v: v.z >= 1)},
    globals={'_signal_numbers': VTag('signal-number-table')},
    ensures=[('status-if-sent-else-negative-signal-number-else-none', lambda c: z3.And(
        z3.Implies(has_status(c), c.ex.veq(c.new_state, c.result_v, c.oldv('_exit_status'))),
        z3.Implies(z3.And(z3.Not(has_status(c)), has_signal(c)),
                   z3.And(z3.Not(c.is_none(c.result_v)),
                          (c.result_v.val.z if isinstance(c.result_v, VOpt) else c.result_v.z) <= -1)
                   if c.result_v is not VNone else False),
        z3.Implies(z3.And(z3.Not(has_status(c)), z3.Not(has_signal(c))), c.is_none(c.result_v))))])


# ================================================================== process.py: feeding a redirection target
STREAM['ghost_fed'] = 'seq[opaque:RbUnit]'      # unit stream written to the redirection target so far
CLASSES['SSHStreamSession'] = STREAM
CLASSES['Writer'] = {}


EOF_UNIT = z3.Unit(R.UNIT.ue)


def fed_stub(kind):
    """writer.write / write_exception / write_eof of a redirection target: ghost_fed logs, in order, what the target
    was given.  write() of a stream / process target may push back synchronously (SSHProcess.pause_feeding: the
    datatype joins _paused_write_streams and reading is paused), and write() of a file target may fail."""
    def stub(cx):
        fed = cx.selff('ghost_fed').z
        a = cx.args[0] if cx.args else None
        if kind == 'data':
            new = z3.Concat(fed, R.units(a.z))
        elif kind == 'exc':
            new = z3.Concat(fed, R.mark(a.exc.z if isinstance(a, VOrExc) else a.z))
        else:
            new = z3.Concat(fed, EOF_UNIT)
        me = cx.ex.self_ref
        ev = ('write_' + kind, tuple(cx.args))
        outs = [Out(ret=VNone, osets=[(me, 'ghost_fed', VSeq(new, 'opaque:RbUnit'))], event=ev)]
        if kind == 'data':
            outs.append(Out(ret=VNone, osets=[(me, 'ghost_fed', VSeq(new, 'opaque:RbUnit')),
                                              (me, 'ghost_pws', VBool(True)), (me, '_read_paused', VBool(True))],
                            event=ev))
            outs.append(Out(exc=VExc('OSError')))
        return outs
    stub.modifies = ('ghost_fed', 'ghost_pws', '_read_paused') if kind == 'data' else ('ghost_fed',)
    return stub


def feed_inv(c):
    L, i = c.extra['iter'].z, c.extra['i']
    P = z3.Extract(L, 0, i)
    return z3.And(buf(c) == L, c.newv('_recv_buf').dom == c.oldv('_recv_buf').dom,
                  c.new('ghost_fed') == z3.Concat(c.old('ghost_fed'), R.flat(P)),
                  c.new('_recv_buf_len') == c.old('_recv_buf_len') - R.dlen(P))


def feed_lemmas(c):
    L, i = c.extra['iter'].z, c.extra.get('i0', c.extra['i'])
    n = z3.Length(L)
    P, P1, y = z3.Extract(L, 0, i), z3.Extract(L, 0, i + 1), L[i]
    return [R.ax_empty(),
            Prove(z3.Implies(z3.And(0 <= i, i < n), P1 == z3.Concat(P, z3.Unit(y))), 'fed part grows by the current chunk'),
            Prove(z3.Implies(i == n, P == L), 'everything fed'),
            Prove(z3.Implies(i == 0, P == z3.Empty(R.SEQ)), 'nothing fed yet'),
            R.ax_append(P, z3.Unit(y)), R.ax_single(y)] + auto_lemmas(c)


feed_recv_buf = Spec(
    PROP, 'process', 'SSHProcess.feed_recv_buf', self_class='SSHStreamSession',
    params=dict(datatype=KT, writer='obj:Writer'), classes=CLASSES,
    stubs={'writer.write': fed_stub('data'), 'writer.write_exception': fed_stub('exc'),
           'writer.write_eof': fed_stub('eof'), 'self._maybe_resume_reading': resume_stub},
    loops={1: LoopSpec(header='for buf in self._recv_buf[datatype]', modifies=['ghost_fed'],
                       invariant=feed_inv, lemmas=feed_lemmas)},
    requires=lambda c: z3.And(wf(c), view_is(c), accounted(c, False), R.ok(buf(c, False)), flow_inv(c, False)),
    lemmas=lambda c: auto_lemmas(c, extra=[R.flat(buf(c)), R.dlen(buf(c)), R.ok(buf(c))]),
    ensures=[
        # "redirections copy all data and then EOF"
        ('everything-buffered-is-copied-in-order',       # ... and THEN the EOF mark, iff EOF had been received
         lambda c: c.new('ghost_fed') == z3.If(
             c.old('_eof_received'),
             z3.Concat(c.old('ghost_fed'), R.flat(buf(c, False)), EOF_UNIT),
             z3.Concat(c.old('ghost_fed'), R.flat(buf(c, False))))),
        ('buffer-emptied', lambda c: R.flat(buf(c)) == app_delta(c)),
        ('eof-forwarded-iff-received-and-after-the-data',
         lambda c: z3.BoolVal(len(c.events('write_eof')) == 1) == c.old('_eof_received')),
        ('buffer-length-accounting', lambda c: accounted(c)),
        ('no-empty-chunk-left', lambda c: R.ok(buf(c))),
        ('flow-control-invariant', lambda c: flow_inv(c)),
    ],
    # a failing target write: the target has received a prefix, in order, and the buffer is untouched (the byte
    # count of that prefix has already been released: accounting is NOT re-established on this path - declared)
    raises={'OSError': lambda c: z3.And(
        buf(c) == buf(c, False),
        c.new('ghost_fed') == z3.Concat(c.old('ghost_fed'),
                                        R.flat(z3.Extract(buf(c, False), 0, c.new_state.env['__loop_i__'].z))))})
feed_recv_buf.abstract_fns = ABSTRACT


# ------------------------------------------------------------------ readline = readuntil(newline), partial at EOF
def readuntil_contract_stub(cx):
    """modular call of readuntil(_NEWLINE, datatype): the contract proved above (Spec readuntil_newline), with the
    exception objects carrying the data the contract speaks about"""
    from pyvc.contracts import Ctx
    spec = readuntil_newline
    ex, st = cx.ex, cx.st
    # the contract used here is the one of readuntil(_NEWLINE, ...): "one line" means split at the newline sentinel
    cx.require('separator-is-the-newline-sentinel',
               z3.BoolVal(isinstance(cx.args[0], VTag) and cx.args[0].tag == NEWLINE_TAG.tag))
    cx.require('datatype-passed-through', kz_of(cx.args[1]) == kz_of(st.env['datatype']))
    recv = ex.self_ref
    args = {'separator': cx.args[0], 'datatype': cx.args[1], 'max_separator_len': VInt(0)}
    c0 = Ctx(ex, st, st, recv, args=args)
    cx.require('requires', spec.requires(c0))
    decl = ex.spec.classes[st.rec(recv).cls]

    def havoc():
        s2 = st.fork()
        sets = {}
        for f in spec.modifies:
            v = ex.fresh(s2, decl[f], 'mod_' + f)
            sets[f] = v
            s2.set_field(recv, f, v)
        return s2, sets
    outs = []
    s2, sets = havoc()
    r = ex.fresh(s2, 'bytes', 'line')
    c1 = Ctx(ex, st, s2, recv, result=r, args=args)
    outs.append(Out(ret=r, sets=sets, assume=[f(c1) for _l, f in spec.ensures] + [f(c1) for _l, f in spec.always]))
    s3, sets3 = havoc()
    p = ex.fresh(s3, 'bytes', 'partial')
    exc = VExc('IncompleteReadError', args=(p, VNone), attrs={'partial': p})
    c2 = Ctx(ex, st, s3, recv, raised='IncompleteReadError', result=exc, args=args)
    outs.append(Out(exc=exc, sets=sets3, assume=[spec.raises['IncompleteReadError'](c2)] +
                    [f(c2) for _l, f in spec.always]))
    s4, sets4 = havoc()
    e = ex.fresh(s4, 'opaque:Exc', 'marker')
    exc2 = VExc('Exception', attrs={'opaque': e})
    c3 = Ctx(ex, st, s4, recv, raised='Exception', result=exc2, args=args)
    outs.append(Out(exc=exc2, sets=sets4, assume=[spec.raises['Exception'](c3)] + [f(c3) for _l, f in spec.always]))
    s5, sets5 = havoc()
    c4 = Ctx(ex, st, s5, recv, raised='CancelledError', result=VExc('CancelledError'), args=args)
    outs.append(Out(exc=VExc('CancelledError'), sets=sets5, assume=[f(c4) for _l, f in spec.always]))
    return outs


readuntil_contract_stub.modifies = tuple(ENV_FIELDS) + ('ghost_base', 'ghost_gave_up')
readuntil_contract_stub.spec_getter = lambda: readuntil_newline      # (listed as a modular call, not as a trusted stub)


def readline_post(c):
    from pyvc.contracts import Ctx
    sp = readuntil_newline
    fake = Ctx(c.ex, c.old_state, c.new_state, c.self_ref, raised='IncompleteReadError',
               result=VExc('IncompleteReadError', args=(c.result_v, VNone)), args=c.args)
    return z3.Or(z3.And(*sp.post_return(c)), sp.raise_incomplete(fake))


readline = Spec(
    PROP, 'stream', 'SSHStreamSession.readline', self_class='SSHStreamSession',
    params=dict(datatype=KT), classes=CLASSES, globals={'_NEWLINE': NEWLINE_TAG},
    stubs={'self.readuntil': readuntil_contract_stub},
    requires=lambda c: z3.And(wf(c), view_is(c), flow_inv(c, False), z3.Not(c.old('ghost_gave_up'))),
    ensures=[
        # one line: through the first newline; or, when the stream ends / a marker is next / the buffer is full, the
        # newline-free rest (readuntil's IncompleteReadError.partial, consumed)
        ('one-line-or-the-newline-free-remainder', readline_post),
        ('buffer-length-accounting', lambda c: accounted(c)),
        ('no-empty-chunk-left', lambda c: R.ok(buf(c)))],
    always=[('flow-control-invariant', lambda c: flow_inv(c))],
    raises={'CancelledError': True, 'Exception': lambda c: readuntil_newline.raise_marker(c)})


# ================================================================== lemmas about the spec functions / bounded stand-in
def extra_checks(tier, seed, prop=PROP):
    """(another sidecar that re-registers the reader contracts can call this with its own property id)"""
    import json
    import os
    import subprocess
    from pyvc import extract, solve
    lemmas = []
    for nm, goal in R.occ_lemmas_valid().items():
        # the two axioms used for rb_occ follow from its definition (quantifier-free validity)
        sol = z3.Solver()
        sol.set('timeout', 20000)
        sol.add(z3.Not(goal))
        res = sol.check()
        backend = 'z3'
        if res == z3.unknown:
            v, _why = solve._cvc5(sol.to_smt2())
            res = {'proved': z3.unsat, 'refuted': z3.sat}.get(v, z3.unknown)
            backend = 'cvc5'
        lemmas.append({'name': f'{prop}.lemma#{nm}(from the definition of occurrence)',
                       'verdict': 'proved' if res == z3.unsat else ('refuted' if res == z3.sat else 'unknown'),
                       'reason': str(res), 'backend': backend})
    name = f'{prop}.bounded#readuntil(list / compiled pattern)+read+readexactly over all chunkings, bytes and str (native)'
    maxlen = 6 if tier == 'thorough' else 5
    script = os.path.join(os.path.dirname(os.path.dirname(os.path.abspath(__file__))), 'specs', 'c19_native.py')
    try:
        p = subprocess.run(['/venv/bin/python', script, str(seed), str(maxlen)], capture_output=True, text=True,
                           env=dict(os.environ, PYTHONPATH=extract.REPO), timeout=300, cwd='/')
        if p.returncode != 0:
            raise RuntimeError('stand-in exited with %d: %s' % (p.returncode, p.stderr[-300:]))
        out = json.loads(p.stdout)
        bounded = {'name': name, 'inputs': out['cases'], 'violations': out['violations']}
        if not out['cases']:
            bounded['error'] = 'no cases were run'
    except Exception as e:      # harness trouble is never a verdict
        bounded = {'name': name, 'inputs': 0, 'violations': [], 'error': repr(e)}
    return {'lemmas': lemmas, 'bounded': [bounded]}


# ------------------------------------------------------------------ SSHProcess: data / EOF arriving after a redirection
STREAM['_writers'] = f'dict[{KT},obj:Writer]'       # SSHProcess only: redirection targets per datatype
STREAM['_recv_eof'] = f'dict[{KT},bool]'
CLASSES['SSHStreamSession'] = STREAM


def has_writer(c):
    return z3.Select(c.oldv('_writers').dom, kz_of(c.argv('datatype')))


process_data_received = Spec(
    PROP, 'process', 'SSHProcess.data_received', self_class='SSHStreamSession',
    params=dict(data='bytes', datatype=KT), classes=CLASSES,
    stubs={'writer.write': fed_stub('data'), 'super().data_received': contract_stub(lambda: data_received)},
    requires=lambda c: z3.And(wf(c), view_is(c), accounted(c, False), R.ok(buf(c, False)), flow_inv(c, False)),
    ensures=[
        # "redirections copy all data": with a target set for the datatype the data goes to it, in arrival order,
        # and not into the stream buffer; without one it is buffered for the stream readers
        ('redirected-data-goes-to-the-target-only', lambda c: z3.Implies(has_writer(c), z3.And(
            c.new('ghost_fed') == z3.Concat(c.old('ghost_fed'), R.units(c.arg('data'))),
            c.newv('_recv_buf').val == c.oldv('_recv_buf').val,
            c.new('_recv_buf_len') == c.old('_recv_buf_len')))),
        ('unredirected-data-is-buffered', lambda c: z3.Implies(z3.Not(has_writer(c)), z3.And(
            data_received_post(c), c.new('ghost_fed') == c.old('ghost_fed')))),
        ('buffer-length-accounting', lambda c: accounted(c)),
        ('no-empty-chunk-left', lambda c: R.ok(buf(c))),
        ('flow-control-invariant', lambda c: flow_inv(c)),
    ],
    raises={'OSError': lambda c: has_writer(c)})
process_data_received.abstract_fns = ABSTRACT


# ================================================================== communicate() / wait(): lifting the limit
def wait_closed_stub(cx):
    """`await self.wait_closed()`: a suspension - control leaves the session's methods, so the flow-control invariant
    J must hold HERE (with the limit just lifted: reading must not stay paused for the buffered amount, or the rest
    of the output never arrives and the channel never closes); while suspended the environment runs"""
    outs = env_step(cx)
    for o in outs:
        o.event = ('wait_closed', ())
    return outs + [Out(exc=VExc('CancelledError'))]


wait_closed_stub.modifies = tuple(ENV_FIELDS)


def chan_event_stub(name):
    def stub(cx):
        return [Out(ret=VNone, event=(name, tuple(cx.args)))]
    stub.modifies = ()
    return stub


def collect_output_stub(cx):
    return [Out(ret=VTuple([cx.fresh('bytes', 'stdout_data'), cx.fresh('bytes', 'stderr_data')]),
                event=('collect_output', ()))]


collect_output_stub.modifies = ()

communicate = Spec(
    PROP, 'process', 'SSHClientProcess.communicate', self_class='SSHStreamSession',
    params=dict(input='opt[bytes]'), classes=CLASSES,
    stubs={'self._maybe_resume_reading': resume_stub, 'self._chan.write': chan_event_stub('chan_write'),
           'self._chan.write_eof': chan_event_stub('chan_write_eof'), 'self.wait_closed': wait_closed_stub,
           'self.collect_output': collect_output_stub},
    requires=lambda c: z3.And(wf(c), accounted(c, False), R.ok(buf(c, False)), flow_inv(c, False)),
    lemmas=auto_lemmas,
    ensures=[
        ('limit-lifted', lambda c: c.new('_limit') == 0),
        # (the obligation that matters is pre-at-call(self.wait_closed:flow-control-invariant): J with limit 0 when
        # the call suspends, i.e. reading has been resumed if only the old limit had paused it)
        ('input-written-then-eof-before-waiting', lambda c: z3.BoolVal(
            [e[0] for e in c.new_state.events if e[0] in ('chan_write', 'chan_write_eof', 'wait_closed')] in
            (['chan_write', 'chan_write_eof', 'wait_closed'], ['wait_closed']))),
        ('output-collected-after-the-channel-closed', lambda c: z3.BoolVal(
            [e[0] for e in c.new_state.events if e[0] in ('wait_closed', 'collect_output')] ==
            ['wait_closed', 'collect_output'])),
    ],
    raises={'CancelledError': True})
communicate.abstract_fns = ABSTRACT


def register_reader_contracts_under(prop):
    """Re-register the stream-reader delivery contracts (read incl. readexactly mode, readuntil for a literal and for the
    newline sentinel, readline) under another property id: same contract objects, obligations named <prop>.stream....
    Call it at the very END of the other sidecar (this module imports contracts.c07 at its own end)."""
    import copy
    out = []
    for sp in (read, readuntil_literal, readuntil_newline, readuntil_pattern0, readline):
        cp = copy.copy(sp)
        cp.prop = prop
        Spec.registry.append(cp)
        out.append(cp)
    return out


# ================================================================== "complete output comes with the exit status / close"
# The process layer reports exit (wait / communicate / run) when the channel is cleaned up (session.connection_lost).
# That the output is complete at that point is the channel-level ordering C07 proves for SSHChannel._flush_recv_buf;
# the two call-site obligations this property rests on are re-generated here under C19 from the SAME contract object:
#   pre-at-call(self._loop.call_soon:cleanup-only-after-all-buffered-data)       close acted on only with an empty buffer
#   pre-at-call(self._session.eof_received:eof-reported-only-after-all-buffered-data)
def _flush_recv_buf_for_c19():
    import copy
    from . import c07
    sp = copy.copy(c07.flush_recv_buf)
    sp.prop = PROP
    keep = ('delivered-in-fifo-order-nothing-lost-or-duplicated', 'eof-reported-only-when-pending-and-drained')
    sp.ensures = [(l, f) for (l, f) in sp.ensures if l in keep]
    sp.notes = 'contract object of contracts/c07.py (flush_recv_buf), clauses reduced to what C19 relies on'
    Spec.registry.append(sp)
    return sp


channel_flush_recv_buf = _flush_recv_buf_for_c19()
