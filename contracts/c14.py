"""C14 — each SFTP request gets exactly one matching, well-typed reply.  Sidecar contracts (sftp.py).

Server side: SFTPServerHandler._process_packet sends exactly one reply per request on every path that does not
propagate a BaseException; the reply carries the request's id, has the type the filexfer drafts give for the
request on success and FXP_STATUS on every error path with the documented status code.
Client side: id allocation / waiter table (_send_request), reply matching (_process_packet), reply type check
(_make_request).
"""
import ast
import errno as _errno
import z3
from pyvc.contracts import *
from pyvc.engine import LoopSpec, Out, Record, Prove, wrap_const, zt, CallCtx
from pyvc.values import *
from pyvc.builtins_model import be, unbe
from pyvc import extract
from .common import *

PROP = 'C14'

ASSUMPTIONS = []

# ------------------------------------------------------------------------------------------------ spec tables
# SSH_FXP_* numbers, draft-ietf-secsh-filexfer-02 section 3 (v3) and -13 section 4.3 (v6)
FXP_INIT, FXP_VERSION, FXP_OPEN, FXP_CLOSE, FXP_READ, FXP_WRITE, FXP_LSTAT, FXP_FSTAT = 1, 2, 3, 4, 5, 6, 7, 8
FXP_SETSTAT, FXP_FSETSTAT, FXP_OPENDIR, FXP_READDIR, FXP_REMOVE, FXP_MKDIR, FXP_RMDIR = 9, 10, 11, 12, 13, 14, 15
FXP_REALPATH, FXP_STAT, FXP_RENAME, FXP_READLINK, FXP_SYMLINK, FXP_LINK, FXP_BLOCK, FXP_UNBLOCK = \
    16, 17, 18, 19, 20, 21, 22, 23
FXP_STATUS, FXP_HANDLE, FXP_DATA, FXP_NAME, FXP_ATTRS, FXP_EXTENDED, FXP_EXTENDED_REPLY = \
    101, 102, 103, 104, 105, 200, 201

# "Responses from the server to the client" (filexfer-02 section 7 / -13 section 9): the one non-status reply
# type each request may be answered with; every request not listed is answered with SSH_FXP_STATUS only.
SPEC_REPLY = {
    FXP_OPEN: FXP_HANDLE, FXP_OPENDIR: FXP_HANDLE,
    FXP_READ: FXP_DATA,
    FXP_READDIR: FXP_NAME, FXP_REALPATH: FXP_NAME, FXP_READLINK: FXP_NAME,
    FXP_STAT: FXP_ATTRS, FXP_LSTAT: FXP_ATTRS, FXP_FSTAT: FXP_ATTRS,
}
# extended requests (OpenSSH PROTOCOL 3.x / asyncssh docs) answered by SSH_FXP_EXTENDED_REPLY; the others
# (posix-rename, hardlink, fsync, lsetstat, copy-data) are answered by SSH_FXP_STATUS
SPEC_EXT_REPLY = {b'statvfs@openssh.com': FXP_EXTENDED_REPLY, b'fstatvfs@openssh.com': FXP_EXTENDED_REPLY,
                  b'limits@openssh.com': FXP_EXTENDED_REPLY, b'ranges@asyncssh.com': FXP_EXTENDED_REPLY}
# requests that exist in the protocol (filexfer-02 .. -13); 1, 2 are the version exchange, 101.. are replies
SPEC_REQUESTS = set(range(FXP_OPEN, FXP_UNBLOCK + 1))

FX_OK, FX_EOF, FX_NO_SUCH_FILE, FX_PERMISSION_DENIED, FX_FAILURE, FX_BAD_MESSAGE = 0, 1, 2, 3, 4, 5
FX_NO_CONNECTION, FX_CONNECTION_LOST, FX_OP_UNSUPPORTED = 6, 7, 8
FX_INVALID_HANDLE, FX_NO_SUCH_PATH, FX_FILE_ALREADY_EXISTS, FX_WRITE_PROTECT, FX_NO_MEDIA = 9, 10, 11, 12, 13
FX_NO_SPACE_ON_FILESYSTEM, FX_QUOTA_EXCEEDED, FX_UNKNOWN_PRINCIPAL, FX_LOCK_CONFLICT = 14, 15, 16, 17
FX_DIR_NOT_EMPTY, FX_NOT_A_DIRECTORY, FX_INVALID_FILENAME, FX_LINK_LOOP = 18, 19, 20, 21
FX_INVALID_PARAMETER, FX_FILE_IS_A_DIRECTORY = 23, 24
# last status code defined by each protocol version (filexfer-02 s7, -04 s8, -05 s8, -13 s9.1)
LAST_CODE = {3: 8, 4: 13, 5: 17, 6: 31}

# local errors -> status codes: the POSIX errno whose meaning filexfer-13 section 9.1 gives to the status code
# (SSH_FX_NO_SUCH_FILE "a reference was made to a file which does not exist" = ENOENT, ...); anything else is
# SSH_FX_FAILURE.  errno numbers are those of the platform the check runs on (same as the replay interpreter).
ERRNO_TABLE = [
    (_errno.ENOENT, FX_NO_SUCH_FILE), (_errno.EACCES, FX_PERMISSION_DENIED), (_errno.EEXIST, FX_FILE_ALREADY_EXISTS),
    (_errno.EROFS, FX_WRITE_PROTECT), (_errno.ENOSPC, FX_NO_SPACE_ON_FILESYSTEM), (_errno.EDQUOT, FX_QUOTA_EXCEEDED),
    (_errno.ENOTEMPTY, FX_DIR_NOT_EMPTY), (_errno.ENOTDIR, FX_NOT_A_DIRECTORY),
    (_errno.ENAMETOOLONG, FX_INVALID_FILENAME), (_errno.EILSEQ, FX_INVALID_FILENAME), (_errno.ELOOP, FX_LINK_LOOP),
    (_errno.EINVAL, FX_INVALID_PARAMETER), (_errno.EISDIR, FX_FILE_IS_A_DIRECTORY),
]


def spec_errno_code(e_isnone, e):
    """status code for an OSError with errno e (None or any other value -> SSH_FX_FAILURE)"""
    t = z3.IntVal(FX_FAILURE)
    for en, code in reversed(ERRNO_TABLE):
        t = z3.If(e == en, code, t)
    return z3.If(e_isnone, FX_FAILURE, t)


def wire_code(code, version):
    """status code a peer speaking `version` may be sent for the (v6) code `code`: codes the version does not
    define are replaced by SSH_FX_FAILURE, except NOT_A_DIRECTORY which older versions report as NO_SUCH_FILE"""
    last = z3.If(version <= 3, LAST_CODE[3], z3.If(version == 4, LAST_CODE[4], z3.If(version == 5, LAST_CODE[5],
                                                                                   LAST_CODE[6])))
    return z3.If(z3.And(code == FX_NOT_A_DIRECTORY, version < 6), FX_NO_SUCH_FILE,
                 z3.If(z3.And(code <= LAST_CODE[6], code > last), FX_FAILURE, code))


def be4(v):
    return be(z3.IntVal(4), v if not isinstance(v, int) else z3.IntVal(v))


# ------------------------------------------------------------------------------------------------ source tables
def _class_assign(modname, cls, name):
    """AST of the class-level assignment `name = ...` in the real source (re-read on every run)"""
    mod = extract.get_module(modname)
    for n in mod.classes[cls].body:
        tgts = n.targets if isinstance(n, ast.Assign) else [n.target] if isinstance(n, ast.AnnAssign) else []
        for t in tgts:
            if isinstance(t, ast.Name) and t.id == name and n.value is not None:
                return mod, n.value
    raise Unsupported(f'{cls}.{name} is not a class-level assignment any more')


def _const(mod, node):
    if isinstance(node, ast.Constant):
        return node.value
    if isinstance(node, ast.Name):
        return mod.lookup_const(node.id)
    raise Unsupported(f'non-constant table key {ast.dump(node)}')


def class_table(modname, cls, name, value):
    """{key const: value(node)} of a class-level dict display, keys resolved through the module constants"""
    mod, d = _class_assign(modname, cls, name)
    if not isinstance(d, ast.Dict):
        raise Unsupported(f'{cls}.{name} is not a dict display')
    return {_const(mod, k): value(mod, v) for k, v in zip(d.keys, d.values)}


def default_lang():
    return VStr(extract.get_module('sftp').lookup_const('DEFAULT_LANG'))


def error_code_of(clsname):
    """status code an SFTPError subclass passes to SFTPError.__init__ (read from its real __init__)"""
    mod = extract.get_module('sftp')
    fn = mod.get_function(clsname + '.__init__')
    for n in ast.walk(fn):
        if isinstance(n, ast.Call) and isinstance(n.func, ast.Attribute) and n.func.attr == '__init__' and n.args:
            return _const(mod, n.args[0])
    raise Unsupported(f'{clsname}.__init__ does not call super().__init__(code, ...)')


# ------------------------------------------------------------------------------------------------ server
# result shapes of the request handlers, from their return annotations in the real source
RESULT_SHAPES = {
    'None': ['none'], 'bytes': ['bytes'], 'int': ['int'], 'Tuple[bytes, bool]': ['tuple[bytes,bool]'],
    '_SFTPNames': ['tuple[seq[opaque:SFTPName],bool]'],
    '_SFTPOSAttrs': ['obj:os.stat_result', 'obj:SFTPAttrs'],
    '_SFTPOSVFSAttrs': ['obj:os.statvfs_result', 'obj:SFTPVFSAttrs'],
    'SFTPLimits': ['obj:SFTPLimits'], 'SFTPRanges': ['obj:SFTPRanges'],
}

SRV_CLASSES = dict(PACKET_CLASSES, **{
    'SFTPServerHandler': {'_version': 'int', '_packet_handlers': 'any', '_return_types': 'any'},
    'Handler': {'__name__': 'str', 'ghost_shape': 'int'},
    'os.stat_result': {}, 'SFTPAttrs': {}, 'os.statvfs_result': {}, 'SFTPVFSAttrs': {},
    'SFTPLimits': {}, 'SFTPRanges': {}, 'ErrnoModule': {},
})


def srv_setup(ex, st):
    """class-level tables of the real source become concrete dict values of the receiver; the handler functions
    are objects that only carry their name and their annotated result shape; `errno` is the platform's module"""
    mod = extract.get_module('sftp')

    def handler_obj(m, node):
        if not isinstance(node, ast.Name):
            raise Unsupported('handler table value is not a plain function name')
        fn = m.get_function('SFTPServerHandler.' + node.id)
        ann = ast.unparse(fn.returns) if fn.returns is not None else 'None'
        if ann not in RESULT_SHAPES:
            raise Unsupported(f'handler {node.id} has unknown result annotation {ann}')
        ref = st.alloc(Record('Handler'), 'Handler')
        st.heap[ref.addr] = Record('Handler', {'__name__': VStr(node.id), 'ghost_shape': VInt(SHAPE_IDS[ann])})
        return ref
    handlers = class_table('sftp', 'SFTPServerHandler', '_packet_handlers', handler_obj)
    rtypes = class_table('sftp', 'SFTPHandler', '_return_types', lambda m, n: wrap_const(_const(m, n)))
    st.set_field(ex.self_ref, '_packet_handlers', st.alloc(VDict(handlers)))
    st.set_field(ex.self_ref, '_return_types', st.alloc(VDict(rtypes)))
    st.inputs.pop('self._packet_handlers', None)
    st.inputs.pop('self._return_types', None)
    er = st.alloc(Record('ErrnoModule'), 'ErrnoModule')
    st.heap[er.addr] = Record('ErrnoModule', {n: VInt(getattr(_errno, n)) for n in dir(_errno) if n.startswith('E')})
    st.env['errno'] = er
    st.env['os'] = VTag('class:os')




SHAPE_IDS = {k: i for i, k in enumerate(sorted(RESULT_SHAPES))}


def _keys_eq(cx, key, ck):
    """z3 Bool: symbolic key == python constant ck (False when the types differ, as in Python)"""
    return cx.ex.veq(cx.st, key, wrap_const(ck))


def table_get_handler(cx):
    """self._packet_handlers.get(k) over the real (concrete) table with a symbolic key, without forking: the result
    is None unless k equals one of the keys; otherwise a handler object whose name / result shape are the
    table's entry for that key (dict.get semantics, expressed as an if-then-else chain over the real table)"""
    tab = cx.ex.deref(cx.st, cx.selff('_packet_handlers'))
    key = cx.args[0]
    if not isinstance(tab, VDict) or len(cx.args) != 1:
        raise Unsupported('handler table lookup changed shape')
    found = []
    name = z3.StringVal('')
    shape = z3.IntVal(-1)
    for ck, h in tab.items.items():
        e = _keys_eq(cx, key, ck)
        if concrete_bool(e) is False:
            continue
        rec = cx.st.rec(h)
        found.append(e)
        name = z3.If(e, rec.fields['__name__'].z, name)
        shape = z3.If(e, rec.fields['ghost_shape'].z, shape)
    ref = cx.st.alloc(Record('Handler'), 'Handler')
    cx.st.heap[ref.addr] = Record('Handler', {'__name__': VStr(name), 'ghost_shape': VInt(shape)})
    return [Out(ret=VOpt(z3.Not(z3.Or(found)) if found else z3.BoolVal(True), ref))]


table_get_handler.modifies = ()
table_get_handler.pure = True


def table_get_int(field):
    def stub(cx):
        """self.<table>.get(k[, default]) over the real table of int values, as an if-then-else chain"""
        tab = cx.ex.deref(cx.st, cx.selff(field))
        key = cx.args[0]
        if not isinstance(tab, VDict) or not all(isinstance(v, VInt) for v in tab.items.values()):
            raise Unsupported(f'{field} lookup changed shape')
        hit = []
        val = z3.IntVal(0)
        for ck, v in tab.items.items():
            e = _keys_eq(cx, key, ck)
            if concrete_bool(e) is False:
                continue
            hit.append(e)
            val = z3.If(e, v.z, val)
        miss = z3.Not(z3.Or(hit)) if hit else z3.BoolVal(True)
        if len(cx.args) > 1:
            d = cx.args[1]
            if not isinstance(d, VInt):
                raise Unsupported('non-int default')
            return [Out(ret=VInt(z3.If(miss, d.z, val)))]
        return [Out(ret=VOpt(miss, VInt(val)))]
    stub.modifies = ()
    stub.pure = True
    return stub


def handler_stub(cx):
    """A request handler (decoder + SFTPServer callback, awaited): returns a value of its annotated result type or
    raises.  Exception classes: the ones _process_packet distinguishes, one representative of `any other
    Exception`, and a BaseException that is not an Exception (task cancellation: must propagate)."""
    hv = cx.st.env.get('handler')
    if isinstance(hv, VOpt):
        hv = hv.val
    rec = cx.st.rec(hv)
    shape = rec.fields['ghost_shape']
    ev = ('handler', (hv,) + tuple(cx.args))
    outs = []
    for sname, sid in SHAPE_IDS.items():
        if concrete_int(shape) is not None and concrete_int(shape) != sid:
            continue
        for t in RESULT_SHAPES[sname]:
            outs.append(Out(ret=cx.fresh(t, 'result'), assume=[shape.z == sid], event=ev))
    outs.append(Out(exc=VExc('PacketDecodeError'), event=ev))
    outs.append(Out(exc=VExc('NotImplementedError'), event=ev))
    outs.extend(local_failures(cx, ev))
    outs.append(Out(exc=VExc('CancelledError'), event=ev))
    return outs


handler_stub.modifies = ()


def local_failures(cx, event=None, oserror=True):
    """the Exceptions a local computation (encoder, from_local) can end with, as _process_packet distinguishes them:
    an SFTPError (status code fits a uint32), an OSError (any errno), any other Exception (ValueError)"""
    code, reason, lang = cx.fresh('int', 'exc_code'), cx.fresh('str', 'exc_reason'), cx.fresh('str', 'exc_lang')
    en, se = cx.fresh('opt[int]', 'exc_errno'), cx.fresh('opt[str]', 'exc_strerror')
    outs = [Out(exc=VExc('SFTPError', args=(code, reason, lang), attrs={'code': code, 'reason': reason, 'lang': lang}),
                assume=[code.z >= 0, code.z < 2 ** 32], event=event),
            Out(exc=VExc('ValueError'), event=event)]
    if oserror:
        outs.append(Out(exc=VExc('OSError', args=(en, se), attrs={'errno': en, 'strerror': se}), event=event))
    return outs


def from_local_stub(typ, label):
    def stub(cx):
        return [Out(ret=cx.fresh(typ, label))] + local_failures(cx)
    stub.modifies = ()
    return stub


def encode_stub(cx):
    """x.encode(...) of reply payload objects (attributes / names / limits / ranges): bytes, or an Exception (e.g. a
    field that does not fit its wire format).  SFTPError.encode is NOT stubbed: it is executed from its source."""
    r = cx.recv
    if isinstance(r, VExc):
        raise Unsupported(f'encode of exception {r.cls} is not inlined (call shape changed)')
    body = cx.fresh('bytes', 'encoded')
    return [Out(ret=body, event=('encode_value', (r,) + tuple(cx.args) + (body,)))] + local_failures(cx, oserror=False)


encode_stub.modifies = ()


names_encoding = z3.Function('sftp_names_encoding', z3.SeqSort(sort_of('opaque:SFTPName')), IntS, BytesS)


def join_names_stub(cx):
    """b''.join(name.encode(version) for name in names): the concatenated entries names_encoding(names, version)
    (each entry is SFTPName.encode(name, version), under contract in c14_codecs), or an Exception from an encoder.
    The list and the version are read from the generator expression itself."""
    g = cx.args[0] if cx.args else None
    e = g.payload if isinstance(g, VTag) and g.tag == 'genexp' else None
    ok = e is not None and len(e.generators) == 1 and not e.generators[0].ifs and \
        isinstance(e.generators[0].target, ast.Name) and isinstance(e.elt, ast.Call) and \
        isinstance(e.elt.func, ast.Attribute) and e.elt.func.attr == 'encode' and \
        isinstance(e.elt.func.value, ast.Name) and e.elt.func.value.id == e.generators[0].target.id and \
        len(e.elt.args) == 1 and not e.elt.keywords
    if not ok:
        raise Unsupported('name list encoding changed shape')
    rs = cx.ex.ev(e.generators[0].iter, cx.st) + cx.ex.ev(e.elt.args[0], cx.st)
    if len(rs) != 2 or any(r[0] is not cx.st for r in rs):
        raise Unsupported('name list encoding: impure list / version expression')
    names, ver = cx.ex.deref(cx.st, rs[0][1]), rs[1][1]
    if not isinstance(names, VSeq) or not isinstance(ver, VInt):
        raise Unsupported('name list encoding: unexpected list / version value')
    r = cx.fresh('bytes', 'names_encoded')
    return [Out(ret=r, assume=[r.z == names_encoding(names.z, ver.z)],
                event=('encode_names', (names, ver, r)))] + local_failures(cx, oserror=False)


join_names_stub.modifies = ()


def send_packet_stub(cx):
    """SFTPHandler.send_packet (framing proved separately below): one packet written, or the connection is gone
    (SFTPNoConnection / SFTPConnectionLost, represented by their common base class SFTPError)"""
    ev = ('send_packet', tuple(cx.args))
    code = cx.fresh('int', 'conn_code')
    gone = VExc('SFTPError', attrs={'code': code, 'reason': cx.fresh('str', 'conn_reason'), 'lang': default_lang()})
    return [Out(event=ev),
            Out(exc=gone, assume=[z3.Or(code.z == FX_NO_CONNECTION, code.z == FX_CONNECTION_LOST)], event=ev)]


send_packet_stub.modifies = ()


def srv_sends(c):
    return c.events('send_packet')


def srv_handler_exc(c):
    """exception raised by the handler on this path (None if it returned or was never called)"""
    for x in c.calls():
        if x['key'] == 'handler':
            return x['exc']
    return None


def encoder_exc(c):
    """the Exception an encoder of the handler's result (attrs / names / limits / ranges encode, from_local) raised"""
    for x in c.calls():
        if x['key'] not in ('handler', 'self.send_packet') and x['exc'] is not None:
            return x['exc']
    return None


def encode_failed(c):
    return encoder_exc(c) is not None


def exactly_one_reply(c):
    """every request that is not abandoned by a propagating BaseException is answered exactly once"""
    return z3.BoolVal(len(srv_sends(c)) == 1)


def reply_id(c):
    conj = []
    for _n, a in srv_sends(c):
        conj.append(z3.BoolVal(len(a) == 4))
        if len(a) == 4:
            conj.append(a[1].z == c.arg('pktid'))
            conj.append(a[2].z == be4(c.arg('pktid')))
    return z3.And(conj) if conj else z3.BoolVal(True)


def srv_ext_name(c):
    """extension name of an SSH_FXP_EXTENDED request body (string at the read position), or None if truncated"""
    st = c.old_state
    p = c.argv('packet')
    r = st.rec(p)
    data, idx, ln = r.fields['_packet'].z, r.fields['_idx'].z, r.fields['_len'].z
    n = unbe(z3.Extract(data, idx, 4))
    ok = z3.And(idx + 4 <= ln, idx + 4 + n <= ln)
    return ok, z3.Extract(data, idx + 4, n)


def spec_reply_type(c):
    """z3 Int: reply type the drafts allow besides SSH_FXP_STATUS (SSH_FXP_STATUS if none)"""
    t = c.arg('pkttype')
    ok, name = srv_ext_name(c)
    ext = z3.IntVal(FXP_STATUS)
    for k, v in SPEC_EXT_REPLY.items():
        ext = z3.If(z3.And(ok, name == bytes_const(k)), v, ext)
    plain = z3.IntVal(FXP_STATUS)
    for k, v in SPEC_REPLY.items():
        plain = z3.If(t == k, v, plain)
    return z3.If(t == FXP_EXTENDED, ext, plain)


def reply_type(c):
    """the reply is SSH_FXP_STATUS or the one reply type the drafts give for this request; when the handler
    returned a value of the request's result type the reply is of exactly that type"""
    conj = []
    exc = srv_handler_exc(c)
    called = bool(c.events('handler'))
    for _n, a in srv_sends(c):
        rt = a[0].z
        spec = spec_reply_type(c)
        conj.append(z3.Or(rt == FXP_STATUS, rt == spec))
        if called and exc is None and not encode_failed(c):
            conj.append(rt == spec)
    return z3.And(conj) if conj else z3.BoolVal(True)


def status_code_of(c, a):
    """z3 Int status code at the head of the body of an SSH_FXP_STATUS reply"""
    return unbe(z3.Extract(a[3].z, 0, 4))


def error_status(c):
    """every error path answers SSH_FXP_STATUS with the documented code (as representable in the session's
    protocol version): unknown request -> OP_UNSUPPORTED, malformed body -> BAD_MESSAGE, SFTPError -> its code,
    unimplemented callback -> OP_UNSUPPORTED, OSError -> errno table, any other Exception -> FAILURE"""
    sends = srv_sends(c)
    if len(sends) != 1:
        return z3.BoolVal(True)
    a = sends[0][1]
    if len(a) != 4:
        return z3.BoolVal(False)
    ver = c.old('_version')
    body = a[3].z
    exc = srv_handler_exc(c)
    called = bool(c.events('handler'))

    def is_status(code):
        return z3.And(a[0].z == FXP_STATUS, z3.PrefixOf(be4(code), body))
    if not called:
        # no handler ran: either the extension name could not be read, or no handler exists for the request
        ok, _name = srv_ext_name(c)
        trunc = z3.And(c.arg('pkttype') == FXP_EXTENDED, z3.Not(ok))
        return z3.If(trunc, is_status(FX_BAD_MESSAGE), is_status(wire_code(z3.IntVal(FX_OP_UNSUPPORTED), ver)))
    if exc is None:
        # success, or a local failure while encoding the result: mapped like a failure of the handler itself
        exc = encoder_exc(c)
        if exc is None:
            return z3.BoolVal(True)
    if exc.cls == 'PacketDecodeError':
        return is_status(FX_BAD_MESSAGE)
    if exc.cls == 'SFTPError':
        return is_status(wire_code(exc.attrs['code'].z, ver))
    if exc.cls == 'NotImplementedError':
        return is_status(wire_code(z3.IntVal(FX_OP_UNSUPPORTED), ver))
    if exc.cls == 'OSError':
        en = exc.attrs['errno']
        return is_status(wire_code(spec_errno_code(en.isnone, en.val.z), ver))
    return is_status(FX_FAILURE)


def ok_status(c):
    """a successful request whose reply type is SSH_FXP_STATUS is answered with SSH_FX_OK"""
    sends = srv_sends(c)
    exc = srv_handler_exc(c)
    if len(sends) != 1 or not c.events('handler') or exc is not None or encode_failed(c):
        return z3.BoolVal(True)
    a = sends[0][1]
    return z3.Implies(a[0].z == FXP_STATUS, z3.PrefixOf(be4(FX_OK), a[3].z))


def reply_body(c):
    """the body of a successful reply is the handler's result in the wire format of the SESSION's version
    (filexfer-02 s7 / -13 s9): HANDLE = string handle; DATA = string data [+ end-of-file byte, v6 only, only when
    true]; NAME = uint32 count, the count entries [+ end-of-list byte, v6 only, only when true]; ATTRS and the
    extended replies = the encoding of the result (or of its conversion from a local stat result) for the session's
    version, by the codecs under contract in c14_codecs"""
    sends = srv_sends(c)
    hc = [x for x in c.calls() if x['key'] == 'handler']
    if len(sends) != 1 or len(hc) != 1 or hc[0]['exc'] is not None or encode_failed(c) or len(sends[0][1]) != 4:
        return z3.BoolVal(True)
    a = sends[0][1]
    rt, body = a[0].z, a[3].z
    res = hc[0]['ret']
    ver = c.old('_version')
    v6 = ver >= 6
    conj = []
    if isinstance(res, VBytes):
        conj.append(z3.Implies(rt == FXP_HANDLE, body == z3.Concat(be4(z3.Length(res.z)), res.z)))
    elif isinstance(res, VTuple) and len(res.items) == 2 and isinstance(res.items[1], VBool):
        first, at_end = c.ex.deref(c.new_state, res.items[0]), res.items[1].z
        end = z3.If(z3.And(at_end, v6), z3.Unit(z3.IntVal(1)), z3.Empty(BytesS))
        if isinstance(first, VBytes):
            conj.append(z3.Implies(rt == FXP_DATA, body == z3.Concat(be4(z3.Length(first.z)), first.z, end)))
        elif isinstance(first, VSeq):
            conj.append(z3.Implies(rt == FXP_NAME, body == z3.Concat(
                be4(z3.Length(first.z)), names_encoding(first.z, ver), end)))
    elif isinstance(res, VRef):
        enc = c.events('encode_value')
        conv = [x for x in c.calls() if x['key'].endswith('.from_local')]
        ok = len(enc) == 1
        if ok:
            recv, rest = enc[0][1][0], enc[0][1][1:]
            src_ok = isinstance(recv, VRef) and (recv.addr == res.addr or (
                len(conv) == 1 and isinstance(conv[0]['ret'], VRef) and conv[0]['ret'].addr == recv.addr and
                isinstance(conv[0]['args'][0], VRef) and conv[0]['args'][0].addr == res.addr))
            conj.append(z3.BoolVal(src_ok))
            conj.append(body == rest[-1].z)
            cls = c.new_state.rec(recv).cls
            if cls in ('SFTPAttrs', 'SFTPVFSAttrs'):
                # encoded for the session's version
                conj.append(z3.BoolVal(len(rest) == 2) if len(rest) != 2 else zt(rest[0]) == ver)
            else:
                conj.append(z3.BoolVal(len(rest) == 1))
        conj.append(z3.Implies(z3.Or(rt == FXP_ATTRS, rt == FXP_EXTENDED_REPLY), z3.BoolVal(ok)))
    return z3.And(conj) if conj else z3.BoolVal(True)


# extended requests this server implements and advertises in SSH_FXP_VERSION (OpenSSH PROTOCOL 3.x-4.x names, the
# filexfer-extensions `copy-data`, asyncssh's own ranges@asyncssh.com); those not in SPEC_EXT_REPLY answer STATUS
SPEC_EXT_STATUS = [b'posix-rename@openssh.com', b'hardlink@openssh.com', b'fsync@openssh.com',
                   b'lsetstat@openssh.com', b'copy-data']


def known_requests_dispatched(c):
    """a request the protocol defines (and this server advertises) reaches its handler: it is never answered as
    unsupported without being tried - plain types 3..23, and SSH_FXP_EXTENDED with one of the advertised names"""
    if c.events('handler'):
        return z3.BoolVal(True)
    t = c.arg('pkttype')
    ok, name = srv_ext_name(c)
    ext = [z3.Not(z3.And(t == FXP_EXTENDED, ok, name == bytes_const(n)))
           for n in list(SPEC_EXT_REPLY) + SPEC_EXT_STATUS]
    return z3.And([t != k for k in sorted(SPEC_REQUESTS)] + ext)


def handler_once(c):
    return z3.BoolVal(len(c.events('handler')) <= 1)


def only_base_exceptions_escape(c):
    """BaseException propagation: the handler's exception, and nothing was sent"""
    exc = srv_handler_exc(c)
    return z3.BoolVal(exc is not None and exc.cls == c.raised and len(srv_sends(c)) == 0)


def send_failed(c):
    """the connection went away while sending the one reply"""
    sends = c.calls('send_packet')
    return z3.BoolVal(len(sends) == 1 and sends[0]['exc'] is not None and sends[0]['exc'].cls == c.raised)


srv_process_packet = Spec(
    PROP, 'sftp', 'SFTPServerHandler._process_packet', self_class='SFTPServerHandler',
    params=dict(pkttype='int', pktid='int', packet='obj:SSHPacket'),
    classes=SRV_CLASSES, truthy=PACKET_TRUTHY, setup=srv_setup,
    # the error encoders run from their real source on the exception object (keys are the call texts)
    inline=dict(PACKET_INLINE, **{'exc.encode': ('sftp', 'SFTPError.encode'),
                                  'SFTPError().encode': ('sftp', 'SFTPError.encode')}),
    stubs={
        'self._packet_handlers.get': table_get_handler,
        'self._return_types.get': table_get_int('_return_types'),
        'handler': handler_stub,
        'attrs.encode': encode_stub, 'result.encode': encode_stub,
        "b''.join": join_names_stub,
        'SFTPAttrs.from_local': from_local_stub('obj:SFTPAttrs', 'attrs_from_local'),
        'SFTPVFSAttrs.from_local': from_local_stub('obj:SFTPVFSAttrs', 'vfsattrs_from_local'),
        '*.log': noop(),
        'self.send_packet': send_packet_stub,
    },
    exc_attrs={
        'SFTPError': lambda args, kw: {'code': args[0], 'reason': args[1], 'lang': default_lang()},
        'SFTPOpUnsupported': lambda args, kw: {'code': VInt(error_code_of('SFTPOpUnsupported')), 'reason': args[0],
                                               'lang': default_lang()},
    },
    loops={1: LoopSpec(invariant=lambda c: z3.BoolVal(True))},
    requires=lambda c: z3.And(packet_wf(c, c.argv('packet')), c.arg('pkttype') >= 0, c.arg('pkttype') <= 255,
                              c.arg('pktid') >= 0, c.arg('pktid') < 2 ** 32,
                              c.old('_version') >= 3, c.old('_version') <= 6),
    ensures=[('exactly-one-reply', exactly_one_reply)],
    always=[('reply-id', reply_id), ('reply-type', reply_type), ('error-status', error_status),
            ('ok-status', ok_status), ('reply-body', reply_body),
            ('known-requests-dispatched', known_requests_dispatched),
            ('handler-at-most-once', handler_once)],
    raises={'CancelledError': only_base_exceptions_escape,
            'SFTPError': send_failed})
srv_process_packet.native_isinstance = ('os.stat_result', 'os.statvfs_result', 'SFTPAttrs', 'SFTPVFSAttrs',
                                        'SFTPLimits', 'SFTPRanges')


# ------------------------------------------------------------------------------------------------ client
FUT = 'opaque:Future'
FutS = sort_of(FUT)
REQ_T = 'dict[int,' + FUT + ']'

CLI_CLASSES = dict(PACKET_CLASSES, **{
    'SFTPClientHandler': {'_next_pktid': 'int', '_requests': REQ_T, '_version': 'int', '_loop': 'obj:Loop',
                          '_packet_handlers': 'any', '_return_types': 'any'},
    'Loop': {}, 'Decoder': {'__name__': 'str', 'ghost_shape': 'int'},
    'SFTPAttrs': {},
})

# result shapes of the client's reply decoders, from their return annotations
REPLY_SHAPES = {'None': 'none', 'bytes': 'bytes', 'Tuple[bytes, bool]': 'tuple[bytes,bool]',
                '_SFTPNames': 'tuple[seq[opaque:SFTPName],bool]', 'SFTPAttrs': 'obj:SFTPAttrs',
                'SSHPacket': 'obj:SSHPacket'}
REPLY_SHAPE_IDS = {k: i for i, k in enumerate(sorted(REPLY_SHAPES))}


def cli_setup(ex, st):
    def decoder_obj(m, node):
        if not isinstance(node, ast.Name):
            raise Unsupported('decoder table value is not a plain function name')
        fn = m.get_function('SFTPClientHandler.' + node.id)
        ann = ast.unparse(fn.returns) if fn.returns is not None else 'None'
        if ann not in REPLY_SHAPES:
            raise Unsupported(f'decoder {node.id} has unknown result annotation {ann}')
        ref = st.alloc(Record('Decoder'), 'Decoder')
        st.heap[ref.addr] = Record('Decoder', {'__name__': VStr(node.id), 'ghost_shape': VInt(REPLY_SHAPE_IDS[ann])})
        return ref
    decs = class_table('sftp', 'SFTPClientHandler', '_packet_handlers', decoder_obj)
    rtypes = class_table('sftp', 'SFTPHandler', '_return_types', lambda m, n: wrap_const(_const(m, n)))
    st.set_field(ex.self_ref, '_packet_handlers', st.alloc(VDict(decs)))
    st.set_field(ex.self_ref, '_return_types', st.alloc(VDict(rtypes)))
    st.inputs.pop('self._packet_handlers', None)
    st.inputs.pop('self._return_types', None)


def id_inv(c, old=True):
    f = c.old if old else c.new
    return z3.And(f('_next_pktid') >= 0, f('_next_pktid') < 2 ** 32)


def send_request_returns():
    """shape of _send_request's result, from the code: None, or an int when it returns a value"""
    fn = extract.get_module('sftp').get_function('SFTPClientHandler._send_request')
    return 'int' if any(isinstance(n, ast.Return) and n.value is not None for n in ast.walk(fn)) else None


def _own(c, name):
    """is the clause being checked on the function itself (rather than assumed at a call site)?"""
    return c.ex.spec.qualname.endswith('.' + name)


def sent_once_with_id(c):
    """exactly one request packet goes out; it carries the freshly allocated id both as the logged id and as the
    uint32 at the head of the body; an extension request goes out as SSH_FXP_EXTENDED id string(name)"""
    if not _own(c, '_send_request'):
        return z3.BoolVal(True)      # used as a callee contract: the emission is internal to the callee
    sends = c.events('send_packet')
    if len(sends) != 1:
        return z3.BoolVal(False)
    a = sends[0][1]
    if len(a) < 3:
        return z3.BoolVal(False)
    pid = c.old('_next_pktid')
    conj = [a[1].z == pid, z3.PrefixOf(be4(pid), a[2].z)]
    pt = c.argv('pkttype')
    if isinstance(pt, VBytes):
        n = z3.Length(pt.z)
        conj += [a[0].z == FXP_EXTENDED, a[2].z == z3.Concat(be4(pid), be4(n), pt.z)]
    else:
        conj += [a[0].z == pt.z, a[2].z == be4(pid)]
    # the caller's arguments follow unchanged
    rest = a[3:]
    conj.append(z3.BoolVal(len(rest) == 1 and isinstance(rest[0], tuple) and rest[0][0] == 'star'))
    if len(rest) == 1 and isinstance(rest[0], tuple):
        conj.append(rest[0][1].z == c.arg('args'))
    return z3.And(conj)


def waiter_stored(c):
    """the waiter is registered under the allocated id and no other entry changes"""
    m0, m1 = c.oldv('_requests'), c.newv('_requests')
    pid = c.old('_next_pktid')
    return z3.And(m1.dom == z3.Store(m0.dom, pid, True), m1.val == z3.Store(m0.val, pid, c.arg('waiter')))


def cli_send_packet_stub(cx):
    ev = ('send_packet', tuple(cx.args))
    return [Out(event=ev), Out(exc=VExc('SFTPError'), event=ev)]


cli_send_packet_stub.modifies = ()


def _mk_send_request(kind):
    sp = Spec(
        PROP, 'sftp', 'SFTPClientHandler._send_request', self_class='SFTPClientHandler',
        params=dict(pkttype=kind, args='seq[bytes]', waiter=FUT),
        classes=CLI_CLASSES, setup=cli_setup,
        stubs={'self.send_packet': cli_send_packet_stub},
        # id-unique: fewer than 2^32 requests are outstanding, so the id about to be allocated is free
        requires=lambda c: z3.And(id_inv(c), z3.Not(z3.Select(c.oldv('_requests').dom, c.old('_next_pktid'))),
                                  *([c.arg('pkttype') >= 0, c.arg('pkttype') <= 255] if kind == 'int' else [])),
        modifies=['_next_pktid', '_requests'],
        ensures=[('request-sent-once-with-own-id', sent_once_with_id),
                 ('result-is-the-id', lambda c: z3.BoolVal(True) if c.result_v is VNone else c.result == c.old('_next_pktid'))],
        always=[('id-allocated-mod-2^32', lambda c: z3.And(
                    c.new('_next_pktid') == (c.old('_next_pktid') + 1) % 2 ** 32, id_inv(c, old=False))),
                ('waiter-stored-under-id', waiter_stored)],
        raises={'SFTPError': lambda c: z3.BoolVal(not _own(c, '_send_request') or len(c.events('send_packet')) == 1)},
        returns=send_request_returns(),
        cases=[('ext-name' if kind == 'bytes' else 'plain-type', {})])
    return sp


send_request_int = _mk_send_request('int')
send_request_ext = _mk_send_request('bytes')


# ---- reply matching
def cleanup_stub(cx):
    """SFTPClientHandler._cleanup(exc): fails every outstanding waiter and empties the table (C09's contract)"""
    ev = ('cleanup', tuple(cx.args))
    return [Out(sets={'_requests': cx.fresh(REQ_T, 'requests_after_cleanup')}, event=ev)]


cleanup_stub.modifies = ('_requests',)


def fut_stub(name, typ='none'):
    def stub(cx):
        r = cx.fresh(typ, name) if typ != 'none' else VNone
        return [Out(ret=r, event=(name, (cx.recv,) + tuple(cx.args)))]
    stub.modifies = ()
    return stub


def pop_own_waiter(c):
    """a reply whose id is outstanding resolves exactly the waiter registered under that id with (type, body) and
    removes only that entry; the session is not torn down"""
    m0, m1 = c.oldv('_requests'), c.newv('_requests')
    pid = c.arg('pktid')
    known = z3.Select(m0.dom, pid)
    sets = c.events('set_result')
    cancelled = [x for x in c.calls('cancelled')]
    conj = [z3.BoolVal(len(c.events('cleanup')) == 0), z3.BoolVal(len(sets) <= 1),
            m1.dom == z3.Store(m0.dom, pid, False), m1.val == m0.val]
    for _n, a in sets:
        w, val = a[0], a[1]
        conj.append(w.z == z3.Select(m0.val, pid))
        ok = isinstance(val, VTuple) and len(val.items) == 2
        conj.append(z3.BoolVal(ok))
        if ok:
            conj.append(val.items[0].z == c.arg('pkttype'))
            conj.append(z3.BoolVal(isinstance(val.items[1], VRef) and val.items[1].addr == c.argv('packet').addr))
    # delivered unless the caller has gone away
    if len(cancelled) == 1:
        conj.append(cancelled[0]['recv'].z == z3.Select(m0.val, pid))
        conj.append(z3.Or(cancelled[0]['ret'].z, z3.BoolVal(len(sets) == 1)))
    else:
        conj.append(z3.BoolVal(len(sets) == 1))
    return z3.Implies(known, z3.And(conj))


def unknown_id_tears_down(c):
    """a reply with an id nobody waits for (unknown / duplicate) ends the session: cleanup runs exactly once with
    SFTPBadMessage, nobody is handed the reply"""
    m0 = c.oldv('_requests')
    known = z3.Select(m0.dom, c.arg('pktid'))
    cl = c.events('cleanup')
    ok = len(cl) == 1 and len(c.events('set_result')) == 0 and len(cl[0][1]) == 1 and \
        isinstance(cl[0][1][0], VExc) and cl[0][1][0].cls == 'SFTPBadMessage'
    return z3.Implies(z3.Not(known), z3.BoolVal(ok))


cli_process_packet = Spec(
    PROP, 'sftp', 'SFTPClientHandler._process_packet', self_class='SFTPClientHandler',
    params=dict(pkttype='int', pktid='int', packet='obj:SSHPacket'),
    classes=CLI_CLASSES, setup=cli_setup,
    stubs={'self._cleanup': cleanup_stub, 'waiter.cancelled': fut_stub('cancelled', 'bool'),
           'waiter.set_result': fut_stub('set_result')},
    requires=lambda c: z3.And(c.arg('pktid') >= 0, c.arg('pktid') < 2 ** 32, id_inv(c)),
    ensures=[('pop-own-waiter', pop_own_waiter), ('unknown-id-tears-session-down', unknown_id_tears_down)],
    raises={})


# ---- request / reply type check
def create_future_stub(cx):
    """loop.create_future(): a new future (an awaitable)"""
    f = cx.fresh(FUT, 'waiter')
    return [Out(ret=f, assume=[z3.Function('isawaitable_Future', FutS, BoolS)(f.z)])]


create_future_stub.modifies = ()


def await_waiter_stub(cx):
    """`await waiter`: other tasks and the receive loop run meanwhile (the waiter table and the id counter are
    theirs to change).  The caller resumes with the (type, body) handed to set_result, with the exception handed to
    set_exception by _cleanup (any Exception; represented by SFTPError and OSError), or is cancelled."""
    ev = ('await', tuple(cx.args))

    def env():
        return {'_requests': cx.fresh(REQ_T, 'requests_on_resume'), '_next_pktid': cx.fresh('int', 'next_on_resume')}
    rt = cx.fresh('int', 'resptype')
    resp = cx.fresh('obj:SSHPacket', 'resp')
    rr = cx.st.rec(resp)
    # what set_result was given by _process_packet: the type byte and the packet, read up to the end of its header
    wf = [rr.fields['_idx'].z == 5, rr.fields['_idx'].z <= rr.fields['_len'].z,
          rr.fields['_len'].z == z3.Length(rr.fields['_packet'].z)]
    outs = [Out(ret=VTuple([rt, resp]), sets=env(), assume=[rt.z >= 0, rt.z <= 255] + wf, event=ev)]
    for cls in ('SFTPError', 'OSError', 'CancelledError'):
        outs.append(Out(exc=VExc(cls), sets=env(), event=ev))
    return outs


await_waiter_stub.modifies = ('_requests', '_next_pktid')


DECODER_SPECS = {}     # decoder method name -> Spec (filled below, where the decoders are put under contract)


def reply_decoder_stub(cx):
    """self._packet_handlers[resptype](self, resp): the reply decoder registered for the reply type in the real
    table, used through the CONTRACT proved for it below (DECODER_SPECS, keyed by the decoder's name);
    KeyError if no decoder is registered for the type"""
    rs = cx.ex.ev(cx.node.func.slice, cx.st)
    if len(rs) != 1 or rs[0][0] is not cx.st or not isinstance(rs[0][1], VInt):
        raise Unsupported('reply decoder lookup changed shape')
    rt = rs[0][1]
    tab = cx.ex.deref(cx.st, cx.selff('_packet_handlers'))
    if not isinstance(tab, VDict) or len(cx.args) != 2:
        raise Unsupported('decoder table / call changed shape')
    resp = cx.args[1]
    outs, miss = [], []
    for ck, d in tab.items.items():
        if not isinstance(ck, int):
            raise Unsupported('decoder table key')
        miss.append(rt.z != ck)
        if not cx.ex.feasible(cx.st, rt.z == ck):
            continue
        name = concrete_str(cx.st.rec(d).fields['__name__'])
        spec = DECODER_SPECS.get(name)
        if spec is None:
            raise Unsupported(f'reply decoder {name} is not under contract')
        if name == '_process_extended_reply':
            # proved below: returns its argument (the caller decodes extended replies itself)
            outs.append(Out(ret=resp, assume=[rt.z == ck], event=('decode', (d, rt, resp))))
            continue
        sub = CallCtx(cx.ex, cx.st, cx.key, None, [resp], {}, cx.node)
        for o in contract_stub(spec)(sub):
            o.assume = [rt.z == ck] + list(o.assume)
            o.event = ('decode', (d, rt, resp))
            outs.append(o)
        for lab, z in sub.requires:
            cx.require(f'{name}:{lab}', z3.Implies(rt.z == ck, z))
    outs.append(Out(exc=VExc('KeyError'), assume=[z3.And(miss)]))
    return outs


reply_decoder_stub.modifies = ()


def spec_client_reply(c):
    """(has value reply, type): the one non-status reply type the drafts / extension specs give for the request"""
    pt = c.argv('pkttype')
    has, typ = z3.BoolVal(False), z3.IntVal(FXP_STATUS)
    table = SPEC_EXT_REPLY if isinstance(pt, VBytes) else SPEC_REPLY
    for k, v in table.items():
        e = pt.z == (bytes_const(k) if isinstance(k, bytes) else k)
        has, typ = z3.Or(has, e), z3.If(e, v, typ)
    return has, typ


def awaited(c):
    return [x for x in c.calls() if x['key'] == 'await waiter']


def cli_resp(c):
    a = awaited(c)
    if len(a) == 1 and a[0]['exc'] is None:
        return a[0]['ret'].items
    return None


def type_check(c):
    """a value is returned only for a reply of type SSH_FXP_STATUS or of the request's reply type, decoded by the
    decoder of that reply type from the body delivered to this caller's own waiter; a request that expects a
    value never returns the `None` of an SSH_FX_OK status"""
    r = cli_resp(c)
    if r is None:
        return z3.BoolVal(False)
    rt, resp = r
    has, typ = spec_client_reply(c)
    dec = c.events('decode')
    conj = [z3.Or(rt.z == FXP_STATUS, z3.And(has, rt.z == typ)), z3.BoolVal(len(dec) == 1)]
    if len(dec) == 1:
        d, drt, dresp = dec[0][1]
        conj.append(drt.z == rt.z)
        conj.append(z3.BoolVal(isinstance(dresp, VRef) and dresp.addr == resp.addr))
        conj.append(z3.BoolVal(d is not None))
        if d is not None:
            # the decoder registered for that type decodes that type (name check against the draft's reply names)
            nm = concrete_str(c.new_state.rec(d).fields['__name__'])
            want = {FXP_STATUS: '_process_status', FXP_HANDLE: '_process_handle', FXP_DATA: '_process_data',
                    FXP_NAME: '_process_name', FXP_ATTRS: '_process_attrs',
                    FXP_EXTENDED_REPLY: '_process_extended_reply'}
            conj.append(z3.And([z3.Implies(rt.z == k, z3.BoolVal(nm == v)) for k, v in want.items()]))
    conj.append(z3.Implies(has, z3.Not(c.is_none(c.result_v))))
    # the value is what the reply body says (through the decoders' proved contracts): None only for SSH_FX_OK,
    # a handle / data reply yields the string at the head of the body
    data = c.new_state.rec(resp).fields['_packet'].z
    n, s0 = _string_at(data, z3.IntVal(5))
    conj.append(z3.Implies(rt.z == FXP_STATUS, z3.And(c.is_none(c.result_v), unbe(z3.Extract(data, 5, 4)) == FX_OK)))
    if isinstance(c.result_v, VBytes):
        conj.append(z3.Implies(rt.z == FXP_HANDLE, c.result == s0))
    if isinstance(c.result_v, VTuple) and isinstance(c.result_v.items[0], VBytes):
        conj.append(z3.Implies(rt.z == FXP_DATA, c.result_v.items[0].z == s0))
    return z3.And(conj)


def decoder_call(c):
    xs = [x for x in c.calls() if x['key'] == 'self._packet_handlers[]']
    return xs[-1] if xs else None


def error_delivered(c):
    """SFTPError reaches the caller from the send, from its own future (session torn down), or from the decoder of
    its reply: then the reply was an SSH_FXP_STATUS whose code is not SSH_FX_OK (or a name / attrs reply whose
    attribute block is malformed)"""
    d = decoder_call(c)
    if d is None or d['exc'] is None:
        return z3.BoolVal(True)
    r = cli_resp(c)
    if r is None:
        return z3.BoolVal(False)
    rt, resp = r
    data = c.new_state.rec(resp).fields['_packet'].z
    return z3.And(z3.Or(rt.z == FXP_STATUS, rt.z == FXP_NAME, rt.z == FXP_ATTRS),   # the latter: bad attribute block
                  z3.Implies(rt.z == FXP_STATUS, unbe(z3.Extract(data, 5, 4)) != FX_OK))


def wrong_type_rejected(c):
    """SFTPBadMessage: the reply was of a type not legal for the request, or SSH_FX_OK where a value was expected;
    an illegal reply type is never handed to a decoder"""
    r = cli_resp(c)
    if r is None:
        return z3.BoolVal(False)
    rt, _resp = r
    has, typ = spec_client_reply(c)
    legal = z3.Or(rt.z == FXP_STATUS, z3.And(has, rt.z == typ))
    dec = c.events('decode')
    if not dec:
        return z3.Not(legal)
    d = decoder_call(c)
    if d is not None and d['exc'] is not None:
        return legal        # the decoder itself found the body malformed (bad text / undefined attribute flags)
    return z3.And(legal, has, rt.z == FXP_STATUS)


def own_waiter(c):
    """the request is registered with, and the caller waits on, the one future created for it"""
    cf = c.calls('create_future')
    sr = c.calls('_send_request')
    aw = awaited(c)
    conj = [z3.BoolVal(len(cf) == 1 and len(sr) <= 1 and len(aw) <= 1)]
    if len(cf) == 1:
        w = cf[0]['ret'].z
        for x in sr:
            conj.append(x['args'][2].z == w)
            conj.append(c.eq(x['args'][0], c.argv('pkttype')))
        for x in aw:
            conj.append(x['args'][0].z == w)
    return z3.And(conj)


def outstanding_until_replied(c):
    """_make_request only registers its own waiter; entries are removed by the receive loop when the reply
    arrives (or by cleanup), never by the caller - so a reply that arrives after the caller was cancelled still
    finds its id and does not tear the session down for everybody else"""
    aw = awaited(c)
    if aw:
        now, then = c.ex.deref(c.new_state, c.newv('_requests')), aw[-1]['sets']['_requests']
        if isinstance(now, VDict):
            if now.items:
                return z3.BoolVal(False)
            return then.dom == z3.K(IntS, False)        # rebound to an empty dict: equal only if it was empty
        return z3.And(now.dom == then.dom, now.val == then.val)
    return z3.BoolVal(True)


def _mk_make_request(kind):
    callee = send_request_int if kind == 'int' else send_request_ext
    sp = Spec(
        PROP, 'sftp', 'SFTPClientHandler._make_request', self_class='SFTPClientHandler',
        params=dict(pkttype=kind, args='seq[bytes]'),
        classes=CLI_CLASSES, setup=cli_setup,
        stubs={'self._loop.create_future': create_future_stub,
               'self._send_request': contract_stub(lambda: callee),
               'await waiter': await_waiter_stub,
               'self._return_types.get': table_get_int('_return_types'),
               'self._packet_handlers[]': reply_decoder_stub},
        requires=lambda c: z3.And(id_inv(c), z3.Not(z3.Select(c.oldv('_requests').dom, c.old('_next_pktid'))),
                                  c.old('_version') >= 3, c.old('_version') <= 6,
                                  *([c.arg('pkttype') >= 0, c.arg('pkttype') <= 255] if kind == 'int' else [])),
        ensures=[('reply-type-check', type_check)],
        always=[('awaits-own-waiter', own_waiter), ('outstanding-until-replied', outstanding_until_replied)],
        raises={'SFTPBadMessage': wrong_type_rejected, 'SFTPError': error_delivered, 'PacketDecodeError': True,
                'OSError': True, 'CancelledError': True},
        cases=[('ext-name' if kind == 'bytes' else 'plain-type', {})])
    return sp


make_request_int = _mk_make_request('int')
make_request_ext = _mk_make_request('bytes')


# ------------------------------------------------------------------------------------------------ codecs
def bounded_codecs(tier):
    """Attribute / name / vfs / limits / ranges codecs: decode_v(encode_v(a)) == norm_v(a) for v in 3..6 and every
    combination of the attribute flags version v defines, executed on the real code (specs/sftp_codec_check.py;
    norm_v is written from the filexfer drafts).  A bounded stand-in: field VALUES are boundary samples."""
    import json
    import os
    import subprocess
    name = 'C14.sftp.SFTPAttrs/SFTPName/SFTPVFSAttrs/SFTPLimits/SFTPRanges#bounded(round-trip-per-version-all-flag-combinations)'
    script = os.path.join(os.path.dirname(os.path.dirname(os.path.abspath(__file__))), 'specs', 'sftp_codec_check.py')
    env = dict(os.environ, PYTHONPATH=extract.REPO)
    try:
        p = subprocess.run(['/venv/bin/python', script], capture_output=True, text=True, env=env, timeout=300)
        out = json.loads(p.stdout)
    except Exception as e:      # noqa
        return {'name': name, 'cases': 0, 'violations': [], 'error': repr(e)}
    return {'name': name, 'cases': out['cases'], 'violations': out['violations']}


def extra_checks(tier, seed):
    return {'bounded': [bounded_codecs(tier)], 'lemmas': [scan_request_handlers(), scan_error_encoders()] + codec_lemmas()}


# ------------------------------------------------------------------------------------------------ framing / loop
HANDLER_CLASSES = dict(PACKET_CLASSES, **{
    'SFTPHandler': {'_writer': 'opt[obj:Writer]', '_reader': 'opt[obj:Reader]',
                    'ghost_received': 'int', 'ghost_dispatched': 'int'},
    'Writer': {}, 'Reader': {},
})
joinb = z3.Function('join_b', BytesS, z3.SeqSort(BytesS), BytesS)


def writer_write_stub(cx):
    ev = ('write', tuple(cx.args))
    return [Out(event=ev), Out(exc=VExc('ConnectionResetError'), event=ev)]


writer_write_stub.modifies = ()


def framed(c):
    """one write of uint32(length) byte(type) body, where body is the concatenation of the caller's arguments"""
    w = c.events('write')
    if len(w) != 1 or len(w[0][1]) != 1:
        return z3.BoolVal(False)
    data = w[0][1][0].z
    body = joinb(z3.Empty(BytesS), c.arg('args'))
    return data == z3.Concat(be4(1 + z3.Length(body)), z3.Unit(c.arg('pkttype')), body)


handler_send_packet = Spec(
    PROP, 'sftp', 'SFTPHandler.send_packet', self_class='SFTPHandler',
    params=dict(pkttype='int', pktid='opt[int]', args='seq[bytes]'),
    classes=HANDLER_CLASSES,
    stubs={'self._writer.write': writer_write_stub, 'self.log_sent_packet': noop()},
    requires=lambda c: z3.And(c.arg('pkttype') >= 0, c.arg('pkttype') <= 255),
    ensures=[('one-framed-packet', framed)],
    raises={'SFTPNoConnection': lambda c: z3.And(c.oldv('_writer').isnone, z3.BoolVal(len(c.events('write')) == 0)),
            'SFTPConnectionLost': lambda c: z3.BoolVal(len(c.events('write')) == 1)})


def recv_packet_stub(cx):
    """recv_packet(): one whole framed packet (a well-formed SSHPacket at read position 0), or the stream ended /
    failed (EOFError incl. IncompleteReadError, OSError, SFTPError), or the task is cancelled"""
    # the precondition of recv_packet (handler_recv_packet.requires, proved below): the session is still open
    rd = cx.selff('_reader')
    cx.require('recv_packet-requires-an-open-reader', z3.Not(rd.isnone) if isinstance(rd, VOpt)
               else z3.BoolVal(rd is not VNone))
    p = cx.fresh('obj:SSHPacket', 'rx')
    r = cx.st.rec(p)
    n = cx.selff('ghost_received')
    outs = [Out(ret=p, sets={'ghost_received': VInt(n.z + 1)},
                assume=[r.fields['_idx'].z == 0, r.fields['_len'].z == z3.Length(r.fields['_packet'].z)],
                event=('recv', (p,)))]
    for cls in ('EOFError', 'OSError', 'SFTPError', 'CancelledError'):
        outs.append(Out(exc=VExc(cls), event=('recv-failed', (cls,))))
    return outs


recv_packet_stub.modifies = ('ghost_received',)


def dispatch_stub(cx):
    """self._process_packet(type, id, packet) as proved for the server handler (srv_process_packet: a reply was
    sent; only task cancellation or a dead connection escape) and the client handler (returns).  Stated at the
    call site: the type and id handed over are the first byte and the following uint32 of the received packet."""
    t, i, p = cx.args
    r = cx.st.rec(p)
    data = r.fields['_packet'].z
    cx.require('dispatch-type-and-id-are-the-packet-header',
               z3.And(t.z == data[0], i.z == unbe(z3.Extract(data, 1, 4)), r.fields['_idx'].z == 5))
    recvd = [e for e in cx.st.events if e[0] == 'recv']
    cx.require('dispatches-the-packet-just-received',
               z3.BoolVal(bool(recvd) and isinstance(p, VRef) and recvd[-1][1][0].addr == p.addr))
    n = cx.selff('ghost_dispatched')
    ev = ('dispatch', tuple(cx.args))

    def sets():
        # the client's _process_packet tears the session down on an unknown reply id (its _cleanup clears
        # _reader / _writer): the loop must cope with the session having been closed by the dispatch
        return {'ghost_dispatched': VInt(n.z + 1), '_reader': cx.fresh('opt[obj:Reader]', 'reader_after_dispatch'),
                '_writer': cx.fresh('opt[obj:Writer]', 'writer_after_dispatch')}
    return [Out(sets=sets(), event=ev), Out(exc=VExc('SFTPError'), sets=sets(), event=ev),
            Out(exc=VExc('CancelledError'), sets=sets(), event=ev)]


dispatch_stub.modifies = ('ghost_dispatched', '_reader', '_writer')


def base_cleanup_stub(cx):
    return [Out(sets={'_reader': VNone, '_writer': VNone}, event=('cleanup', tuple(cx.args)))]


base_cleanup_stub.modifies = ('_reader', '_writer')


def loop_inv(c):
    """every packet received so far was dispatched exactly once, and the session has not been torn down"""
    return z3.And(c.new('ghost_dispatched') == c.new('ghost_received'), z3.BoolVal(len(c.events('cleanup')) == 0))


def session_end(c):
    """the receive loop ends the session (one cleanup) only for: a packet too short for its header (bad message),
    end of stream (orderly, no error), a transport / protocol error (that error).  A request that was answered -
    including every error reply - never ends it."""
    cl = c.events('cleanup')
    failed = [x for x in c.calls() if x['exc'] is not None and x['key'] != 'self._cleanup']
    if not cl:
        # left through the loop condition: somebody else closed the session
        return z3.And(z3.BoolVal(not failed), c.newv('_reader').isnone if isinstance(c.newv('_reader'), VOpt)
                      else z3.BoolVal(c.newv('_reader') is VNone))
    if len(cl) != 1 or len(cl[0][1]) != 1:
        return z3.BoolVal(False)
    arg = cl[0][1][0]
    if failed:
        exc = failed[-1]['exc']
        if exc.cls == 'EOFError':
            return z3.BoolVal(arg is VNone)
        return z3.BoolVal(isinstance(arg, VExc) and arg.cls == exc.cls)
    # no callee failed: the header could not be read from the packet
    recvd = c.events('recv')
    if not recvd:
        return z3.BoolVal(False)
    r = c.new_state.rec(recvd[-1][1][0])
    return z3.And(z3.BoolVal(isinstance(arg, VExc) and arg.cls == 'SFTPBadMessage'),
                  z3.Length(r.fields['_packet'].z) < 5, z3.BoolVal(len(c.events('dispatch')) == 0))


recv_packets = Spec(
    PROP, 'sftp', 'SFTPHandler.recv_packets', self_class='SFTPHandler',
    classes=HANDLER_CLASSES, inline=dict(PACKET_INLINE), truthy=PACKET_TRUTHY,
    stubs={'self.recv_packet': recv_packet_stub, 'self.log_received_packet': noop(),
           'self._process_packet': dispatch_stub, 'self._cleanup': base_cleanup_stub},
    loops={1: LoopSpec(invariant=loop_inv, modifies=['ghost_received', 'ghost_dispatched', '_reader', '_writer'])},
    requires=lambda c: c.old('ghost_received') == c.old('ghost_dispatched'),
    ensures=[('session-ends-only-on-eof-or-framing-error', session_end)],
    always=[('dispatched-at-most-once-each', lambda c: z3.And(c.new('ghost_dispatched') <= c.new('ghost_received'),
                                                              c.new('ghost_received') <= c.new('ghost_dispatched') + 1))],
    raises={'CancelledError': True})


# ------------------------------------------------------------------------------------------------ status codec
utf8 = z3.Function('utf8', StrS, BytesS)


def _sstr(s):
    b = utf8(s)
    return z3.Concat(be4(z3.Length(b)), b)


sftp_error_encode = Spec(
    PROP, 'sftp', 'SFTPError.encode', self_class='SFTPError',
    params=dict(version='int'),
    classes={'SFTPError': {'code': 'int', 'reason': 'str', 'lang': 'str'}},
    requires=lambda c: z3.And(c.old('code') >= 0, c.old('code') < 2 ** 32, c.arg('version') >= 3, c.arg('version') <= 6),
    ensures=[('status-body(code-representable-in-version, message, language)', lambda c: c.result == z3.Concat(
        be4(wire_code(c.old('code'), c.arg('version'))), _sstr(c.old('reason')), _sstr(c.old('lang')))),
        # the code on the wire is one the peer's protocol version defines (or a private code above the v6 range)
        ('code-defined-in-peer-version', lambda c: (lambda w, v: z3.Or(
            w > LAST_CODE[6], z3.And(v == 3, w <= LAST_CODE[3]), z3.And(v == 4, w <= LAST_CODE[4]),
            z3.And(v == 5, w <= LAST_CODE[5]), v == 6))(unbe(z3.Extract(c.result, 0, 4)), c.arg('version')))],
    raises={})
sftp_error_encode.runtime_class = 'SFTPError'


# ------------------------------------------------------------------------------------------------ reply decoders
def _body(c):
    r = c.old_state.rec(c.argv('packet'))
    return r.fields['_packet'].z, r.fields['_idx'].z, r.fields['_len'].z


def _string_at(data, idx):
    n = unbe(z3.Extract(data, idx, 4))
    return n, z3.Extract(data, idx + 4, n)


def handle_reply(c):
    """SSH_FXP_HANDLE body = string handle (and nothing else before v6): the handle is returned verbatim"""
    data, idx, ln = _body(c)
    n, s = _string_at(data, idx)
    return z3.And(c.result == s, idx + 4 + n <= ln, z3.Implies(c.old('_version') < 6, idx + 4 + n == ln))


def data_reply(c):
    """SSH_FXP_DATA body = string data [bool end-of-file, v6 only]"""
    data, idx, ln = _body(c)
    n, s = _string_at(data, idx)
    r = c.result_v
    if not isinstance(r, VTuple) or len(r.items) != 2:
        return z3.BoolVal(False)
    end = idx + 4 + n
    at_end = r.items[1].z if isinstance(r.items[1], VBool) else r.items[1].z != 0
    return z3.And(r.items[0].z == s, end <= ln,
                  z3.Implies(c.old('_version') < 6, z3.And(end == ln, z3.Not(at_end))),
                  z3.Implies(z3.And(c.old('_version') >= 6, end < ln), at_end == (data[end] != 0)),
                  z3.Implies(end == ln, z3.Not(at_end)))


# spec functions for the variable-length record decoders (SFTPAttrs.decode, `count` x SFTPName.decode): where the
# record(s) end and what they decode to are uninterpreted functions of (body, start, [count,] version); the
# codecs themselves are exercised by the bounded round trip (extra_checks)
attrs_end = z3.Function('sftp_attrs_end', BytesS, IntS, IntS, IntS)
names_end = z3.Function('sftp_names_end', BytesS, IntS, IntS, IntS, IntS)
names_of = z3.Function('sftp_names_of', BytesS, IntS, IntS, IntS, z3.SeqSort(sort_of('opaque:SFTPName')))


def _pkt(cx):
    p = cx.st.env.get('packet')
    if not isinstance(p, VRef):
        raise Unsupported('decoder stub: no local `packet`')
    r = cx.st.rec(p)
    return p, r.fields['_packet'].z, r.fields['_idx'].z, r.fields['_len'].z


attrs_ok = z3.Function('sftp_attrs_ok', BytesS, IntS, IntS, BoolS)


def attrs_decode_stub(cx):
    """SFTPAttrs.decode(packet, version): when the bytes at the read position are a well-formed attribute block of
    that version (attrs_ok) an SFTPAttrs, the read position moved to the end of the block (attrs_end, inside the
    body); otherwise PacketDecodeError (the body ends inside the block) or SFTPError (SFTPBadMessage: flags the
    version does not define / bad text, SFTPOwnerInvalid, SFTPGroupInvalid)"""
    p, data, idx, ln = _pkt(cx)
    if len(cx.args) != 2 or not (isinstance(cx.args[0], VRef) and cx.args[0].addr == p.addr):
        raise Unsupported('SFTPAttrs.decode call changed shape')
    ver = cx.args[1].z
    end = attrs_end(data, idx, ver)
    ok = attrs_ok(data, idx, ver)
    a = cx.fresh('obj:SFTPAttrs', 'attrs')
    ev = ('attrs-decode', (a, VInt(idx)))
    return [Out(ret=a, osets=[(p, '_idx', VInt(end))], assume=[ok, end >= idx, end <= ln], event=ev),
            Out(exc=VExc('PacketDecodeError'), osets=[(p, '_idx', cx.fresh('int', 'idx_at_failure'))],
                assume=[z3.Not(ok)]),
            Out(exc=VExc('SFTPError'), osets=[(p, '_idx', cx.fresh('int', 'idx_at_failure'))], assume=[z3.Not(ok)])]


attrs_decode_stub.modifies = ()


names_ok = z3.Function('sftp_names_ok', BytesS, IntS, IntS, IntS, BoolS)


def names_listcomp_stub(cx):
    """[SFTPName.decode(packet, version) for _ in range(count)]: `count` names decoded one after the other
    (names_of), the read position moved behind the last one (names_end, inside the body); or one of the decodes
    fails (PacketDecodeError / SFTPError as for SFTPAttrs.decode)"""
    p, data, idx, ln = _pkt(cx)
    it = cx.args[0]
    if not (isinstance(it, VTag) and it.tag == 'range'):
        raise Unsupported('name list comprehension changed shape')
    lo, count = it.payload
    ver = cx.selff('_version').z
    end = names_end(data, idx, count, ver)
    ns = names_of(data, idx, count, ver)
    ok = names_ok(data, idx, count, ver)       # the bytes at idx are `count` well-formed name entries of that version
    return [Out(ret=VSeq(ns, 'opaque:SFTPName'), osets=[(p, '_idx', VInt(end))],
                assume=[ok, lo == 0, end >= idx, end <= ln, z3.Length(ns) == z3.If(count > 0, count, 0)]),
            Out(exc=VExc('PacketDecodeError'), osets=[(p, '_idx', cx.fresh('int', 'idx_at_failure'))],
                assume=[z3.Not(ok)]),
            Out(exc=VExc('SFTPError'), osets=[(p, '_idx', cx.fresh('int', 'idx_at_failure'))], assume=[z3.Not(ok)])]


names_listcomp_stub.modifies = ()


def _idx_after(c):
    return c.new_state.rec(c.argv('packet')).fields['_idx'].z


def error_map_table():
    """{status code: exception class name} of the real module-level _sftp_error_map"""
    mod = extract.get_module('sftp')
    node = mod.consts.get('__nodes__', {}).get('_sftp_error_map')
    if not isinstance(node, ast.Dict) or not all(isinstance(v, ast.Name) for v in node.values):
        raise Unsupported('_sftp_error_map is not a dict display of class names')
    return {_const(mod, k): v.id for k, v in zip(node.keys, node.values)}


def error_map_stub(cx):
    """_sftp_error_map[code](reason, lang) over the real table: the exception the table's class constructs (its
    status code is the one that class passes to SFTPError.__init__, read from the source), KeyError for a code
    without an entry.  The class is represented by its base SFTPError (nobody below catches a subclass)."""
    rs = cx.ex.ev(cx.node.func.slice, cx.st)
    if len(rs) != 1 or rs[0][0] is not cx.st or not isinstance(rs[0][1], VInt) or len(cx.args) != 2:
        raise Unsupported('_sftp_error_map lookup changed shape')
    code = rs[0][1].z
    hit, val = [], z3.IntVal(-1)
    for k, cls in error_map_table().items():
        hit.append(code == k)
        val = z3.If(code == k, error_code_of(cls), val)
    reason, lang = cx.args
    exc = VExc('SFTPError', args=(VInt(val), reason, lang), attrs={'code': VInt(val), 'reason': reason, 'lang': lang})
    return [Out(ret=exc, assume=[z3.Or(hit)]), Out(exc=VExc('KeyError'), assume=[z3.Not(z3.Or(hit))])]


error_map_stub.modifies = ()
error_map_stub.pure = True


def _status_code(c):
    data, idx, _ln = _body(c)
    return unbe(z3.Extract(data, idx, 4))


def construct_post(c):
    """SSH_FXP_STATUS body = uint32 code [string message, string language]: SSH_FX_OK <-> None; any other code
    yields an exception object carrying exactly that code"""
    code = _status_code(c)
    r = c.result_v
    if r is VNone:
        return code == FX_OK
    if isinstance(r, VExc) and 'code' in r.attrs and extract.is_subclass(r.cls, 'SFTPError'):
        return z3.And(code != FX_OK, r.attrs['code'].z == code)
    return z3.BoolVal(False)


unknown_names_ok = z3.Function('sftp_unknown_names_ok', BytesS, IntS, BoolS)


def error_data_decode_stub(cx):
    """exc.decode(packet): error-specific data.  Only SSH_FX_UNKNOWN_PRINCIPAL has any (the list of unknown names,
    read to the end of the body: SFTPUnknownPrincipal.decode); every other class inherits the no-op.  The names are
    either well-formed strings up to the end of the body (unknown_names_ok) or the decode fails."""
    exc = cx.recv
    if not isinstance(exc, VExc) or 'code' not in exc.attrs or len(cx.args) != 1:
        raise Unsupported('error-specific decode changed shape')
    p = cx.args[0]
    r = cx.st.rec(p)
    data, idx, ln = r.fields['_packet'].z, r.fields['_idx'].z, r.fields['_len'].z
    code = exc.attrs['code'].z
    ok = z3.Or(idx == ln, unknown_names_ok(data, idx))      # nothing left: the empty list
    return [Out(assume=[code != FX_UNKNOWN_PRINCIPAL]),
            Out(osets=[(p, '_idx', VInt(ln))], assume=[code == FX_UNKNOWN_PRINCIPAL, ok]),
            Out(exc=VExc('PacketDecodeError'), assume=[code == FX_UNKNOWN_PRINCIPAL, z3.Not(ok)]),
            Out(exc=VExc('SFTPBadMessage'), assume=[code == FX_UNKNOWN_PRINCIPAL, z3.Not(ok)])]


error_data_decode_stub.modifies = ()
STATUS_STUBS = {'_sftp_error_map[]': error_map_stub, 'exc.decode': error_data_decode_stub}
STATUS_EXC_ATTRS = {'SFTPError': lambda args, kw: {'code': args[0], 'reason': args[1],
                                                   'lang': args[2] if len(args) > 2 else default_lang()}}


def _error_map_global():
    return VDict({k: VTag('class:' + v) for k, v in error_map_table().items()})


status_construct = Spec(
    PROP, 'sftp', 'SFTPError.construct',
    params=dict(packet='obj:SSHPacket', utf8_decode_errors='str'),
    classes=dict(PACKET_CLASSES), inline=dict(PACKET_INLINE), truthy=PACKET_TRUTHY,
    stubs=dict(STATUS_STUBS), exc_attrs=STATUS_EXC_ATTRS, globals={'_sftp_error_map': _error_map_global()},
    requires=lambda c: packet_wf(c, c.argv('packet')),
    ensures=[('ok-is-none-else-exception-with-that-code', construct_post)],
    # truncated body / error-specific data; undecodable message or language tag
    raises={'PacketDecodeError': True, 'SFTPBadMessage': True})
status_construct.no_replay = True     # a bare @staticmethod with a scripted module-level table: not replayable


def status_reply(c):
    """returns (None) only for SSH_FX_OK; before v6 nothing may follow the three fields"""
    return z3.And(_status_code(c) == FX_OK, z3.BoolVal(c.result_v is VNone),
                  z3.Implies(c.old('_version') < 6, _idx_after(c) == _body(c)[2]))


def status_raised(c):
    """an SFTPError is raised only for a code other than SSH_FX_OK, and it carries that code"""
    code = _status_code(c)
    r = c.result_v
    if isinstance(r, VExc) and 'code' in r.attrs:
        return z3.And(code != FX_OK, r.attrs['code'].z == code)
    if getattr(c, 'callee_view', False):
        return code != FX_OK
    return z3.BoolVal(False)


def names_reply(c):
    """SSH_FXP_NAME body = uint32 count, count names [bool end-of-list, v6]: all `count` names are returned, in
    order; before v6 nothing may follow them"""
    data, idx, ln = _body(c)
    count = unbe(z3.Extract(data, idx, 4))
    ver = c.old('_version')
    r = c.result_v
    if not isinstance(r, VTuple) or len(r.items) != 2:
        return z3.BoolVal(False)
    names = c.ex.deref(c.new_state, r.items[0])
    if not isinstance(names, VSeq):
        return z3.BoolVal(False)
    end = names_end(data, idx + 4, count, ver)
    at_end = r.items[1].z if isinstance(r.items[1], VBool) else r.items[1].z != 0
    return z3.And(idx + 4 <= ln, names.z == names_of(data, idx + 4, count, ver), z3.Length(names.z) == count,
                  z3.Implies(ver < 6, z3.And(end == ln, z3.Not(at_end))),
                  z3.Implies(z3.And(ver >= 6, end < ln), at_end == (data[end] != 0)),
                  z3.Implies(end == ln, z3.Not(at_end)))


def attrs_reply(c):
    """SSH_FXP_ATTRS body = one attribute block; before v6 nothing may follow it"""
    data, idx, ln = _body(c)
    end = attrs_end(data, idx, c.old('_version'))
    conj = [z3.Implies(c.old('_version') < 6, end == ln), end <= ln]
    if not getattr(c, 'callee_view', False):
        dec = c.events('attrs-decode')
        conj.append(z3.BoolVal(len(dec) == 1 and isinstance(c.result_v, VRef) and dec[0][1][0].addr == c.result_v.addr))
    return z3.And(conj)


def _mk_decoder(name, post, returns, stubs=None, raises=None, **kw):
    sp = Spec(
        PROP, 'sftp', 'SFTPClientHandler.' + name, self_class='SFTPClientHandler',
        params=dict(packet='obj:SSHPacket'),
        classes=dict(PACKET_CLASSES, SFTPClientHandler={'_version': 'int', '_utf8_decode_errors': 'str'}, SFTPAttrs={}),
        inline=dict(PACKET_INLINE, **kw.pop('inline', {})), truthy=PACKET_TRUTHY, stubs=stubs or {},
        requires=lambda c: z3.And(packet_wf(c, c.argv('packet')), c.old('_version') >= 3, c.old('_version') <= 6),
        ensures=[('body-layout', post)], returns=returns,
        modifies=[],      # a reply decoder changes nothing of the handler (frame obligations are generated for this)
        # a body that is too short, or (before v6) too long, is malformed
        raises=raises or {'PacketDecodeError': True}, **kw)
    DECODER_SPECS[name] = sp
    return sp


def reply_malformed(kinds):
    """PacketDecodeError only for a body that is not the reply's layout for the session's version (nothing may follow
    the fields before v6; v6 replies may carry extension data)"""
    def post(c):
        data, idx, ln = _body(c)
        ver = c.old('_version')
        m, conj = idx, []
        for k in kinds:
            if k == 's':
                n = unbe(z3.Extract(data, m, 4))
                conj += [m + 4 <= ln, m + 4 + n <= ln]
                m = m + 4 + n
            elif k == 'A':
                conj += [attrs_ok(data, m, ver), attrs_end(data, m, ver) <= ln]
                m = attrs_end(data, m, ver)
            elif k == 'N':
                cnt = unbe(z3.Extract(data, m, 4))
                conj += [m + 4 <= ln, names_ok(data, m + 4, cnt, ver), names_end(data, m + 4, cnt, ver) <= ln]
                m = names_end(data, m + 4, cnt, ver)
        return z3.Not(z3.And(conj + [z3.Implies(ver < 6, m == ln)]))
    return post


def status_malformed(c):
    """PacketDecodeError from a status reply only if it is not: uint32 code [string message, string language]
    [the unknown-names list, for SSH_FX_UNKNOWN_PRINCIPAL], with nothing else before v6"""
    data, idx, ln = _body(c)
    ver = c.old('_version')
    code = unbe(z3.Extract(data, idx, 4))
    n1 = unbe(z3.Extract(data, idx + 4, 4))
    n2 = unbe(z3.Extract(data, idx + 8 + n1, 4))
    m = idx + 12 + n1 + n2
    texts = z3.And(idx + 8 <= ln, idx + 8 + n1 <= ln, idx + 12 + n1 <= ln, m <= ln)
    tail_ok = z3.If(z3.And(code == FX_UNKNOWN_PRINCIPAL), z3.Or(m == ln, unknown_names_ok(data, m)),
                    z3.Implies(ver < 6, m == ln))
    well = z3.And(idx + 4 <= ln, z3.Or(idx + 4 == ln, z3.And(texts, z3.Or(code == FX_OK, tail_ok),
                                                             z3.Implies(z3.And(code == FX_OK, ver < 6), m == ln))))
    return z3.Not(well)


decode_handle = _mk_decoder('_process_handle', handle_reply, 'bytes',
                            raises={'PacketDecodeError': reply_malformed(['s'])})
decode_data = _mk_decoder('_process_data', data_reply, 'tuple[bytes,bool]',
                          raises={'PacketDecodeError': reply_malformed(['s'])})
decode_status = _mk_decoder(
    '_process_status', status_reply, None, stubs=dict(STATUS_STUBS),
    inline={'SFTPError.construct': ('sftp', 'SFTPError.construct')}, exc_attrs=STATUS_EXC_ATTRS,
    globals={'_sftp_error_map': _error_map_global()},
    raises={'PacketDecodeError': status_malformed, 'SFTPBadMessage': True, 'SFTPError': status_raised})
decode_status.no_replay = True        # the module-level error table is modelled, not scripted
decode_names = _mk_decoder(
    '_process_name', names_reply, 'tuple[seq[opaque:SFTPName],bool]',
    stubs={'listcomp SFTPName.decode(packet, self._version)': names_listcomp_stub},
    loops={1: LoopSpec(invariant=lambda c: z3.BoolVal(True))},
    raises={'PacketDecodeError': reply_malformed(['N']), 'SFTPError': True})
decode_names.no_replay = True         # the comprehension is modelled by a stub, natively it is not a call
decode_attrs = _mk_decoder(
    '_process_attrs', attrs_reply, 'obj:SFTPAttrs',
    stubs={'SFTPAttrs': ret('obj:SFTPAttrs', 'blank_attrs'), 'SFTPAttrs().decode': attrs_decode_stub},
    raises={'PacketDecodeError': reply_malformed(['A']), 'SFTPError': True})
decode_attrs.no_replay = True
decode_extended = _mk_decoder(
    '_process_extended_reply',
    lambda c: z3.BoolVal(isinstance(c.result_v, VRef) and c.result_v.addr == c.argv('packet').addr), 'obj:SSHPacket',
    raises={})


# ------------------------------------------------------------------------------------------------ recv_packet
def readexactly_stub(cx):
    """StreamReader.readexactly(n): exactly n bytes, or IncompleteReadError (an EOFError) / a transport error"""
    n = cx.args[0]
    b = cx.fresh('bytes', 'read')
    ev = ('read', (n, b))
    return [Out(ret=b, assume=[z3.Length(b.z) == zt(n)], event=ev),
            Out(exc=VExc('IncompleteReadError'), event=('read-failed', (n,))),
            Out(exc=VExc('OSError'), event=('read-failed', (n,)))]


readexactly_stub.modifies = ()


def one_frame(c):
    """the packet handed on is exactly the `length` bytes that follow the uint32 length prefix, unread"""
    reads = c.events('read')
    if len(reads) != 2:
        return z3.BoolVal(False)
    (n1, b1), (n2, b2) = reads[0][1], reads[1][1]
    r = c.new_state.rec(c.result_v) if isinstance(c.result_v, VRef) else None
    if r is None:
        return z3.BoolVal(False)
    return z3.And(zt(n1) == 4, zt(n2) == unbe(b1.z), r.fields['_packet'].z == b2.z, r.fields['_idx'].z == 0,
                  r.fields['_len'].z == z3.Length(b2.z))


handler_recv_packet = Spec(
    PROP, 'sftp', 'SFTPHandler.recv_packet', self_class='SFTPHandler',
    classes=HANDLER_CLASSES, inline=dict(PACKET_INLINE),
    stubs={'self._reader.readexactly': readexactly_stub},
    requires=lambda c: z3.Not(c.oldv('_reader').isnone),
    ensures=[('one-whole-frame', one_frame)],
    raises={'IncompleteReadError': True, 'OSError': True})

ASSUMPTIONS += [
    'request handlers (SFTPServerHandler._process_open ... _process_ranges) are abstract INSIDE _process_packet: when '
    'awaited they return a value of their annotated result type or raise PacketDecodeError, SFTPError (with a status '
    'code that fits a uint32, as the SFTPError documentation requires), NotImplementedError, OSError (any errno), '
    'another Exception (ValueError as representative) or are cancelled (CancelledError); they send nothing '
    'themselves.  Proved separately for each of the 30 handlers in the dispatch table, against a table of body '
    'layouts per request and version written from the drafts (REQUEST_LAYOUT): its decode prefix (the statements up '
    'to the last use of `packet`) completes exactly when the body is the version\'s layout (v6 standard requests: '
    'begins with it) and then stands behind the last field; it raises PacketDecodeError / the attribute decoder\'s '
    'SFTPError exactly when it is not (truncated anywhere, or extended before v6); the ATTRS block is decoded with '
    'the session\'s version; (AST scan) no SFTPServer callback runs inside the prefix and nothing reads the packet '
    'after it.  Exception: the v6 REALPATH tail (control byte + compose paths) has no tabled layout, only the '
    'consumption clause.  Not proved: what the part after the '
    'prefix (handle tables, SFTPServer callbacks) returns or raises; SFTPAttrs.decode inside a prefix is a stub '
    '(ends inside the body or raises PacketDecodeError / SFTPError)',
    'client reply decoders: SFTPError.construct, _process_status/_handle/_data/_name/_attrs/_extended_reply are under '
    'contract and _make_request uses those contracts; in them `count` x SFTPName.decode and SFTPAttrs.decode are '
    'uninterpreted record decoders (names_of / names_end / attrs_end: end inside the body, or PacketDecodeError / '
    'SFTPError), an error class of _sftp_error_map is represented by its base SFTPError with the code its __init__ '
    'passes on, bytes.decode(codec, errors=<given>) is modelled as never raising (engine model)',
    'result encoders (SFTPAttrs/SFTPVFSAttrs/SFTPLimits/SFTPRanges.encode, SFTPName.encode in the name list, '
    'from_local) return bytes or raise an Exception; their wire format is checked by the bounded codec round trip',
    'the class-level tables _packet_handlers / _return_types are read from the source on every run and modelled '
    'as the values of the receiver; dict.get on them is an if-then-else chain over the real entries',
    'errno numbers are those of the platform the check runs on',
    'client: fewer than 2^32 requests are outstanding, i.e. the id about to be allocated is not in the waiter '
    'table (precondition id-unique of _send_request / _make_request); writers of _requests: _send_request (store), '
    '_process_packet (pop) are under contract here, _cleanup (fails all waiters, empties the table) under C09.  '
    'class invariant 3 <= _version <= 6: established by the version exchange (SFTPServerHandler.run / '
    'SFTPClientHandler.start, under contract: the session continues only with such a version); __init__ stores the '
    'configured sftp_version, whose validation by the options layer is assumed.  '
    '"Outstanding" includes abandoned requests: by outstanding-until-replied a caller cancelled while waiting leaves '
    'its id in the table until the reply arrives (for ever if the server never answers); after a 2^32 wrap-around '
    'the store would silently replace such an entry (harmless: that waiter is cancelled) - excluded by the precondition',
    'client: while a caller is suspended in `await waiter` the waiter table and the id counter may change '
    'arbitrarily; the caller resumes with the value / exception given to its future or is cancelled',
    'send_packet failing with SFTPNoConnection / SFTPConnectionLost is represented by their base class SFTPError '
    'at call sites (no caller distinguishes the two)',
    'StreamReader.readexactly(n) returns exactly n bytes or raises IncompleteReadError / OSError',
    'codec round trips: discharged in contracts/c14_codecs.py (see the three `codecs, ...` entries below for what '
    'is proved, what stays bounded and what is trusted); the executed round trip (specs/sftp_codec_check.py, every '
    'flag combination of each version with boundary values, plus objects carrying fields a version cannot send) '
    'is kept as an additional cross-check and is still labelled bounded',
]
# the harness cannot build a bare exception instance; the same code is cross-checked inlined in _process_packet
sftp_error_encode.no_replay = True


# ------------------------------------------------------------------------------------------------ request bodies
# The decode prefix of every request handler in the server's dispatch table: the statements up to the last one
# that touches `packet`.  Proved per handler: the prefix raises nothing but PacketDecodeError (body shorter than its
# fields, or - before v6, where the drafts do not allow extra fields - longer) and the SFTPError of the attribute
# decoder; when it completes before v6 the whole body was consumed.  A scan (extra_checks) shows that nothing after
# the prefix reads the packet and no SFTPServer callback is called inside it: callbacks run only on fully decoded
# bodies.  Requests that exist only in v6 (link, block, unblock: filexfer-13 8.x) have no pre-v6 body layout.
V6_ONLY_REQUESTS = {FXP_LINK, FXP_BLOCK, FXP_UNBLOCK}
ASSUMPTIONS.append(
    'not stated anywhere (and not what the code does): "a request type the negotiated version does not define is '
    'answered with an error status" - link / block / unblock (v6) and symlink (v3..v5) are dispatched in every '
    'version; their decode prefixes are proved for every version (no exactness for the v6-only ones)')


def _handler_body(fn):
    return [s_ for s_ in fn.body if not (isinstance(s_, ast.Expr) and isinstance(s_.value, ast.Constant))]


def _mentions(node, pred):
    return any(pred(n) for n in ast.walk(node))


def _is_packet(n):
    return isinstance(n, ast.Name) and n.id == 'packet'


def _is_server_cb(n):
    return isinstance(n, ast.Attribute) and n.attr == '_server'


def prefix_region(fn):
    body = _handler_body(fn)
    idx = [i for i, s_ in enumerate(body) if _mentions(s_, _is_packet)]
    return body[:idx[-1] + 1] if idx else []


def whole_body_consumed(c):
    r = c.new_state.rec(c.argv('packet'))
    return z3.Implies(c.old('_version') < 6, r.fields['_idx'].z == r.fields['_len'].z)


SRV_PREFIX_CLASSES = dict(PACKET_CLASSES, SFTPAttrs={}, **{
    'SFTPServerHandler': {'_version': 'int', '_nonstandard_symlink': 'bool', '_realpath_check_names': 'dict[int,str]'}})
REQUEST_PREFIX_SPECS = {}


# Request body layouts per protocol version (filexfer-02 s6, -04/-05 s6-7, -13 s8; OpenSSH PROTOCOL 3.x-4.x and
# draft-ietf-secsh-filexfer-extensions for the extended requests).  Field kinds: s = string, u32 / u64 = uint,
# b = byte / boolean, A = ATTRS block of the session's version.  `exact`: nothing may follow the fields (before v6
# for the standard requests - v6 allows extension data at the end -, always for the extended requests, whose
# layout is fixed by their name@domain).
def _std(*kinds):
    return lambda v: (list(kinds), v < 6)


def _ext(*kinds):
    return lambda v: (list(kinds), True)


REQUEST_LAYOUT = {
    FXP_OPEN: lambda v: (['s', 'u32', 'A'] if v < 5 else ['s', 'u32', 'u32', 'A'], v < 6),
    FXP_CLOSE: _std('s'), FXP_READ: _std('s', 'u64', 'u32'), FXP_WRITE: _std('s', 'u64', 's'),
    FXP_LSTAT: lambda v: (['s'] if v < 4 else ['s', 'u32'], v < 6),
    FXP_STAT: lambda v: (['s'] if v < 4 else ['s', 'u32'], v < 6),
    FXP_FSTAT: lambda v: (['s'] if v < 4 else ['s', 'u32'], v < 6),
    FXP_SETSTAT: _std('s', 'A'), FXP_FSETSTAT: _std('s', 'A'), FXP_OPENDIR: _std('s'), FXP_READDIR: _std('s'),
    FXP_REMOVE: _std('s'), FXP_MKDIR: _std('s', 'A'), FXP_RMDIR: _std('s'),
    # v6 realpath (string path [byte control [string compose-path ...]]) has a variable tail: only v3..v5 here
    FXP_REALPATH: lambda v: (['s'], True) if v < 6 else None,
    FXP_RENAME: lambda v: (['s', 's'] if v < 5 else ['s', 's', 'u32'], v < 6),
    FXP_READLINK: _std('s'),
    FXP_SYMLINK: _ext('s', 's'),         # v3..v5 request (replaced by LINK in v6): linkpath and targetpath only
    FXP_LINK: lambda v: (['s', 's', 'b'], False), FXP_BLOCK: lambda v: (['s', 'u64', 'u64', 'u32'], False),
    FXP_UNBLOCK: lambda v: (['s', 'u64', 'u64'], False),
    b'posix-rename@openssh.com': _ext('s', 's'), b'statvfs@openssh.com': _ext('s'), b'fstatvfs@openssh.com': _ext('s'),
    b'hardlink@openssh.com': _ext('s', 's'), b'fsync@openssh.com': _ext('s'),
    b'lsetstat@openssh.com': _std('s', 'A'), b'limits@openssh.com': _ext(),
    b'copy-data': _ext('s', 'u64', 'u64', 's', 'u64'), b'ranges@asyncssh.com': _ext('s', 'u64', 'u64'),
}
VERSION_DEPENDENT = {FXP_OPEN, FXP_LSTAT, FXP_STAT, FXP_FSTAT, FXP_REALPATH, FXP_RENAME}


def layout_fits(data, idx, ln, kinds, ver):
    """(the bytes from idx are the fields `kinds`, each complete inside the body; position behind the last field)"""
    conj, m = [], idx
    for k in kinds:
        if k == 's':
            n = unbe(z3.Extract(data, m, 4))
            conj += [m + 4 <= ln, m + 4 + n <= ln]
            m = m + 4 + n
        elif k == 'A':
            conj += [attrs_ok(data, m, ver), attrs_end(data, m, ver) <= ln]
            m = attrs_end(data, m, ver)
        else:
            w = {'u32': 4, 'u64': 8, 'b': 1}[k]
            conj.append(m + w <= ln)
            m = m + w
    return (z3.And(conj) if conj else z3.BoolVal(True)), m


# strings_to_end(k): the recursive spec function "the rest of the body, read as consecutive groups of k strings"
# (uninterpreted; only its definitional unfolding at one position is ever assumed):
#     items_k(data, m, len) = []                                             if m == len
#                           = [(k strings at m)] ++ items_k(data, m', len)   if they fit, m' behind them
ITEMS_FN = {1: z3.Function('sftp_strings_to_end', BytesS, IntS, IntS, z3.SeqSort(BytesS)),
            2: z3.Function('sftp_string_pairs_to_end', BytesS, IntS, IntS, z3.SeqSort(sort_of('tuple[bytes,bytes]')))}


def _k_strings_at(data, m, ln, k):
    """(they fit, the k strings, position behind them)"""
    conj, vals = [], []
    for _ in range(k):
        n = unbe(z3.Extract(data, m, 4))
        conj += [m + 4 <= ln, m + 4 + n <= ln]
        vals.append(z3.Extract(data, m + 4, n))
        m = m + 4 + n
    return z3.And(conj), vals, m


def items_unfold(data, m, ln, k):
    """definitional instance of items_k at position m"""
    f = ITEMS_FN[k]
    fits, vals, nxt = _k_strings_at(data, m, ln, k)
    elem = vals[0] if k == 1 else tuple_sort(parse_type('tuple[bytes,bytes]')).constructor(0)(*vals)
    return [z3.Implies(m == ln, f(data, m, ln) == z3.Empty(f.range())),
            z3.Implies(z3.And(m < ln, fits), f(data, m, ln) == z3.Concat(z3.Unit(elem), f(data, nxt, ln)))]


def _packet_loop(local, items=None, k=1):
    """LoopSpec of a `while <packet>:` loop that reads from the packet: the packet object is re-created at the cut
    (havoc_locals); invariant: same payload, read position inside it and not moved back - and, when the loop
    collects what it reads into the list `items`:  items ++ items_k(rest of the body) == items_k(rest at loop entry)"""
    def _rec(st, c):
        v = st.env.get(local)
        return st.rec(v) if isinstance(v, VRef) else None

    def _list(c, st):
        v = c.ex.deref(st, st.env[items])
        if isinstance(v, VList):
            t = parse_type('seq[bytes]' if k == 1 else 'seq[tuple[bytes,bytes]]')
            return to_z3(v, t)
        return v.z

    def inv(c):
        p = c.localv(local)
        r = c.new_state.rec(p)
        e = _rec(c.loop_entry, c) if c.loop_entry is not None else None
        conj = [packet_wf(c, p)]
        if e is not None:
            conj += [r.fields['_packet'].z == e.fields['_packet'].z, r.fields['_idx'].z >= e.fields['_idx'].z]
            if items is not None:
                f = ITEMS_FN[k]
                d, ln = r.fields['_packet'].z, r.fields['_len'].z
                conj.append(z3.Concat(_list(c, c.new_state), f(d, r.fields['_idx'].z, ln)) ==
                            z3.Concat(_list(c, c.loop_entry), f(e.fields['_packet'].z, e.fields['_idx'].z,
                                                                e.fields['_len'].z)))
        return z3.And(conj)

    def lemmas(c):
        if items is None:
            return []
        head = getattr(c, 'head', None)
        r = _rec(head, c) if head is not None else None
        if r is None:
            return []
        return items_unfold(r.fields['_packet'].z, r.fields['_idx'].z, r.fields['_len'].z, k)
    ls = LoopSpec(invariant=inv, lemmas=lemmas if items is not None else None)
    ls.havoc_locals = [local]
    return ls


def _mk_request_prefix(key, name):
    def layout(c):
        """(well-formed, end) of the request body for the session's version, None where no layout is tabled"""
        r = c.old_state.rec(c.argv('packet'))
        data, idx, ln = r.fields['_packet'].z, r.fields['_idx'].z, r.fields['_len'].z
        ver = c.old('_version')
        lay = REQUEST_LAYOUT.get(key)
        cv = concrete_int(c.oldv('_version'))
        if lay is None:
            return None
        if cv is not None:
            res = lay(cv)
            if res is None:
                return None
            fits, end = layout_fits(data, idx, ln, res[0], ver)
            return z3.And(fits, z3.Implies(z3.BoolVal(res[1]), end == ln)), end
        # version-independent field list; exactness may still depend on the version (v < 6)
        kinds = lay(3)[0]
        fits, end = layout_fits(data, idx, ln, kinds, ver)
        exact = z3.BoolVal(True) if lay(6)[1] else (ver < 6 if lay(3)[1] else z3.BoolVal(False))
        return z3.And(fits, z3.Implies(exact, end == ln)), end

    def accepted_only_if_well_formed(c):
        """the prefix completes only for a body that is exactly the version's layout (v6: begins with it), and then
        the read position is behind the last field: no truncated body is accepted"""
        lw = layout(c)
        if lw is None and key == FXP_REALPATH and c.has_local('compose_paths') and c.has_local('packet'):
            # v6 (filexfer-13 8.9): string path, byte control, then compose-path strings to the end of the body:
            # all of them, each exactly once, in order; nothing is left unread
            r0 = c.old_state.rec(c.argv('packet'))
            data, idx, ln = r0.fields['_packet'].z, r0.fields['_idx'].z, r0.fields['_len'].z
            fits, m = layout_fits(data, idx, ln, ['s', 'b'], c.old('_version'))
            got = c.ex.deref(c.new_state, c.localv('compose_paths'))
            gz = got.z if isinstance(got, VSeq) else to_z3(got, parse_type('seq[bytes]'))
            r1 = c.new_state.rec(c.localv('packet'))
            return z3.And(fits, gz == ITEMS_FN[1](data, m, ln), r1.fields['_idx'].z == ln)
        if lw is None:
            return z3.BoolVal(True)
        r = c.new_state.rec(c.argv('packet'))
        return z3.And(lw[0], r.fields['_idx'].z == lw[1])

    def rejected_only_if_malformed(c):
        """PacketDecodeError / SFTPError only for a body that is NOT the version's layout: no well-formed request is
        answered as a bad message"""
        lw = layout(c)
        return z3.BoolVal(True) if lw is None else z3.Not(lw[0])

    cases = None
    if key in VERSION_DEPENDENT:
        cases = [(f'v{v}', {'_version': v}) for v in (3, 4, 5, 6)]
    sp = Spec(
        PROP, 'sftp', 'SFTPServerHandler.' + name, self_class='SFTPServerHandler',
        params=dict(packet='obj:SSHPacket'), classes=SRV_PREFIX_CLASSES,
        inline=dict(PACKET_INLINE), truthy=PACKET_TRUTHY, region=prefix_region,
        stubs={'SFTPAttrs.decode': attrs_decode_stub},
        # the loop reads from the packet: the packet object is re-created at the cut (havoc_locals) and the
        # invariant says what is known of it - same payload, read position inside it and not moved back
        loops={1: _packet_loop('packet', 'compose_paths', 1)},
        local_types={'compose_paths': 'seq[bytes]', 'packet': 'obj:SSHPacket'},
        requires=lambda c: z3.And(packet_wf(c, c.argv('packet')), c.old('_version') >= 3, c.old('_version') <= 6),
        ensures=[('whole-body-consumed-before-v6', whole_body_consumed if key not in V6_ONLY_REQUESTS
                  else (lambda c: z3.BoolVal(True))),
                 ('accepted-only-if-body-is-the-version-layout', accepted_only_if_well_formed)],
        raises={'PacketDecodeError': rejected_only_if_malformed,
                # the attribute block decoder (undefined flags, bad owner / group / MIME text); the v6 realpath
                # control byte check (SFTPInvalidParameter) is the one SFTPError outside the tabled layouts
                'SFTPError': rejected_only_if_malformed},
        cases=cases)
    sp.no_replay = True       # a region of the handler: the whole real function cannot be replayed against it
    REQUEST_PREFIX_SPECS[name] = sp
    return sp


for _k, _n in class_table('sftp', 'SFTPServerHandler', '_packet_handlers',
                          lambda m, n: n.id if isinstance(n, ast.Name) else None).items():
    if _n is not None and _n not in REQUEST_PREFIX_SPECS:
        _mk_request_prefix(_k, _n)


def scan_request_handlers():
    """per handler in the dispatch table: nothing after the decode prefix touches the packet, no SFTPServer callback
    inside the prefix (=> callbacks see only completely decoded bodies)"""
    mod = extract.get_module('sftp')
    problems, n = [], 0
    for name in REQUEST_PREFIX_SPECS:
        fn = mod.get_function('SFTPServerHandler.' + name)
        body = _handler_body(fn)
        pre = prefix_region(fn)
        n += 1
        for s_ in pre:
            if _mentions(s_, _is_server_cb):
                problems.append(f'{name}:{s_.lineno} server callback inside the decode prefix')
        for s_ in body[len(pre):]:
            if _mentions(s_, _is_packet):
                problems.append(f'{name}:{s_.lineno} packet used after the decode prefix')
    return {'name': 'C14.sftp.SFTPServerHandler._process_*#scan(callbacks-only-after-the-whole-body-is-decoded)',
            'verdict': 'proved' if n and not problems else 'refuted', 'backend': 'AST scan', 'detail': problems[:10],
            'handlers': n, 'replayed': False}


# ------------------------------------------------------------------------------------------------ error-specific data
# A status reply carries exactly the fields the negotiated version defines for the code actually sent: uint32 code,
# string message, string language tag (filexfer-02 s7 .. -13 s9.1) and - only for SSH_FX_UNKNOWN_PRINCIPAL, which
# exists from v5 on - the list of unknown names (filexfer-05 s8 / -13 s9.1).  _process_packet above represents a
# handler's SFTPError by the base class, i.e. assumes SFTPError.encode is what runs; the scan lemma below shows that
# SFTPUnknownPrincipal is the only subclass overriding encode, and this contract covers it.
enc_names = z3.Function('sftp_unknown_names_enc', z3.SeqSort(StrS), BytesS)


def unknown_names_join_stub(cx):
    """b''.join(String(name) for name in self.unknown_names): the concatenated strings (uninterpreted in the list;
    definitional: empty list -> empty bytes, every string contributes at least its 4 length bytes)"""
    names = cx.selff('unknown_names')
    r = cx.fresh('bytes', 'names_enc')
    return [Out(ret=r, assume=[r.z == enc_names(names.z), z3.Length(enc_names(names.z)) >= 4 * z3.Length(names.z),
                               enc_names(z3.Empty(z3.SeqSort(StrS))) == z3.Empty(BytesS)])]


unknown_names_join_stub.modifies = ()


def super_stub(cx):
    return [Out(ret=cx.ex.self_ref)]


super_stub.modifies = ()
super_stub.pure = True


def _mk_unknown_principal_encode(v):
    def post(c):
        sent = wire_code(c.old('code'), z3.IntVal(v))
        body = z3.Concat(be4(sent), _sstr(c.old('reason')), _sstr(c.old('lang')))
        extra = enc_names(c.old('unknown_names'))
        return c.result == z3.If(sent == FX_UNKNOWN_PRINCIPAL, z3.Concat(body, extra), body)
    sp = Spec(
        PROP, 'sftp', 'SFTPUnknownPrincipal.encode', self_class='SFTPUnknownPrincipal', params=dict(version='int'),
        classes={'SFTPUnknownPrincipal': {'code': 'int', 'reason': 'str', 'lang': 'str', 'unknown_names': 'seq[str]'}},
        stubs={'super': super_stub, "b''.join": unknown_names_join_stub},
        inline={'super().encode': ('sftp', 'SFTPError.encode')},
        # the code this class passes to SFTPError.__init__ (read from its source)
        requires=lambda c: c.old('code') == error_code_of('SFTPUnknownPrincipal'),
        ensures=[('status body has exactly the fields version v defines for the code sent', post)],
        raises={}, cases=[(f'v{v}', {'arg:version': v})])
    sp.no_replay = True
    return sp


unknown_principal_encode = [_mk_unknown_principal_encode(_v) for _v in (3, 4, 5, 6)]


def scan_error_encoders():
    """SFTPError subclasses that override encode(): each must be under contract (the others inherit SFTPError.encode,
    which is what _process_packet executes for a handler's SFTPError)"""
    mod = extract.get_module('sftp')
    covered = {'SFTPError', 'SFTPUnknownPrincipal'}
    over = [name for name, node in mod.classes.items()
            if extract.is_subclass(name, 'SFTPError') and
            any(isinstance(n, ast.FunctionDef) and n.name == 'encode' for n in node.body)]
    stray = sorted(set(over) - covered)
    return {'name': 'C14.sftp.SFTPError#scan(every-subclass-overriding-encode-is-under-contract)',
            'verdict': 'proved' if not stray else 'refuted', 'backend': 'AST scan', 'detail': stray,
            'overriding': sorted(over), 'replayed': False}


# ------------------------------------------------------------------------------------------------ extended replies
# _process_extended_reply hands the reply packet to the caller; these callers are the glue: the request goes out
# under the extension's name, the reply is decoded by that extension's codec (under contract in c14_codecs) from the
# position it was delivered at, and nothing may follow it (the extended replies have a fixed layout).
codec_end = z3.Function('sftp_codec_end', BytesS, IntS, IntS)


def ext_request_stub(cx):
    p = cx.fresh('obj:SSHPacket', 'ext_reply')
    r = cx.st.rec(p)
    wf = [r.fields['_idx'].z >= 0, r.fields['_idx'].z <= r.fields['_len'].z,
          r.fields['_len'].z == z3.Length(r.fields['_packet'].z)]
    ev = ('request', tuple(cx.args))
    return [Out(ret=p, assume=wf, event=ev + (p, VInt(r.fields['_idx'].z))), Out(exc=VExc('SFTPError'), event=ev)]


ext_request_stub.modifies = ()


def codec_decode_stub(cls, typ):
    def stub(cx):
        p = cx.args[0]
        r = cx.st.rec(p)
        data, idx, ln = r.fields['_packet'].z, r.fields['_idx'].z, r.fields['_len'].z
        end = codec_end(data, idx)
        out = cx.fresh(typ, 'decoded_' + cls)
        return [Out(ret=out, osets=[(p, '_idx', VInt(end))], assume=[end >= idx, end <= ln],
                    event=('codec-decode', (cls, p, VInt(idx), out) + tuple(cx.args[1:]))),
                Out(exc=VExc('PacketDecodeError'))]
    stub.modifies = ()
    return stub


def _mk_ext_caller(fname, ext_name, codec, params, returns_value, versioned):
    def post(c):
        reqs = c.events('request')
        decs = c.events('codec-decode')
        if not reqs:
            return z3.BoolVal(not decs)        # extension not offered by the server: no request, nothing decoded
        if len(reqs) != 1 or len(decs) != 1 or len(reqs[0]) < 4:
            return z3.BoolVal(False)
        args, p, idx0 = reqs[0][1], reqs[0][-2], reqs[0][-1]
        cls, dp, didx, out = decs[0][1][:4]
        r = c.new_state.rec(p)
        conj = [z3.BoolVal(cls == codec and isinstance(dp, VRef) and dp.addr == p.addr),
                c.eq(args[0], VBytes(ext_name)), didx.z == idx0.z,
                r.fields['_idx'].z == r.fields['_len'].z]
        if versioned:
            extra = decs[0][1][4:]
            conj.append(z3.BoolVal(len(extra) == 1) if len(extra) != 1 else zt(extra[0]) == c.old('_version'))
        if returns_value:
            conj.append(c.eq(c.result_v, out))
        return z3.And(conj)
    sp = Spec(
        PROP, 'sftp', 'SFTPClientHandler.' + fname, self_class='SFTPClientHandler', params=params,
        classes={'SFTPClientHandler': {'_version': 'int', '_supports_statvfs': 'bool', '_supports_fstatvfs': 'bool',
                                       '_supports_limits': 'bool', '_supports_ranges': 'bool', 'limits': 'obj:SFTPLimits'},
                 'SSHPacket': PACKET_CLASSES['SSHPacket'],
                 'SFTPLimits': {f: 'int' for f in ('max_packet_len', 'max_read_len', 'max_write_len', 'max_open_handles')},
                 'SFTPVFSAttrs': {}, 'SFTPRanges': {}},
        inline=dict(PACKET_INLINE), truthy=PACKET_TRUTHY,
        stubs={'self._make_request': ext_request_stub, '*.log': noop(),
               codec + '.decode': codec_decode_stub(codec, 'obj:' + codec),
               'SFTPRanges': ret('obj:SFTPRanges', 'whole_range')},
        requires=lambda c: z3.And(c.old('_version') >= 3, c.old('_version') <= 6,
                                  *[z3.And(c.arg(k) >= 0, c.arg(k) < 2 ** 64) for k, t in params.items() if t == 'int']),
        ensures=[('reply decoded by the extension\'s codec from where it was delivered, nothing follows', post)],
        raises={'SFTPError': True, 'PacketDecodeError': True})
    sp.no_replay = True
    return sp


ext_statvfs = _mk_ext_caller('statvfs', b'statvfs@openssh.com', 'SFTPVFSAttrs', dict(path='bytes'), True, True)
ext_fstatvfs = _mk_ext_caller('fstatvfs', b'fstatvfs@openssh.com', 'SFTPVFSAttrs', dict(handle='bytes'), True, True)
ext_limits = _mk_ext_caller('request_limits', b'limits@openssh.com', 'SFTPLimits', {}, False, False)
ext_ranges = _mk_ext_caller('request_ranges', b'ranges@asyncssh.com', 'SFTPRanges',
                            dict(handle='bytes', offset='int', length='int'), False, False)


# ------------------------------------------------------------------------------------------------ version exchange
# `3 <= _version <= 6` is the class invariant every contract above relies on (requires).  Its writers: __init__
# (the configured sftp_version, validated by the connection options - assumed), SFTPClientHandler.start and
# SFTPServerHandler.run (the version exchange).  The exchange is under contract here: whenever it lets the session
# continue, the negotiated version is one this implementation speaks (filexfer-02 s4: "the server responds with the
# lowest of its own and the client's version"; a version below 3 is not implemented: the session must end).
def _up_to_version_assignment(fn):
    for k, s_ in enumerate(fn.body):
        if isinstance(s_, ast.Assign) and any(isinstance(t, ast.Attribute) and t.attr == '_version' for t in s_.targets):
            return [x for x in fn.body[:k + 1] if not (isinstance(x, ast.Expr) and isinstance(x.value, ast.Constant))]
    raise Unsupported('no assignment to self._version')


def extensions_as_sent(c):
    """the extension pairs collected are exactly the name/data string pairs that follow the version number, in
    order (whenever pairs were read at all: FXP_VERSION always, FXP_INIT for version 3)"""
    recvd = c.events('recv')
    if len(recvd) != 1 or not c.has_local('rcvd_extensions') or c.events('cleanup'):
        return z3.BoolVal(True)
    r0 = c.new_state.rec(recvd[0][1][0])
    data, ln = r0.fields['_packet'].z, r0.fields['_len'].z
    got = c.ex.deref(c.new_state, c.localv('rcvd_extensions'))
    gz = got.z if isinstance(got, VSeq) else to_z3(got, parse_type('seq[tuple[bytes,bytes]]'))
    return gz == ITEMS_FN[2](data, z3.IntVal(5), ln)


def extensions_lemma(c):
    recvd = c.events('recv')
    if len(recvd) != 1:
        return []
    r0 = c.new_state.rec(recvd[0][1][0])
    return items_unfold(r0.fields['_packet'].z, z3.IntVal(5), r0.fields['_len'].z, 2)


def version_invariant(c):
    return z3.And(c.new('_version') >= 3, c.new('_version') <= 6)


def exchange_recv_stub(cx):
    p = cx.fresh('obj:SSHPacket', 'first_packet')
    r = cx.st.rec(p)
    return [Out(ret=p, assume=[r.fields['_idx'].z == 0, r.fields['_len'].z == z3.Length(r.fields['_packet'].z)],
                event=('recv', (p,))),
            Out(exc=VExc('IncompleteReadError')), Out(exc=VExc('SFTPError')), Out(exc=VExc('CancelledError'))]


exchange_recv_stub.modifies = ()
EXCHANGE_CLASSES = dict(PACKET_CLASSES, Reader={}, Writer={})

server_version_exchange = Spec(
    PROP, 'sftp', 'SFTPServerHandler.run', self_class='SFTPServerHandler',
    classes=dict(EXCHANGE_CLASSES, SFTPServerHandler={'_version': 'int', '_reader': 'opt[obj:Reader]'}),
    inline=dict(PACKET_INLINE), truthy=PACKET_TRUTHY, region=_up_to_version_assignment,
    stubs={'self.recv_packet': exchange_recv_stub, 'self.log_received_packet': noop(), 'self._log_extensions': noop(),
           'self._cleanup': noop('cleanup')},
    loops={1: _packet_loop('packet', 'rcvd_extensions', 2)},
    local_types={'rcvd_extensions': 'seq[tuple[bytes,bytes]]', 'packet': 'obj:SSHPacket'},
    # the configured version (constructor argument, validated by the options layer)
    requires=lambda c: z3.And(c.old('_version') >= 3, c.old('_version') <= 6, z3.Not(c.oldv('_reader').isnone)),
    ensures=[('session continues only with a version in 3..6', lambda c: z3.Or(
        z3.BoolVal(len(c.events('cleanup')) == 1), version_invariant(c))),
        ('extension pairs read as sent', extensions_as_sent)],
    lemmas=extensions_lemma,
    raises={'IncompleteReadError': True, 'CancelledError': True})
server_version_exchange.no_replay = True

client_version_exchange = Spec(
    PROP, 'sftp', 'SFTPClientHandler.start', self_class='SFTPClientHandler',
    classes=dict(EXCHANGE_CLASSES, SFTPClientHandler={'_version': 'int', '_reader': 'opt[obj:Reader]'}),
    inline=dict(PACKET_INLINE), truthy=PACKET_TRUTHY, region=_up_to_version_assignment,
    stubs={'self.recv_packet': may_raise(exchange_recv_stub, 'ConnectionLost'), 'self.log_received_packet': noop(),
           'self._log_extensions': noop(), 'self.send_packet': cli_send_packet_stub},
    loops={1: _packet_loop('resp', 'rcvd_extensions', 2)},
    local_types={'rcvd_extensions': 'seq[tuple[bytes,bytes]]', 'resp': 'obj:SSHPacket'},
    requires=lambda c: z3.And(c.old('_version') >= 3, c.old('_version') <= 6, z3.Not(c.oldv('_reader').isnone)),
    ensures=[('session continues only with a version in 3..6', version_invariant),
             ('extension pairs read as sent', extensions_as_sent)],
    lemmas=extensions_lemma,
    raises={'SFTPBadMessage': True, 'SFTPConnectionLost': True, 'SFTPError': True, 'CancelledError': True})
client_version_exchange.no_replay = True


# codec contracts (SFTPLimits / SFTPVFSAttrs / SFTPName / SFTPAttrs encode + decode against enc_spec) live in a
# separate module written against the same property id
import sys as _sys             # noqa: E402
_sys.modules.pop(__name__.rsplit('.', 1)[0] + '.c14_codecs', None)     # re-register its Specs on every (re)load
from .c14_codecs import *      # noqa: F401,F403,E402
ASSUMPTIONS += CODEC_NOTES
