"""C18 - config files resolve like OpenSSH, and never expand unsafe input.  Sidecar contracts.

Sources of the clauses: ssh_config(5) / sshd_config(5) ("for each parameter, the first obtained value will be
used"; keywords and the argument keywords yes/no/none/... are case-insensitive; Match criteria are ANDed, each
may be negated with '!'; TOKENS and ENVIRONMENT expansion), and the asyncssh 2.2x advisory on unsafe user names.

The option map is a symbolic dict[str, pyobj]: `pyobj` is a z3 datatype None | bool | int | str | list[str] |
() | pair (pyvc/values.py), so "explicit none is stored as None and still counts as set" is expressible.
"""
import z3
from pyvc.contracts import *
from pyvc.engine import LoopSpec, Out, Prove
from pyvc.values import *

PROP = 'C18'
P = pyobj_sort()
SEQSTR = z3.SeqSort(StrS)

ASSUMPTIONS = [
    'str.lower() is the uninterpreted function lower_s (the engine model of .lower()); keyword comparisons of the '
    'specification use the same function, i.e. "case-insensitive" is taken to mean "equal after .lower()"',
    'int(text) is modelled by the uninterpreted pair int_literal_ok_s / int_literal_val_s',
    'list values held in the option map are modelled by value; aliasing with the previous config (shallow copies '
    'in __init__/get_options) is covered by forbidding in-place list mutation in the accumulators (ghost event '
    'pyobj_inplace_mutation), not by modelling object identity',
    'socket.AF_UNSPEC / AF_INET / AF_INET6 are the integer values of the checking host (read from the socket module)',
]

lower = z3.Function('lower_s', StrS, StrS)
int_ok = z3.Function('int_literal_ok_s', StrS, BoolS)
int_val = z3.Function('int_literal_val_s', StrS, IntS)


def S(x):
    return z3.StringVal(x)


def one_of(x, *words):
    return z3.Or([x == S(w) for w in words])


# ------------------------------------------------------------------ heap shape
CFG_FIELDS = {
    '_options': 'dict[str,pyobj]', '_tokens': 'dict[str,str]', '_matching': 'bool',
    '_canonical': 'bool', '_final': 'opt[bool]', '_path': 'opaque:Path', '_line_no': 'int',
    '_default_path': 'opaque:Path',
}
CLIENT_FIELDS = dict(CFG_FIELDS, _local_user='str', _orig_host='str')
SERVER_FIELDS = dict(CFG_FIELDS, _local_addr='str', _local_port='int', _user='str', _host='str', _addr='str')
CLASSES = {'SSHConfig': CFG_FIELDS, 'SSHClientConfig': CLIENT_FIELDS, 'SSHServerConfig': SERVER_FIELDS}

# self._error(reason) is executed from its real source (raises ConfigParseError)
ERROR_INLINE = {'self._error': ('config', 'SSHConfig._error')}


# ------------------------------------------------------------------ the setter contract (first value wins)
def args0(c):
    return c.arg('args')[0]


def consumed(n):
    """exactly the first n arguments are consumed (n may be a z3 int)"""
    def post(c):
        a0, a1 = c.arg('args'), c.local('args')
        return a1 == z3.Extract(a0, n(c) if callable(n) else z3.IntVal(n), z3.Length(a0))
    return post


def first_wins(c):
    """option already has a value (an explicit `none`, stored as None, counts): the whole map is unchanged"""
    o, n = c.oldv('_options'), c.newv('_options')
    has = z3.Select(o.dom, c.arg('option'))
    return z3.Implies(has, z3.And(n.dom == o.dom, n.val == o.val))


def sets_parsed(parse):
    def post(c):
        o, n = c.oldv('_options'), c.newv('_options')
        k = c.arg('option')
        has = z3.Select(o.dom, k)
        return z3.Implies(z3.Not(has), z3.And(n.dom == z3.Store(o.dom, k, True),
                                              n.val == z3.Store(o.val, k, parse(c))))
    return post


def frame_on_error(c):
    """a rejected line changes nothing"""
    o, n = c.oldv('_options'), c.newv('_options')
    return z3.And(n.dom == o.dom, n.val == o.val)


def other_fields_kept(c):
    return z3.And(c.new('_matching') == c.old('_matching'),
                  c.newv('_tokens').dom == c.oldv('_tokens').dom, c.newv('_tokens').val == c.oldv('_tokens').val)


def args_nonempty(ex, st):
    """the precondition len(args) >= 1, encoded constructively (args = [a0] + rest): same set of inputs, but z3 can
    build models of it (it cannot for `nth` of an unconstrained list of strings), so the CPython cross-check runs"""
    v = VSeq(z3.Concat(z3.Unit(z3.String('args_0')), z3.Const('args_rest', SEQSTR)), 'str')
    st.env['args'] = v
    st.inputs['args'] = v


def setter(name, parse, invalid=None, nargs=1, self_class='SSHConfig', owner='SSHConfig', need=1, **kw):
    """Contract shared by every first-value-wins setter.
    parse(c)   -> PyObj term: the value the first argument(s) denote (from the man page)
    invalid(c) -> z3 Bool: the argument is not a legal value (ConfigParseError, also when already set)"""
    inv = invalid or (lambda c: z3.BoolVal(False))
    raises = {}
    if invalid is not None:
        raises['ConfigParseError'] = lambda c: z3.And(inv(c), frame_on_error(c))
    return Spec(
        PROP, 'config', f'{owner}.{name}', self_class=self_class, classes=CLASSES,
        params={'option': 'str', 'args': 'seq[str]'}, inline=dict(ERROR_INLINE),
        requires=lambda c: z3.Length(c.arg('args')) >= need,      # parse(): "Missing <option> value" otherwise
        ensures=[('first-wins', first_wins), ('sets-parsed', sets_parsed(parse)),
                 ('valid-input', lambda c: z3.Not(inv(c))), ('consumes-its-arguments', consumed(nargs)),
                 ('other-state-kept', other_fields_kept)],
        raises=raises, setup=args_nonempty, **kw)


def l0(c):
    return lower(args0(c))


def is_yes(x):
    return one_of(x, 'yes', 'true')


def is_no(x):
    return one_of(x, 'no', 'false')


set_bool = setter('_set_bool', lambda c: P.py_bool(is_yes(l0(c))),
                  invalid=lambda c: z3.Not(z3.Or(is_yes(l0(c)), is_no(l0(c)))))

set_bool_or_str = setter('_set_bool_or_str',
                         lambda c: z3.If(is_yes(l0(c)), P.py_bool(True),
                                         z3.If(is_no(l0(c)), P.py_bool(False), P.py_str(args0(c)))))

set_int = setter('_set_int', lambda c: P.py_int(int_val(args0(c))), invalid=lambda c: z3.Not(int_ok(args0(c))))

# `none` (any case) means "explicitly no value": stored as None, and that None is a value (first-wins applies)
set_string = setter('_set_string', lambda c: z3.If(l0(c) == S('none'), P.py_none, P.py_str(args0(c))))


def string_list_value(c):
    a = c.arg('args')
    return z3.If(z3.And(z3.Length(a) == 1, lower(a[0]) == S('none')), P.py_strlist(z3.Empty(SEQSTR)),
                 P.py_strlist(a))


set_string_list = setter('_set_string_list', string_list_value, nargs=lambda c: z3.Length(c.arg('args')))

import socket as _socket
AF = {'any': int(_socket.AF_UNSPEC), 'inet': int(_socket.AF_INET), 'inet6': int(_socket.AF_INET6)}
SOCKET_CONSTS = {('socket', 'AF_UNSPEC'): VInt(AF['any']), ('socket', 'AF_INET'): VInt(AF['inet']),
                 ('socket', 'AF_INET6'): VInt(AF['inet6'])}

set_address_family = setter(
    '_set_address_family',
    lambda c: P.py_int(z3.If(l0(c) == S('any'), AF['any'], z3.If(l0(c) == S('inet'), AF['inet'], AF['inet6']))),
    invalid=lambda c: z3.Not(one_of(l0(c), 'any', 'inet', 'inet6')),
    globals={'socket': VTag('class:socket')}, class_consts=SOCKET_CONSTS)

set_canonicalize_host = setter(
    '_set_canonicalize_host',
    lambda c: z3.If(is_yes(l0(c)), P.py_bool(True), z3.If(is_no(l0(c)), P.py_bool(False), P.py_str(S('always')))),
    invalid=lambda c: z3.Not(z3.Or(is_yes(l0(c)), is_no(l0(c)), l0(c) == S('always'))))

set_request_tty = setter(
    '_set_request_tty',
    lambda c: z3.If(is_yes(l0(c)), P.py_bool(True), z3.If(is_no(l0(c)), P.py_bool(False), P.py_str(l0(c)))),
    invalid=lambda c: z3.Not(z3.Or(is_yes(l0(c)), is_no(l0(c)), one_of(l0(c), 'force', 'auto'))),
    self_class='SSHClientConfig', owner='SSHClientConfig')


def rekey_value(c):
    a = c.arg('args')
    b = lower(a[0])
    byte_limit = z3.If(b == S('default'), P.py_tuple0, P.py_str(b))
    t = lower(a[1])
    time_limit = z3.If(z3.Length(a) >= 2, z3.If(t == S('none'), P.py_none, P.py_str(t)), P.py_tuple0)
    return P.py_tuple2(byte_limit, time_limit)


set_rekey_limits = setter('_set_rekey_limits', rekey_value,
                          nargs=lambda c: z3.If(z3.Length(c.arg('args')) >= 2, z3.IntVal(2), z3.IntVal(1)))


# ------------------------------------------------------------------ accumulating options
def old_list(c):
    """old.get(option, [])"""
    o = c.oldv('_options')
    k = c.arg('option')
    return z3.If(z3.Select(o.dom, k), P.py_l(z3.Select(o.val, k)), z3.Empty(SEQSTR))


def accumulates(added):
    def post(c):
        o, n = c.oldv('_options'), c.newv('_options')
        k = c.arg('option')
        return z3.And(n.dom == z3.Store(o.dom, k, True),
                      n.val == z3.Store(o.val, k, P.py_strlist(z3.Concat(old_list(c), added(c)))))
    return post


def accumulated_is_list(c):
    """class invariant of accumulating options: their value, once present, is a list (each such keyword has one
    handler; writers: _append_string, _append_string_list - proved below as `stays-a-list`)"""
    o = c.oldv('_options')
    k = c.arg('option')
    return z3.Implies(z3.Select(o.dom, k), P.is_py_strlist(z3.Select(o.val, k)))


def stays_a_list(c):
    n = c.newv('_options')
    k = c.arg('option')
    return z3.And(z3.Select(n.dom, k), P.is_py_strlist(z3.Select(n.val, k)))


def no_inplace_mutation(c):
    """SSHConfig.__init__ / get_options take SHALLOW copies of the previous config's option map, so every list found
    in _options may be the very object held by the previous config (and by the base options it came from).  An
    accumulator must therefore build a new list; appending in place would rewrite the previous config.  Lists are
    by-value in this model, so the property is stated on the engine's ghost event for in-place list mutation."""
    return z3.BoolVal(len(c.events('pyobj_inplace_mutation')) == 0)


append_string = Spec(
    PROP, 'config', 'SSHConfig._append_string', self_class='SSHConfig', classes=CLASSES,
    params={'option': 'str', 'args': 'seq[str]'},
    requires=lambda c: z3.And(z3.Length(c.arg('args')) >= 1, accumulated_is_list(c)), setup=args_nonempty,
    ensures=[('accumulates',
              accumulates(lambda c: z3.If(l0(c) == S('none'), z3.Empty(SEQSTR), z3.Unit(args0(c))))),
             ('stays-a-list', stays_a_list), ('consumes-its-arguments', consumed(1)),
             ('other-state-kept', other_fields_kept)],
    always=[('previous-config-lists-not-mutated', no_inplace_mutation)])

append_string_list = Spec(
    PROP, 'config', 'SSHConfig._append_string_list', self_class='SSHConfig', classes=CLASSES,
    params={'option': 'str', 'args': 'seq[str]'},
    requires=lambda c: z3.And(z3.Length(c.arg('args')) >= 1, accumulated_is_list(c)), setup=args_nonempty,
    ensures=[('accumulates', accumulates(lambda c: c.arg('args'))),
             ('stays-a-list', stays_a_list),
             ('consumes-its-arguments', consumed(lambda c: z3.Length(c.arg('args')))),
             ('other-state-kept', other_fields_kept)],
    always=[('previous-config-lists-not-mutated', no_inplace_mutation)])


# ------------------------------------------------------------------ server: the remote user name and %u
# Specification of "could change the meaning of a path", written independently of the regular expression in
# config.py (the engine translates that regex from the source text with CPython's own parser, pyvc/regex_model.py):
#   the name is exactly '..', or starts with '~' or with a drive prefix <ASCII letter>':', or contains '/' or '\'
#   anywhere, or contains a complete environment reference '${' ... '}' (what _env_pattern would expand: the body
#   is any run of non-newline characters).
_RE = z3.ReSort(StrS)
_ANY = z3.Full(_RE)
_LETTER = z3.Union(z3.Range('A', 'Z'), z3.Range('a', 'z'))
_NOT_NL = z3.Diff(z3.AllChar(_RE), z3.Re(S('\n')))
_ENVREF = z3.Concat(_ANY, z3.Re(S('${')), z3.Star(_NOT_NL), z3.Re(S('}')), _ANY)


_UNSAFE = z3.Union(z3.Re(S('..')), z3.Concat(z3.Re(S('~')), _ANY), z3.Concat(_LETTER, z3.Re(S(':')), _ANY),
                   z3.Concat(_ANY, z3.Re(S('/')), _ANY), z3.Concat(_ANY, z3.Re(S('\\')), _ANY), _ENVREF)


def unsafe_user(u, also=()):
    return z3.InRe(u, z3.Union(_UNSAFE, *also) if also else _UNSAFE)


def tokens_set(c, pairs):
    o, n = c.oldv('_tokens'), c.newv('_tokens')
    dom, val = o.dom, o.val
    for k, v in pairs:
        dom, val = z3.Store(dom, S(k), True), z3.Store(val, S(k), v)
    return z3.And(n.dom == dom, n.val == val)


def tokens_kept(c):
    return tokens_set(c, [])


def options_kept(c):
    o, n = c.oldv('_options'), c.newv('_options')
    return z3.And(n.dom == o.dom, n.val == o.val)


server_set_tokens = Spec(
    PROP, 'config', 'SSHServerConfig._set_tokens', self_class='SSHServerConfig', classes=CLASSES,
    ensures=[('unsafe-user-never-substituted', lambda c: z3.Not(unsafe_user(c.old('_user')))),
             ('u-token-is-the-user', lambda c: tokens_set(c, [('u', c.old('_user'))])),
             ('options-kept', options_kept)],
    # rejecting is only allowed for unsafe names; Python's `$` also accepts a trailing newline, so '..\n' is
    # rejected as well (harmless over-approximation of "exactly '..'", kept explicit here)
    raises={'IllegalUserName': lambda c: z3.And(unsafe_user(c.old('_user'), also=[z3.Re(S('..\n'))]),
                                                tokens_kept(c), options_kept(c))})


# ------------------------------------------------------------------ Host / Match evaluation
from pyvc.engine import Record
from pyvc.builtins_model import join_fn

# wildcard pattern-list matching (pattern.py, separate unit) is abstract: (pattern list text, value) -> bool
wildm = z3.Function('wildcard_patlist_matches', StrS, P, BoolS)
hostm = z3.Function('host_patlist_matches', StrS, P, BoolS)
exec_ok = z3.Function('exec_status_is_0', StrS, BoolS)
join_str = join_fn(StrS, SEQSTR)

PAT_CLASSES = dict(CLASSES, WildPat={'pattern': 'str'}, HostPat={'pattern': 'str'})


def pat_ctor(cls):
    def stub(cx):
        ref = cx.st.alloc(Record(cls, {'pattern': cx.args[0]}), cls)
        return [Out(ret=ref)]
    stub.modifies = ()
    return stub


def wild_matches_stub(cx):
    pat = cx.field('pattern', cx.recv)
    return VBool(wildm(pat.z, py_inject(cx.ex.deref(cx.st, cx.args[0]))))


def host_matches_stub(cx):
    """HostPatternList.matches(host, addr, ip): only called with host=None; ip is derived from addr"""
    pat = cx.field('pattern', cx.recv)
    return VBool(hostm(pat.z, py_inject(cx.ex.deref(cx.st, cx.args[1]))))


wild_matches_stub.modifies = ()
host_matches_stub.modifies = ()
PAT_STUBS = {'WildcardPatternList': pat_ctor('WildPat'), 'HostPatternList': pat_ctor('HostPat'),
             'WildPat.matches': wild_matches_stub, 'HostPat.matches': host_matches_stub}

# ssh_config(5) Host: "If more than one pattern is provided, they should be separated by whitespace"; ssh (readconf.c)
# tests every argument of the line on its own with match_pattern(): the block applies iff some non-negated argument
# matches the host name given on the command line and no '!'-negated one does.  A comma is an ordinary character
# in such an argument (comma-separated lists belong to Match).
#   host_line(args, value)   : that rule over the argument list (uninterpreted; only the two library facts below)
#   split_commas(text)       : text.split(',')
host_line = z3.Function('host_line_matches', SEQSTR, P, BoolS)
split_commas = z3.Function('split_commas', StrS, SEQSTR)
no_comma = z3.Function('no_argument_contains_a_comma', SEQSTR, BoolS)


def match_host_library_facts(c):
    """assumed library behaviour (pattern.py _PatternList docstring; str.join / str.split algebra):
    a pattern list applies the same positive/negative rule to its comma-separated parts, and splitting a comma
    join gives the parts back when no part contains a comma"""
    a = c.arg('args')
    joined = join_str(S(','), a)
    v = P.py_str(c.old('_orig_host'))
    return [wildm(joined, v) == host_line(split_commas(joined), v),
            z3.Implies(no_comma(a), split_commas(joined) == a)]


def host_line_post(c):
    return c.new('_matching') == host_line(c.arg('args'), P.py_str(c.old('_orig_host')))


# Two clauses, so that the recorded comma defect (F-C18-2) does not hide anything else about the Host rule: for
# arguments without commas the rule must hold as it is (value matched = the ORIGINAL host, patterns as written - no
# case folding, no Hostname rewrite); the second clause is the comma case alone and is refuted on the current tree.
match_host = Spec(
    PROP, 'config', 'SSHClientConfig._match_host', self_class='SSHClientConfig', classes=PAT_CLASSES,
    params={'option': 'str', 'args': 'seq[str]'}, lemmas=match_host_library_facts,
    stubs=dict(PAT_STUBS, **{'self._match_val': contract_stub(lambda: client_match_val_spec)}),
    ensures=[('host-rule-on-comma-free-arguments',
              lambda c: z3.Implies(no_comma(c.arg('args')), host_line_post(c))),
             ('comma-in-an-argument-is-an-ordinary-character',
              lambda c: z3.Implies(z3.Not(no_comma(c.arg('args'))), host_line_post(c))),
             ('consumes-its-arguments', lambda c: z3.Length(c.local('args')) == 0),
             ('options-kept', options_kept), ('tokens-kept', tokens_kept)])


def opt_get(c, key, default):
    o = c.oldv('_options')
    return z3.If(z3.Select(o.dom, S(key)), z3.Select(o.val, S(key)), default)


LOCAL_IPS = z3.Const('local_ips', SEQSTR)


def client_match_val(c, kw):
    """value a client Match criterion is compared with (ssh_config(5) Match: host = the possibly rewritten
    Hostname, originalhost = the name given on the command line, user = the target user, localuser, tagged)"""
    host, luser = P.py_str(c.old('_orig_host')), P.py_str(c.old('_local_user'))
    table = [('host', opt_get(c, 'Hostname', host)), ('originalhost', host), ('localnetwork', P.py_strlist(LOCAL_IPS)),
             ('localuser', luser), ('user', opt_get(c, 'User', luser)), ('tagged', opt_get(c, 'Tag', P.py_str(S(''))))]
    r = P.py_none
    for k, v in reversed(table):
        r = z3.If(kw == S(k), v, r)
    return r


def server_match_val(c, kw):
    lport = z3.Function('str_of_int', IntS, StrS)(c.old('_local_port'))
    table = [('localaddress', c.old('_local_addr')), ('localport', lport), ('user', c.old('_user')),
             ('host', c.old('_host')), ('address', c.old('_addr'))]
    r = P.py_none
    for k, v in reversed(table):
        r = z3.If(kw == S(k), P.py_str(v), r)
    return r


def state_kept(c):
    return z3.And(options_kept(c), tokens_kept(c), c.new('_matching') == c.old('_matching'))


client_match_val_spec = Spec(
    PROP, 'config', 'SSHClientConfig._match_val', self_class='SSHClientConfig', classes=CLASSES,
    params={'match': 'str'}, returns='pyobj', modifies=[],
    stubs={'_get_local_ips': lambda cx: VSeq(LOCAL_IPS, 'str')},
    ensures=[('criterion-value', lambda c: py_inject(c.result_v) == client_match_val(c, c.arg('match'))),
             ('pure', state_kept)])


def str_int_stub(cx):
    """str(int): decimal text, abstract but functional"""
    return VStr(z3.Function('str_of_int', IntS, StrS)(cx.args[0].z))


server_match_val_spec = Spec(
    PROP, 'config', 'SSHServerConfig._match_val', self_class='SSHServerConfig', classes=CLASSES,
    params={'match': 'str'}, returns='pyobj', modifies=[], stubs={'str': str_int_stub},
    ensures=[('criterion-value', lambda c: py_inject(c.result_v) == server_match_val(c, c.arg('match'))),
             ('pure', state_kept)])


# ------------------------------------------------------------------ token / environment expansion
# re.sub(callback) itself (one left-to-right pass, non-overlapping matches) is library behaviour and stays abstract:
#   tok_expand(tokens, s) = s with every '%x' replaced by tokens[x]      tok_ok = every such x is a known token
#   env_expand(s)         = s with every '${V}' replaced by environ[V]   env_ok = every such V is set
TOKMAP = (z3.ArraySort(StrS, BoolS), z3.ArraySort(StrS, StrS))
tok_expand = z3.Function('tok_expand', TOKMAP[0], TOKMAP[1], StrS, StrS)
tok_ok = z3.Function('tok_ok', TOKMAP[0], TOKMAP[1], StrS, BoolS)
env_expand = z3.Function('env_expand', StrS, StrS)
env_ok = z3.Function('env_ok', StrS, BoolS)
ENVIRON = VMap(z3.Const('environ$dom', z3.ArraySort(StrS, BoolS)), z3.Const('environ$val', z3.ArraySort(StrS, StrS)),
               'str', 'str')


def expand(dom, val, s):
    return env_expand(tok_expand(dom, val, s))


def expand_ok(dom, val, s):
    return z3.And(tok_ok(dom, val, s), env_ok(tok_expand(dom, val, s)))


def sub_stub(which):
    def stub(cx):
        cb, text = cx.args
        want = '._expand_token' if which == 'tok' else '._expand_env'
        if not (isinstance(cb, VTag) and cb.tag.startswith('method:') and cb.tag.endswith(want)):
            # the wrong callback is attached to this pattern: nothing is known about the result
            return [Out(ret=cx.fresh('str', 'sub_with_unexpected_callback')), Out(exc=VExc('ConfigParseError'))]
        t = cx.ex.deref(cx.st, text)
        if which == 'tok':
            tk = cx.selff('_tokens')
            res, ok = tok_expand(tk.dom, tk.val, t.z), tok_ok(tk.dom, tk.val, t.z)
        else:
            res, ok = env_expand(t.z), env_ok(t.z)
        return [Out(ret=VStr(res), assume=[ok]), Out(exc=VExc('ConfigParseError'), assume=[z3.Not(ok)])]
    stub.modifies = ()
    return stub


MATCH_CLASSES = dict(CLASSES, Match={'g1': 'str'})


def group_stub(cx):
    if concrete_int(cx.args[0]) != 1:
        raise Unsupported('match.group(n) with n != 1')
    return cx.field('g1', cx.recv)


group_stub.modifies = ()

expand_token = Spec(
    PROP, 'config', 'SSHConfig._expand_token', self_class='SSHConfig', classes=MATCH_CLASSES,
    params={'match': 'obj:Match'}, stubs={'match.group': group_stub},
    ensures=[('known-token-value',
              lambda c: z3.And(z3.Select(c.oldv('_tokens').dom, c.old('g1', c.argv('match'))),
                               c.result == z3.Select(c.oldv('_tokens').val, c.old('g1', c.argv('match'))))),
             ('pure', state_kept)],
    raises={'ConfigParseError': lambda c: z3.And(z3.Not(z3.Select(c.oldv('_tokens').dom,
                                                                  c.old('g1', c.argv('match')))), state_kept(c))},
    returns='str')

expand_env = Spec(
    PROP, 'config', 'SSHConfig._expand_env', classes={'Match': {'g1': 'str'}},
    params={'match': 'obj:Match'}, stubs={'match.group': group_stub},
    globals={'os': VTag('class:os')}, class_consts={('os', 'environ'): ENVIRON},
    ensures=[('set-variable-value',
              lambda c: z3.And(z3.Select(ENVIRON.dom, c.old('g1', c.argv('match'))),
                               c.result == z3.Select(ENVIRON.val, c.old('g1', c.argv('match')))))],
    raises={'ConfigParseError': lambda c: z3.Not(z3.Select(ENVIRON.dom, c.old('g1', c.argv('match'))))},
    returns='str')
expand_env.no_replay = True       # static method reading the real process environment

expand_val = Spec(
    PROP, 'config', 'SSHConfig._expand_val', self_class='SSHConfig', classes=CLASSES, params={'value': 'str'},
    stubs={'_token_pattern.sub': sub_stub('tok'), '_env_pattern.sub': sub_stub('env')},
    ensures=[('environment-expansion-of-the-token-expansion',
              lambda c: c.result == expand(c.oldv('_tokens').dom, c.oldv('_tokens').val, c.arg('value'))),
             ('only-when-every-reference-resolves',
              lambda c: expand_ok(c.oldv('_tokens').dom, c.oldv('_tokens').val, c.arg('value'))),
             ('pure', state_kept)],
    raises={'ConfigParseError': lambda c: z3.And(
        z3.Not(expand_ok(c.oldv('_tokens').dom, c.oldv('_tokens').val, c.arg('value'))), state_kept(c))},
    returns='str', modifies=[])


def hostname_tokens(c):
    """while Hostname is unset, %h stands for the host name given by the caller"""
    t = c.oldv('_tokens')
    return z3.Store(t.dom, S('h'), True), z3.Store(t.val, S('h'), c.old('_orig_host'))


def hostname_sets(c):
    o, n = c.oldv('_options'), c.newv('_options')
    k = c.arg('option')
    d, v = hostname_tokens(c)
    return z3.Implies(z3.Not(z3.Select(o.dom, k)),
                      z3.And(n.dom == z3.Store(o.dom, k, True),
                             n.val == z3.Store(o.val, k, P.py_str(expand(d, v, args0(c)))),
                             expand_ok(d, v, args0(c))))


set_hostname = Spec(
    PROP, 'config', 'SSHClientConfig._set_hostname', self_class='SSHClientConfig', classes=CLASSES,
    params={'option': 'str', 'args': 'seq[str]'}, setup=args_nonempty,
    stubs={'self._expand_val': contract_stub(lambda: expand_val)},
    requires=lambda c: z3.Length(c.arg('args')) >= 1,
    ensures=[('first-wins', lambda c: z3.And(first_wins(c), z3.Implies(
                 z3.Select(c.oldv('_options').dom, c.arg('option')), tokens_kept(c)))),
             ('sets-expanded', hostname_sets), ('consumes-its-arguments', consumed(1)),
             ('matching-kept', lambda c: c.new('_matching') == c.old('_matching'))],
    raises={'ConfigParseError': lambda c: z3.And(
        z3.Not(z3.Select(c.oldv('_options').dom, c.arg('option'))),
        z3.Not(expand_ok(*hostname_tokens(c), args0(c))), options_kept(c))})


# ------------------------------------------------------------------ Compression
get_compression_algs = Spec(
    PROP, 'config', 'SSHConfig.get_compression_algs', self_class='SSHConfig', classes=CLASSES,
    inline={'self.get': ('config', 'SSHConfig.get')},
    ensures=[('unset-means-default', lambda c: z3.Implies(
                 opt_get(c, 'Compression', P.py_none) == P.py_none, c.eq(c.result_v, VTuple([])))),
             ('yes-prefers-zlib', lambda c: z3.Implies(
                 opt_get(c, 'Compression', P.py_none) == P.py_bool(True),
                 c.eq(c.result_v, VStr('zlib@openssh.com,zlib,none')))),
             ('no-prefers-none', lambda c: z3.Implies(
                 opt_get(c, 'Compression', P.py_none) == P.py_bool(False),
                 c.eq(c.result_v, VStr('none,zlib@openssh.com,zlib')))),
             ('pure', state_kept)])


# ------------------------------------------------------------------ Match: conjunction of possibly negated criteria
# ssh_config(5): "Match ... the conditions ... all criteria on the Match line must be satisfied", "criteria may be
# negated by prepending an exclamation mark".  match_all(args) is the recursive definition of that sentence; only
# instances of its definition (one unfolding at the list the loop is looking at) are given to the solver.
match_all = z3.Function('match_all_criteria', SEQSTR, BoolS)


def final_true(v):
    """`Match final` holds only in the final pass (tri-state _final: None = never asked, False, True)"""
    if v is VNone:
        return z3.BoolVal(False)
    if isinstance(v, VBool):
        return v.z
    return z3.And(z3.Not(v.isnone), v.val.z)


# Match localnetwork <networks>: some local interface address lies in one of the networks
localnet = z3.Function('some_local_address_matches', StrS, BoolS)


def localnet_def(arg):
    """definition of localnet at one pattern (exists over the interface address list)"""
    j = z3.Int('ip_j')
    return localnet(arg) == z3.Exists([j], z3.And(0 <= j, j < z3.Length(LOCAL_IPS),
                                                  hostm(arg, P.py_str(LOCAL_IPS[j]))))


def localnet_inv(c):
    """addresses seen so far do not match"""
    if not c.has_local('host_pat'):
        return z3.BoolVal(True)
    j = z3.Int('seen_j')
    pat = c.ex.get_field(c.new_state, c.localv('host_pat'), 'pattern').z
    ips = c.extra['iter'].z
    return z3.And(ips == LOCAL_IPS,
                  z3.ForAll([j], z3.Implies(z3.And(0 <= j, j < c.extra['i']), z3.Not(hostm(pat, P.py_str(ips[j]))))))


def criterion(c, kw, arg, role):
    mv = client_match_val(c, kw) if role == 'client' else server_match_val(c, kw)
    return z3.If(kw == S('all'), True,
                 z3.If(kw == S('canonical'), c.old('_canonical'),
                       z3.If(kw == S('final'), final_true(c.oldv('_final')),
                             z3.If(kw == S('exec'), exec_ok(arg),
                                   z3.If(one_of(kw, 'address', 'localaddress'), hostm(arg, mv),
                                         z3.If(kw == S('localnetwork'), localnet(arg), wildm(arg, mv)))))))


def unfold_match_all(c, a, role):
    n = z3.Length(a)
    raw = lower(a[0])
    neg = z3.SubString(raw, 0, 1) == S('!')
    kw = z3.If(neg, z3.SubString(raw, 1, z3.Length(raw) - 1), raw)
    noarg = one_of(kw, 'all', 'canonical', 'final')
    holds = z3.Xor(criterion(c, kw, a[1], role), neg)
    return z3.If(n == 0, match_all(a),
                 match_all(a) == z3.And(holds, match_all(z3.If(noarg, z3.Extract(a, 1, n - 1),
                                                               z3.Extract(a, 2, n - 2)))))


# Match final: the criterion is false in the first pass, but having met it the config must remember that a final pass
# is wanted (has_match_final); mentions_final(args) = some criterion of the line is `final` (negated or not).
# Rejection: a Match line is rejected iff it is not well formed - a criterion keyword this role does not know, a
# criterion without its pattern, or `localnetwork` without the ifaddr module.  Both are recursive over the argument
# list like match_all (definitional unfoldings only).
mentions_final = z3.Function('match_line_mentions_final', SEQSTR, BoolS)
well_formed = z3.Function('match_line_well_formed', SEQSTR, BoolS)
IFADDR = z3.Bool('ifaddr_available')


def _criterion_head(a):
    raw = lower(a[0])
    neg = z3.SubString(raw, 0, 1) == S('!')
    kw = z3.If(neg, z3.SubString(raw, 1, z3.Length(raw) - 1), raw)
    return neg, kw, one_of(kw, 'all', 'canonical', 'final')


def unfold_line_facts(c, a, role):
    n = z3.Length(a)
    _neg, kw, noarg = _criterion_head(a)
    rest = z3.If(noarg, z3.Extract(a, 1, n - 1), z3.Extract(a, 2, n - 2))
    mv = client_match_val(c, kw) if role == 'client' else server_match_val(c, kw)
    known = z3.And(z3.Or(kw == S('exec'), mv != P.py_none), z3.Or(kw != S('localnetwork'), IFADDR))
    return [z3.If(n == 0, z3.Not(mentions_final(a)), mentions_final(a) == z3.Or(kw == S('final'), mentions_final(rest))),
            z3.If(n == 0, well_formed(a),
                  well_formed(a) == z3.And(z3.Or(noarg, z3.And(known, n >= 2)), well_formed(rest)))]


def final_marked(v):
    return z3.Not(v.isnone) if isinstance(v, VOpt) else z3.BoolVal(v is not VNone)


def match_inv(c):
    a0, a = c.arg('args'), c.local('args')
    marked_now, marked_before = final_marked(c.newv('_final')), final_marked(c.oldv('_final'))
    return z3.And(match_all(a0) == z3.And(c.local('matching'), match_all(a)),
                  final_true(c.newv('_final')) == final_true(c.oldv('_final')),
                  z3.Or(marked_now, mentions_final(a0) == mentions_final(a)),
                  z3.Implies(z3.And(marked_now, z3.Not(marked_before)), mentions_final(a0)),
                  z3.Implies(marked_before, marked_now),
                  well_formed(a0) == well_formed(a))


def match_lemmas(role):
    """definitional instances of match_all / mentions_final / well_formed: the base case at the current list, and
    - from the first statement of an iteration on - one unfolding at the list the iteration started with"""
    def lemmas(c):
        head = getattr(c, 'head', None) or c.new_state
        cur = c.new_state.env['args'].z
        ha = head.env['args'].z
        out = [z3.Implies(z3.Length(cur) == 0, z3.And(match_all(cur), z3.Not(mentions_final(cur)), well_formed(cur)))]
        if cur.eq(ha):
            c.new_state.heap['__c18_head_args__'] = ha        # for the raise outcomes of this iteration
        else:
            out.append(unfold_match_all(c, ha, role))
            out += unfold_line_facts(c, ha, role)
        if c.has_local('host_pat') and not c.has_local('ip') and c.has_local('arg'):
            out.append(localnet_def(c.local('arg')))      # end of an iteration that evaluated `localnetwork`
        return out
    return lemmas


def match_outcome_lemmas(c):
    """a rejection happens inside an iteration: unfold the line facts at the list that iteration started with"""
    ha = c.new_state.heap.get('__c18_head_args__')
    if c.raised is None or ha is None:
        return []
    return unfold_line_facts(c, ha, role_of(c)) + [z3.Length(ha) > 0]


def error_stub(cx):
    return [Out(exc=VExc('ConfigParseError'))]


error_stub.modifies = ()


def exec_stub(cx):
    """Match exec: the command's exit status (a function of the command text; percent expansion of the command,
    which OpenSSH performs, is not done by asyncssh and not modelled).  ssh evaluates criteria left to right and
    stops at the first that fails, so a command may only run while every earlier criterion held."""
    cx.require('exec-runs-only-while-earlier-criteria-held', cx.ex.truthy(cx.st, cx.st.env['matching']))
    return VBool(exec_ok(cx.args[0].z))


exec_stub.modifies = ()

# _match is defined once in SSHConfig and used by both subclasses: one heap shape with the fields of both and a
# ghost role flag fixed per case; self._match_val dispatches to the contract of the subclass method
ANY_CLASSES = dict(PAT_CLASSES, SSHAnyConfig=dict(CLIENT_FIELDS, **dict(SERVER_FIELDS, ghost_is_client='bool')))


def role_of(c):
    return 'client' if concrete_bool(c.old('ghost_is_client')) else 'server'


def match_val_dispatch(cx):
    is_client = concrete_bool(cx.selff('ghost_is_client').z)
    return contract_stub(lambda: client_match_val_spec if is_client else server_match_val_spec)(cx)


match_val_dispatch.modifies = ()

match = Spec(
    PROP, 'config', 'SSHConfig._match', self_class='SSHAnyConfig', classes=ANY_CLASSES,
    params={'option': 'str', 'args': 'seq[str]'},
    cases=[('client', {'ghost_is_client': True}), ('server', {'ghost_is_client': False})],
    globals={'_ifaddr_available': VBool(IFADDR)}, lemmas=match_outcome_lemmas,
    stubs=dict(PAT_STUBS, **{'self._error': error_stub, '_exec': exec_stub, 'self._match_val': match_val_dispatch,
                             'ip_address': ret('opaque:IP', 'ip')}),
    loops={1: LoopSpec(header='args', invariant=match_inv, modifies=['_final'],
                       variant=lambda c: z3.Length(c.local('args')), lemmas=lambda c: match_lemmas(role_of(c))(c)),
           2: LoopSpec(invariant=localnet_inv)},
    local_types={'match_val': 'pyobj'},
    ensures=[('matching-iff-every-criterion-holds', lambda c: c.new('_matching') == match_all(c.arg('args'))),
             ('consumes-its-arguments', lambda c: z3.Length(c.local('args')) == 0),
             ('final-criterion-is-remembered-for-has_match_final',
              lambda c: z3.Implies(mentions_final(c.arg('args')), final_marked(c.newv('_final')))),
             ('final-state-kept-unless-final-is-mentioned',
              lambda c: z3.And(final_true(c.newv('_final')) == final_true(c.oldv('_final')),
                               z3.Implies(z3.Not(mentions_final(c.arg('args'))),
                                          final_marked(c.newv('_final')) == final_marked(c.oldv('_final'))))),
             ('accepted-only-if-well-formed', lambda c: well_formed(c.arg('args'))),
             ('options-kept', options_kept), ('tokens-kept', tokens_kept)],
    raises={'ConfigParseError': lambda c: z3.And(z3.Not(well_formed(c.arg('args'))), options_kept(c),
                                                 tokens_kept(c))})
match.pop_front_witness = True


# ------------------------------------------------------------------ parse(): dispatch of one tokenised line
# Region contract: the part of the per-line loop body after tokenisation (shlex + '=' splitting, not covered) from
# the matching test to the trailing-arguments test.  Inputs of the region: loption (lower-cased keyword), args.
# ssh_config(5): a Host/Match block restricts "the following declarations (up to the next Host or Match keyword)";
# so a non-conditional keyword has NO effect while the current block does not match.
import ast
import copy

LINE_FIELDS = dict(CFG_FIELDS, _conditionals='dict[str,bool]',                  # class attribute, read-only: a set
                   _handlers='dict[str,tuple[str,opaque:Handler]]')             # class attribute, read-only
LINE_CLASSES = {'SSHConfig': LINE_FIELDS}


def line_region(fn):
    loop = None
    for node in ast.walk(fn):
        if isinstance(node, ast.For) and ast.unparse(node.iter) == 'file':
            loop = node
    if loop is None:
        raise Unsupported('parse(): per-line loop `for line in file` not found')
    start = None
    for i, st_ in enumerate(loop.body):
        if isinstance(st_, ast.If) and ast.unparse(st_.test) == 'loption in self._no_split':
            start = i + 1
    if start is None:
        raise Unsupported('parse(): end of the tokenising part (`if loption in self._no_split`) not found')
    body = copy.deepcopy(loop.body[start:])

    class EndOfLine(ast.NodeTransformer):      # one iteration: `continue` ends the region
        def visit_Continue(self, node):
            return ast.copy_location(ast.Return(value=None), node)
    return [ast.fix_missing_locations(EndOfLine().visit(s_)) for s_ in body]


def line_setup(ex, st):
    for name, typ in (('loption', 'str'), ('args', 'seq[str]'), ('line', 'str')):
        st.env[name] = ex.fresh(st, typ, name)
        st.inputs[name] = st.env[name]


def handler_stub(cx):
    """any keyword handler (each has its own contract above): may change the option map, the token map, the
    matching flag and Match-final state, consumes arguments in place, may reject the line"""
    me, option, args = cx.args
    cx.require('handler-is-given-at-least-one-argument', z3.Length(args.z) >= 1)
    ev = ('handler', (cx.ex.deref(cx.st, cx.st.env['handler']), option, args))
    cx.st.env['args'] = cx.fresh('seq[str]', 'args_left')
    outs = []
    for exc in (None, VExc('ConfigParseError')):
        sets = {f: cx.fresh(LINE_FIELDS[f], 'h_' + f) for f in handler_stub.modifies}
        outs.append(Out(sets=sets, exc=exc, event=ev))
    return outs


handler_stub.modifies = ('_options', '_tokens', '_matching', '_final')


def line_active(c):
    """the line takes part in the resolution: the current block matches, or the keyword opens a new block"""
    return z3.Or(c.old('_matching'), z3.Select(c.oldv('_conditionals').dom, c.arg('loption')))


def line_known(c):
    return z3.Select(c.oldv('_handlers').dom, c.arg('loption'))


def line_no_effect(c):
    skipped = z3.Not(z3.And(line_active(c), line_known(c)))
    quiet = z3.BoolVal(len(c.events('handler')) == 0 and c.raised is None)
    return z3.Implies(skipped, z3.And(quiet, state_kept(c)))


def line_dispatch(c):
    """a known keyword on an active line: its handler (the one registered under the lower-cased keyword) runs
    exactly once with the canonical option name and the line's arguments - or the line is rejected for having no
    arguments before anything runs"""
    evs = c.events('handler')
    if len(evs) > 1:
        return z3.BoolVal(False)
    entry = z3.Select(c.oldv('_handlers').val, c.arg('loption'))
    t = c.ex.spec.classes['SSHConfig']['_handlers'].args[1]
    name, handler = from_z3(entry, t).items
    if not evs:
        return z3.Implies(z3.And(line_active(c), line_known(c)),
                          z3.And(c.raised == 'ConfigParseError', z3.Length(c.arg('args')) == 0, state_kept(c)))
    (h, option, args), = [e[1] for e in evs]
    return z3.And(line_active(c), line_known(c), c.eq(h, handler), c.eq(option, name), args.z == c.arg('args'))


def line_leftover(c):
    """arguments the handler did not consume are an error, never silently dropped"""
    if c.raised is not None or not c.events('handler'):
        return z3.BoolVal(True)
    return z3.Length(c.local('args')) == 0


parse_line = Spec(
    PROP, 'config', 'SSHConfig.parse', self_class='SSHConfig', classes=LINE_CLASSES, params={'path': 'opaque:Path'},
    region=line_region, setup=line_setup, inline=dict(ERROR_INLINE), stubs={'handler': handler_stub},
    cases=[('line-dispatch', {})],
    always=[('inactive-or-unknown-line-has-no-effect', line_no_effect),
            ('active-known-line-runs-its-handler-once', line_dispatch),
            ('leftover-arguments-are-rejected', line_leftover)],
    raises={'ConfigParseError': True})
parse_line.no_replay = True       # a region of parse(), not a callable



# ------------------------------------------------------------------ parse(): final percent expansion of one option
# Region contract: the body of `for option in self._percent_expand` (one option).  ssh_config(5) TOKENS /
# ENVIRONMENT VARIABLES: the listed keywords have every argument expanded; a list-valued option elementwise.
def expand_region(fn):
    for node in ast.walk(fn):
        if isinstance(node, ast.For) and ast.unparse(node.iter) == 'self._percent_expand':
            return [ast.fix_missing_locations(s_) for s_ in copy.deepcopy(node.body)]
    raise Unsupported('parse(): loop `for option in self._percent_expand` not found')


def expand_val_term_stub(cx):
    """the proved contract of _expand_val (spec expand_val above), restated with the result as an explicit term"""
    t = cx.selff('_tokens')
    v = cx.ex.deref(cx.st, cx.args[0])
    if isinstance(v, VPy):          # str branch of the region: isinstance(value, str) holds on this path
        v = VStr(P.py_s(v.z))
    ok = expand_ok(t.dom, t.val, v.z)
    return [Out(ret=VStr(expand(t.dom, t.val, v.z)), assume=[ok]),
            Out(exc=VExc('ConfigParseError'), assume=[z3.Not(ok)])]


expand_val_term_stub.modifies = ()


def expanded_value(c, nv):
    """nv is the old value with expansion applied (elementwise for a list, directly for a str, else unchanged)"""
    o, t = c.oldv('_options'), c.oldv('_tokens')
    ov = z3.Select(o.val, c.arg('option'))
    k = z3.Int('elem_k')
    L, R = P.py_l(ov), P.py_l(nv)
    as_list = z3.And(P.is_py_strlist(nv), z3.Length(R) == z3.Length(L),
                     z3.ForAll([k], z3.Implies(z3.And(0 <= k, k < z3.Length(L)),
                                               z3.And(R[k] == expand(t.dom, t.val, L[k]),
                                                      expand_ok(t.dom, t.val, L[k])))))
    as_str = z3.And(nv == P.py_str(expand(t.dom, t.val, P.py_s(ov))), expand_ok(t.dom, t.val, P.py_s(ov)))
    return z3.If(P.is_py_strlist(ov), as_list, z3.If(P.is_py_str(ov), as_str, nv == ov))


def expand_one_post(c):
    o, n = c.oldv('_options'), c.newv('_options')
    k = c.arg('option')
    nv = z3.Select(n.val, k)
    return z3.If(z3.Select(o.dom, k),
                 z3.And(n.dom == o.dom, n.val == z3.Store(o.val, k, nv), expanded_value(c, nv)),
                 z3.And(n.dom == o.dom, n.val == o.val))


def expand_one_error(c):
    """rejected only because some reference in the option's value does not resolve; nothing is changed"""
    o, t = c.oldv('_options'), c.oldv('_tokens')
    ov = z3.Select(o.val, c.arg('option'))
    j = z3.Int('bad_j')
    L = P.py_l(ov)
    bad_list = z3.And(P.is_py_strlist(ov), z3.Exists([j], z3.And(0 <= j, j < z3.Length(L),
                                                                  z3.Not(expand_ok(t.dom, t.val, L[j])))))
    bad_str = z3.And(P.is_py_str(ov), z3.Not(expand_ok(t.dom, t.val, P.py_s(ov))))
    return z3.And(z3.Select(o.dom, c.arg('option')), z3.Or(bad_list, bad_str), options_kept(c))


def expand_setup(ex, st):
    st.env['option'] = ex.fresh(st, 'str', 'option')
    st.inputs['option'] = st.env['option']


# File level: ssh expands a value exactly once.  parse() is entered once per config path (load), once per included
# file (_include) and again on an object that starts from a previous config's map - always on the same option map.
# ghost_expanded = the options whose current value is already the result of an expansion (by an earlier parse() on
# this map).  Such a value must not be expanded again: '%%h' would become '%h' and then the host name, and a token or
# environment VALUE containing '%' or '${' (on the server: the remote user name) would be re-interpreted.
# ghost_config_complete = this parse() call is the last thing the load reads (no further line, file or Include
# follows).  ssh expands a value when it is used, i.e. with the tokens of the FINAL option map (Hostname / User / Port
# set after an Include count); so nothing may be expanded while the configuration is still being read - a repair
# that merely skips already-expanded values would freeze the early tokens and still fail this clause.
EXPAND_CLASSES = {'SSHConfig': dict(CFG_FIELDS, ghost_expanded='dict[str,bool]', ghost_config_complete='bool')}


def expanded_once(c):
    k = c.arg('option')
    again = z3.And(z3.Select(c.oldv('ghost_expanded').dom, k), z3.Select(c.oldv('_options').dom, k))
    return z3.Implies(again, options_kept(c))


parse_expand = Spec(
    PROP, 'config', 'SSHConfig.parse', self_class='SSHConfig', classes=EXPAND_CLASSES, params={'path': 'opaque:Path'},
    region=expand_region, setup=expand_setup, stubs={'self._expand_val': expand_val_term_stub},
    cases=[('expand-one-option', {})],
    ensures=[('value-expanded-in-place', expand_one_post),
             ('tokens-and-matching-kept', lambda c: z3.And(tokens_kept(c), c.new('_matching') == c.old('_matching')))],
    always=[('already-expanded-value-is-not-expanded-again', expanded_once),
            ('values-are-expanded-only-when-the-whole-configuration-is-read',
             lambda c: z3.Implies(z3.Not(c.old('ghost_config_complete')), options_kept(c)))],
    raises={'ConfigParseError': expand_one_error})
parse_expand.no_replay = True
parse_expand.map_comprehensions = True



# ------------------------------------------------------------------ Include
# ssh_config(5) Include: "Include the specified configuration file(s).  Multiple pathnames may be specified and each
# pathname may contain glob(7) wildcards" - every file a pattern matches is read, at this point of the including
# file, and reading goes on in the including file afterwards (its name / line number for messages, and an active
# block: Include is only dispatched on an active line, see parse[line-dispatch]).
# The file system is assumed: pathlib operations return fresh paths, and list(p for p in path.glob(pattern) if
# p.is_file()) is "the regular files the pattern matches, in glob order" (ghost_found collects them; ghost_parsed
# collects what self.parse() was called with).
FILE = 'opaque:File'
INC_FIELDS = dict(CFG_FIELDS, ghost_found='seq[' + FILE + ']', ghost_parsed='seq[' + FILE + ']')
INC_CLASSES = {'SSHConfig': INC_FIELDS, 'PathObj': {'anchor': 'str', 'parts': 'seq[str]'}}
GLOB_TEXT = 'p for p in path.glob(pattern) if p.is_file()'


def new_path_stub(cx):
    return [Out(ret=cx.ex.new_object(cx.st, 'PathObj', 'path'))]


new_path_stub.modifies = ()


def glob_files_stub(cx):
    if ast.unparse(cx.node.args[0]).strip('()') != GLOB_TEXT.strip('()'):
        raise Unsupported('_include: the file enumeration is no longer `list(' + GLOB_TEXT + ')`')
    files = cx.fresh('seq[' + FILE + ']', 'glob_files')
    found = cx.selff('ghost_found')
    return [Out(ret=files, sets={'ghost_found': VSeq(z3.Concat(found.z, files.z), FILE)})]


glob_files_stub.modifies = ('ghost_found',)


def parse_file_stub(cx):
    """self.parse(path): reads one file on this object - anything in the resolution state may change, the current
    file name / line number are overwritten, and the file may be rejected or unreadable"""
    f = cx.args[0]
    if not (isinstance(f, VOpaque) and f.sortname == 'File'):
        raise Unsupported(f'_include: parse() called with {f!r}, not with a file found by the glob')
    parsed = cx.selff('ghost_parsed')
    outs = []
    for exc in (None, VExc('ConfigParseError'), VExc('OSError')):
        sets = {k: cx.fresh(INC_FIELDS[k], 'p_' + k) for k in ('_options', '_tokens', '_matching', '_final',
                                                                 '_path', '_line_no')}
        sets['ghost_parsed'] = VSeq(z3.Concat(parsed.z, z3.Unit(f.z)), FILE)
        outs.append(Out(sets=sets, exc=exc))
    return outs


parse_file_stub.modifies = ('_options', '_tokens', '_matching', '_final', '_path', '_line_no', 'ghost_parsed')


def include_inner_inv(c):
    it = c.extra['iter'].z
    i = c.extra['i']
    return z3.Concat(c.new('ghost_parsed'), z3.Extract(it, i, z3.Length(it) - i)) == c.new('ghost_found')


include = Spec(
    PROP, 'config', 'SSHConfig._include', self_class='SSHConfig', classes=INC_CLASSES,
    params={'option': 'str', 'args': 'seq[str]'},
    stubs={'Path': new_path_stub, 'PathObj.expanduser': new_path_stub, 'list(<genexp>)': glob_files_stub,
           'self.parse': parse_file_stub},
    loops={1: LoopSpec(header='for pattern in args',
                       invariant=lambda c: c.new('ghost_parsed') == c.new('ghost_found')),
           2: LoopSpec(header='for path in paths', invariant=include_inner_inv)},
    local_types={'path': FILE},
    requires=lambda c: c.old('ghost_parsed') == c.old('ghost_found'),
    ensures=[('every-matched-file-is-read-in-glob-order', lambda c: c.new('ghost_parsed') == c.new('ghost_found')),
             ('reading-resumes-in-the-including-file',
              lambda c: z3.And(c.new('_path') == c.old('_path'), c.new('_line_no') == c.old('_line_no'))),
             ('including-block-is-active-again', lambda c: c.new('_matching')),
             ('consumes-its-arguments', lambda c: z3.Length(c.local('args')) == 0)],
    raises={'ConfigParseError': True, 'OSError': True})


# ------------------------------------------------------------------ bounded stand-in: the real ssh as oracle
ASSUMPTIONS += [
    'not under contract: the shlex / "=" tokeniser front end of parse() and SSHConfig.load; the tokeniser (incl. fixed '
    '"=" forms), Include, first-value-wins across blocks and Match-after-Hostname are sampled against the real '
    '`ssh -G` (bounded stand-in, not a proof); keyword / expansion / block tables are checked as data lemmas (AST)',
    'pattern matching itself (pattern.py WildcardPatternList / HostPatternList) is an uninterpreted predicate',
    'Match exec: exit status is a function of the command text; ip_address() of a socket address does not raise',
    '"could change the meaning of a path" is read as the language of the asyncssh unsafe-user advisory (.., leading ~ '
    'or drive prefix, / or \\ anywhere, a complete ${...}); NOT in that language and therefore not claimed: the '
    'names "." and "" (/keys/%u becomes the directory itself) and names containing "%" (harmless only if a value is '
    'expanded once - see the expanded-once finding)',
    '_match_host: two library facts are assumed as callee/external contracts - a pattern list applies the '
    'positive/negative rule to its comma-separated parts (pattern.py _PatternList), and str.split(",") inverts '
    '",".join when no part contains a comma; they only serve to relate the code to the per-argument ssh rule',
    '_include: pathlib / glob / is_file are assumed (the files a pattern matches, in glob order); parse() of an '
    'included file is an assumed havoc of the resolution state; client _set_tokens: socket.gethostname, '
    'os.path.expanduser, os.getuid and sha1 are assumed functions, str.find uses the engine quantifier-free model',
    'pass structure: load() is verified for a list of path strings (the single str / PurePath form is not); '
    '"copy, not alias" of option maps is checked on engine value identity plus the ghost event dict_copy; the '
    'connection.py call sites are checked as data (argument names) and by one native options-level case',
    'known disagreements with ssh that are recorded, not repaired (each has its own obligation): Host a,b; trailing '
    '# comment; double / premature expansion; "=" after a verbatim keyword; quoted "=" in Match exec; the final pass '
    'restarts from the base options instead of keeping first-pass values; Match canonical is false in the final '
    'pass; Match host patterns are not lower-cased.  The generated ssh -G sample avoids exactly these forms',
    'unsafe user: a name such as "${X" completes an environment reference only together with a "}" from the '
    'configured template; outside the advisory language, not claimed',
    'expand_val_term_stub restates the proved contract of _expand_val with the result as an explicit term (needed '
    'by the map-comprehension model, which cannot use fresh result symbols)',
]




# ------------------------------------------------------------------ client token table
# asyncssh docs/api.rst "client config token expansions" (same letters as ssh_config(5) TOKENS):
#   %C hash of (local host, host, port, user)   %d local home   %h remote host   %i local uid   %L short local host
#   %l local host   %n original remote host   %p remote port   %r remote username   %u local username
# Environment (assumed): socket.gethostname(), os.path.expanduser('~'), os.getuid() exist (UNIX), sha1 is a function.
LOCALHOST, HOMEDIR, UID = z3.String('local_hostname'), z3.String('home_directory'), z3.Int('local_uid')
str_of_py = z3.Function('str_of_pyobj', P, StrS)
sha1hex = z3.Function('sha1_hexdigest', BytesS, StrS)
utf8 = z3.Function('encode_utf8', StrS, BytesS)
TOK_CLASSES = dict(CLASSES, Sha={'data': 'bytes'})


def _as_str(cx, v):
    v = cx.ex.deref(cx.st, v)
    if isinstance(v, VPy):
        cx.require('joined-value-is-a-str', P.is_py_str(v.z))
        return P.py_s(v.z)
    return v.z


def join_empty_stub(cx):
    items = cx.ex.deref(cx.st, cx.args[0]).items
    return VStr(z3.Concat(*[_as_str(cx, i) for i in items]))


def sha1_stub(cx):
    ref = cx.st.alloc(Record('Sha', {'data': cx.args[0]}), 'Sha')
    return [Out(ret=ref)]


TOKEN_STUBS = {'socket.gethostname': lambda cx: VStr(LOCALHOST), 'os.path.expanduser': lambda cx: VStr(HOMEDIR),
               'os.getuid': lambda cx: VInt(UID), 'hasattr': lambda cx: VBool(True),
               'str': lambda cx: VStr(str_of_py(py_inject(cx.ex.deref(cx.st, cx.args[0])))),
               "''.join": join_empty_stub, 'sha1': sha1_stub,
               'Sha.hexdigest': lambda cx: VStr(sha1hex(cx.field('data', cx.recv).z))}
for _f in TOKEN_STUBS.values():
    _f.modifies = ()


def remote_user(c):
    u = opt_get(c, 'User', P.py_none)
    return z3.If(z3.And(P.is_py_str(u), z3.Length(P.py_s(u)) > 0), P.py_s(u), c.old('_local_user'))


TOKEN_KEYS = ['h', 'n', 'p', 'r', 'u', 'l', 'L', 'C', 'i', 'd']


def token_is(c, key, value):
    n = c.newv('_tokens')
    return z3.And(z3.Select(n.dom, S(key)), z3.Select(n.val, S(key)) == value)


def tok_host(c):
    return P.py_s(opt_get(c, 'Hostname', P.py_str(c.old('_orig_host'))))


def tok_port(c):
    return str_of_py(opt_get(c, 'Port', P.py_int(22)))


def short_host_ok(c):
    """%L: the local host name up to (not including) its first '.'"""
    n = c.newv('_tokens')
    short = z3.Select(n.val, S('L'))
    return z3.And(z3.Select(n.dom, S('L')), z3.PrefixOf(short, LOCALHOST), z3.Not(z3.Contains(short, S('.'))),
                  z3.Or(short == LOCALHOST, z3.SubString(LOCALHOST, z3.Length(short), 1) == S('.')))


def home_token(c):
    o, n = c.oldv('_tokens'), c.newv('_tokens')
    return z3.If(HOMEDIR != S('~'), token_is(c, 'd', HOMEDIR),
                 z3.And(z3.Select(n.dom, S('d')) == z3.Select(o.dom, S('d')),
                        z3.Select(n.val, S('d')) == z3.Select(o.val, S('d'))))


def other_tokens_kept(c):
    """nothing but the documented letters changes (e.g. '%%' stays)"""
    o, n = c.oldv('_tokens'), c.newv('_tokens')
    dom, val = o.dom, o.val
    for k in TOKEN_KEYS:
        dom, val = z3.Store(dom, S(k), z3.Select(n.dom, S(k))), z3.Store(val, S(k), z3.Select(n.val, S(k)))
    return z3.And(n.dom == dom, n.val == val)


def client_token_inv(c):
    """values the token table reads (writers: _set_hostname stores a str; User is set by _set_string: str or None,
    or by __init__ from the `user` argument)"""
    o = c.oldv('_options')
    h, u = z3.Select(o.val, S('Hostname')), z3.Select(o.val, S('User'))
    return z3.And(z3.Implies(z3.Select(o.dom, S('Hostname')), P.is_py_str(h)),
                  z3.Implies(z3.Select(o.dom, S('User')), z3.Or(P.is_py_str(u), u == P.py_none)))


client_set_tokens = Spec(
    PROP, 'config', 'SSHClientConfig._set_tokens', self_class='SSHClientConfig', classes=TOK_CLASSES,
    stubs=dict(TOKEN_STUBS), requires=client_token_inv, globals={'os': VTag('class:os')}, tags=['find-qf'],
    ensures=[('%h-is-the-remote-host', lambda c: token_is(c, 'h', tok_host(c))),
             ('%n-is-the-original-host', lambda c: token_is(c, 'n', c.old('_orig_host'))),
             ('%p-is-the-remote-port', lambda c: token_is(c, 'p', tok_port(c))),
             ('%r-is-the-remote-user', lambda c: token_is(c, 'r', remote_user(c))),
             ('%u-is-the-local-user', lambda c: token_is(c, 'u', c.old('_local_user'))),
             ('%l-is-the-local-host', lambda c: token_is(c, 'l', LOCALHOST)),
             ('%L-is-the-short-local-host', short_host_ok),
             ('%C-is-the-hash-of-local-host-host-port-user', lambda c: token_is(
                 c, 'C', sha1hex(utf8(z3.Concat(LOCALHOST, tok_host(c), tok_port(c), remote_user(c)))))),
             ('%i-is-the-local-uid', lambda c: token_is(c, 'i', str_of_py(P.py_int(UID)))),
             ('%d-is-the-home-directory-when-known', home_token),
             ('other-tokens-kept', other_tokens_kept), ('options-kept', options_kept),
             ('matching-kept', lambda c: c.new('_matching') == c.old('_matching'))])
client_set_tokens.no_replay = True       # reads the real host name / uid / home directory



# ------------------------------------------------------------------ pass structure: constructors, get_options, load
# connection.py resolves a config in passes on ONE chain of config objects: pass 1 load(None | base, paths, reload=False,
# canonical=False, final=False, ...); if the host was canonicalised or the config asked for it (has_match_final) a
# further pass load(previous, paths, reload=True, canonical, final, ...).  What the pieces must do for that to work:
#   __init__      takes its flags unswapped (final -> tri-state True / not-yet-asked), starts matching, starts from a
#                 COPY of previous.get_options(reload) (or nothing), the caller's user / port override what was inherited
#   get_options   reload: what this object itself started from, else what it resolved - as a copy
#   has_match_final  a `Match final` was met (or this is the final pass)
#   load          constructs with the arguments in order and parses the paths in order
# Dicts are values in the model; "copy, not alias" is checked on the engine's value identity plus the ghost event
# dict_copy (an aliased map would share one engine value).
PASS_FIELDS = dict(CFG_FIELDS, _last_options='dict[str,pyobj]', loaded='bool')
PASS_CLIENT = dict(PASS_FIELDS, _local_user='str', _orig_host='str')
PASS_SERVER = dict(PASS_FIELDS, _local_addr='str', _local_port='int', _user='str', _host='str', _addr='str')
PASS_CLASSES = {'SSHConfig': PASS_FIELDS, 'SSHClientConfig': PASS_CLIENT, 'SSHServerConfig': PASS_SERVER,
                'PathObj': {'anchor': 'str', 'parts': 'seq[str]'}}
EMPTY_DOM = z3.K(StrS, z3.BoolVal(False))
EMPTY_VAL = z3.K(StrS, P.py_none)


def map_terms(c, v, st=None):
    """(dom, val) arrays of a dict value: symbolic map as is, concrete dict display built up from the empty map"""
    v = c.ex.deref(st or c.new_state, v)
    if isinstance(v, VMap):
        return v.dom, v.val
    dom, val = EMPTY_DOM, EMPTY_VAL
    for k, x in v.items.items():
        dom, val = z3.Store(dom, S(k), True), z3.Store(val, S(k), py_inject(c.ex.deref(st or c.new_state, x)))
    return dom, val


def same_object(c, a, b):
    if isinstance(a, VRef) and isinstance(b, VRef):
        return a.addr == b.addr
    return a is b


get_options_spec = Spec(
    PROP, 'config', 'SSHConfig.get_options', self_class='SSHConfig', classes=PASS_CLASSES, params={'reload': 'bool'},
    returns='dict[str,pyobj]', modifies=[],
    ensures=[('reload-gives-what-this-config-started-from-else-what-it-resolved', lambda c: z3.And(
                 map_terms(c, c.result_v)[0] == z3.If(c.arg('reload'), c.oldv('_last_options').dom, c.oldv('_options').dom),
                 map_terms(c, c.result_v)[1] == z3.If(c.arg('reload'), c.oldv('_last_options').val, c.oldv('_options').val))),
             ('result-is-a-copy', lambda c: z3.BoolVal(
                 len(c.events('dict_copy')) == 1 and not same_object(c, c.result_v, c.newv('_options'))
                 and not same_object(c, c.result_v, c.newv('_last_options'))))])

has_match_final_spec = Spec(
    PROP, 'config', 'SSHConfig.has_match_final', self_class='SSHConfig', classes=PASS_CLASSES, returns='bool', modifies=[],
    ensures=[('true-iff-a-final-pass-was-asked-for-or-is-running',
              lambda c: c.result == final_marked(c.oldv('_final')))])


def inherited(c):
    """(dom, val) the new object starts from: previous.get_options(reload), or nothing"""
    lc = c.argv('last_config')
    if lc is VNone:
        return EMPTY_DOM, EMPTY_VAL
    ref = lc.val if isinstance(lc, VOpt) else lc
    o = c.ex.get_field(c.old_state, ref, '_options')
    lo = c.ex.get_field(c.old_state, ref, '_last_options')
    dom, val = z3.If(c.arg('reload'), lo.dom, o.dom), z3.If(c.arg('reload'), lo.val, o.val)
    if isinstance(lc, VOpt):
        return z3.If(lc.isnone, EMPTY_DOM, dom), z3.If(lc.isnone, EMPTY_VAL, val)
    return dom, val


def init_flags(c):
    return z3.And(c.new('_canonical') == c.arg('canonical'),
                  final_true(c.newv('_final')) == c.arg('final'), final_marked(c.newv('_final')) == c.arg('final'),
                  c.new('_matching'), z3.Not(c.new('loaded')))


def init_started_from(c):
    dom, val = inherited(c)
    ld, lv = map_terms(c, c.newv('_last_options'))
    return z3.And(ld == dom, lv == val)


def init_options(overrides):
    def post(c):
        dom, val = inherited(c)
        for key, arg in overrides:
            given = py_inject(c.argv(arg)) != P.py_tuple0
            dom = z3.If(given, z3.Store(dom, S(key), True), dom)
            val = z3.If(given, z3.Store(val, S(key), py_inject(c.argv(arg))), val)
        od, ov = map_terms(c, c.newv('_options'))
        return z3.And(od == dom, ov == val)
    return post


def init_not_aliased(c):
    return z3.BoolVal(not same_object(c, c.newv('_options'), c.newv('_last_options'))
                      and len(c.events('dict_copy')) >= 1)


def tokens_empty(c):
    return map_terms(c, c.newv('_tokens'))[0] == EMPTY_DOM


INIT_STUBS = {'last_config.get_options': contract_stub(lambda: get_options_spec), 'Path': new_path_stub,
              'PathObj.expanduser': new_path_stub}
INIT_PARAMS = {'last_config': 'opt[obj:SSHConfig]', 'reload': 'bool', 'canonical': 'bool', 'final': 'bool'}
INIT_COMMON = [('flags-reach-the-parser-unswapped', init_flags),
               ('starts-from-the-previous-config-or-nothing', init_started_from),
               ('option-map-is-a-copy-not-an-alias', init_not_aliased), ('no-tokens-yet', tokens_empty)]

base_init = Spec(
    PROP, 'config', 'SSHConfig.__init__', self_class='SSHConfig', classes=PASS_CLASSES, params=dict(INIT_PARAMS),
    stubs=dict(INIT_STUBS), ensures=INIT_COMMON + [('options-are-the-inherited-ones', init_options([]))])

client_init = Spec(
    PROP, 'config', 'SSHClientConfig.__init__', self_class='SSHClientConfig', classes=PASS_CLASSES,
    params=dict(INIT_PARAMS, local_user='str', user='pyobj', host='str', port='pyobj'),
    stubs=dict(INIT_STUBS), inline={'super().__init__': ('config', 'SSHConfig.__init__')},
    ensures=INIT_COMMON + [
        ('caller-user-and-port-override-what-was-inherited', init_options([('User', 'user'), ('Port', 'port')])),
        ('local-user-and-original-host-are-the-arguments',
         lambda c: z3.And(c.new('_local_user') == c.arg('local_user'), c.new('_orig_host') == c.arg('host')))])

server_init = Spec(
    PROP, 'config', 'SSHServerConfig.__init__', self_class='SSHServerConfig', classes=PASS_CLASSES,
    params=dict(INIT_PARAMS, local_addr='str', local_port='int', user='str', host='str', addr='str'),
    stubs=dict(INIT_STUBS), inline={'super().__init__': ('config', 'SSHConfig.__init__')},
    ensures=INIT_COMMON + [
        ('options-are-the-inherited-ones', init_options([])),
        ('connection-facts-are-the-arguments',
         lambda c: z3.And(c.new('_local_addr') == c.arg('local_addr'), c.new('_local_port') == c.arg('local_port'),
                          c.new('_user') == c.arg('user'), c.new('_addr') == c.arg('addr'),
                          c.new('_host') == z3.If(z3.Length(c.arg('host')) > 0, c.arg('host'), c.arg('addr'))))])
for _sp in (base_init, client_init, server_init):
    _sp.no_replay = True          # constructors: the native harness builds objects without running __init__

# load(): `cls` is the receiver; ghosts on it record the constructor call and the files parsed
LOAD_CLASSES = {'LoadCls': {'ghost_parsed': 'seq[str]'}, 'Loaded': {'loaded': 'bool'}, 'Prev': {},
                'PathObj': {'text': 'str'}}


def ctor_stub(cx):
    ref = cx.st.alloc(Record('Loaded', {'loaded': VBool(False)}), 'Loaded')
    return [Out(ret=ref, event=('ctor', tuple(cx.args)))]


def path_of_text_stub(cx):
    return [Out(ret=cx.st.alloc(Record('PathObj', {'text': cx.args[0]}), 'PathObj'))]


def load_parse_stub(cx):
    text = cx.ex.get_field(cx.st, cx.args[0], 'text')
    seen = cx.selff('ghost_parsed')
    nv = VSeq(z3.Concat(seen.z, z3.Unit(text.z)), 'str')
    return [Out(osets=[(cx.ex.self_ref, 'ghost_parsed', nv)]),
            Out(osets=[(cx.ex.self_ref, 'ghost_parsed', nv)], exc=VExc('ConfigParseError')),
            Out(osets=[(cx.ex.self_ref, 'ghost_parsed', nv)], exc=VExc('OSError'))]


ctor_stub.modifies = ()
path_of_text_stub.modifies = ()
load_parse_stub.modifies = ('ghost_parsed',)


def load_ctor_args(c):
    evs = c.events('ctor')
    if len(evs) != 1:
        return z3.BoolVal(False)
    got = evs[0][1]
    want = [c.argv('last_config'), c.argv('reload'), c.argv('canonical'), c.argv('final')]
    if len(got) != 5 or not (isinstance(got[4], tuple) and got[4][0] == 'star'):
        return z3.BoolVal(False)
    return z3.And([c.eq(g, w) for g, w in zip(got[:4], want)] + [got[4][1].z == c.arg('args')])


load_spec = Spec(
    PROP, 'config', 'SSHConfig.load', self_class='LoadCls', classes=LOAD_CLASSES,
    params={'last_config': 'opt[obj:Prev]', 'config_paths': 'seq[str]', 'reload': 'bool', 'canonical': 'bool',
            'final': 'bool', 'args': 'seq[pyobj]'},
    globals={'PurePath': VTag('class:PurePath')},
    stubs={'cls': ctor_stub, 'Path': path_of_text_stub, 'Loaded.parse': load_parse_stub},
    loops={1: LoopSpec(header='for path in paths', invariant=lambda c: c.new('ghost_parsed') == z3.Concat(
        c.old('ghost_parsed'), z3.Extract(c.extra['iter'].z, 0, c.extra['i'])))},
    ensures=[('constructed-with-the-arguments-in-order', load_ctor_args),
             ('paths-are-parsed-in-order', lambda c: c.new('ghost_parsed') == z3.Concat(c.old('ghost_parsed'),
                                                                                      c.arg('config_paths'))),
             ('returns-the-new-config-marked-loaded-iff-something-was-read',
              lambda c: z3.And(z3.BoolVal(isinstance(c.result_v, VRef) and c.new_state.rec(c.result_v).cls == 'Loaded'),
                               c.new('loaded', c.result_v) == (z3.Length(c.arg('config_paths')) > 0)))],
    raises={'ConfigParseError': True, 'OSError': True})
load_spec.no_replay = True        # classmethod verified with `cls` as the receiver object


# ------------------------------------------------------------------ data tables (checked on the source text, AST)
# keyword -> kind of argument, from ssh_config(5) / sshd_config(5) (flag = yes/no, int, string = one argument that may
# be `none`, list = all arguments / first directive wins, acc = every directive adds, acclist = every directive adds
# all its arguments) and the keywords with an argument grammar of their own
KIND_HANDLER = {'flag': '_set_bool', 'int': '_set_int', 'string': '_set_string', 'list': '_set_string_list',
                'acc': '_append_string', 'acclist': '_append_string_list'}
CLIENT_KEYWORDS = {
    'flag': ['CanonicalizeFallbackLocal', 'ChallengeResponseAuthentication', 'Compression', 'EnableSSHKeySign',
             'ForwardX11Trusted', 'GSSAPIAuthentication', 'GSSAPIDelegateCredentials', 'GSSAPIKeyExchange',
             'HostbasedAuthentication', 'IdentitiesOnly', 'KbdInteractiveAuthentication', 'PasswordAuthentication',
             'PubkeyAuthentication', 'TCPKeepAlive'],
    'int': ['CanonicalizeMaxDots', 'ConnectTimeout', 'Port', 'ServerAliveCountMax', 'ServerAliveInterval'],
    'string': ['BindAddress', 'CASignatureAlgorithms', 'Ciphers', 'HostKeyAlgorithms', 'HostKeyAlias', 'IdentityAgent',
               'KexAlgorithms', 'MACs', 'PKCS11Provider', 'PreferredAuthentications', 'ProxyCommand', 'ProxyJump',
               'RemoteCommand', 'Tag', 'User'],
    'list': ['CanonicalDomains', 'CanonicalizePermittedCNAMEs', 'GlobalKnownHostsFile', 'SetEnv', 'UserKnownHostsFile'],
    'acc': ['CertificateFile', 'IdentityFile'],
    'acclist': ['SendEnv'],
}
CLIENT_SPECIAL = {'Host': '_match_host', 'Match': '_match', 'Include': '_include',
                  'AddressFamily': '_set_address_family', 'CanonicalizeHostname': '_set_canonicalize_host',
                  'ForwardAgent': '_set_bool_or_str', 'Hostname': '_set_hostname', 'RekeyLimit': '_set_rekey_limits',
                  'RequestTTY': '_set_request_tty'}
SERVER_KEYWORDS = {
    'flag': ['AllowAgentForwarding', 'CanonicalizeFallbackLocal', 'ChallengeResponseAuthentication', 'Compression',
             'GSSAPIAuthentication', 'GSSAPIKeyExchange', 'HostbasedAuthentication', 'KbdInteractiveAuthentication',
             'PasswordAuthentication', 'PermitTTY', 'PubkeyAuthentication', 'TCPKeepAlive', 'UseDNS'],
    'int': ['CanonicalizeMaxDots', 'ClientAliveCountMax', 'ClientAliveInterval', 'LoginGraceTime', 'Port'],
    'string': ['BindAddress', 'CASignatureAlgorithms', 'Ciphers', 'KexAlgorithms', 'MACs'],
    'list': ['AuthorizedKeysFile', 'CanonicalDomains', 'CanonicalizePermittedCNAMEs'],
    'acc': ['HostCertificate', 'HostKey'],
    'acclist': [],
}
SERVER_SPECIAL = {'Match': '_match', 'Include': '_include', 'AddressFamily': '_set_address_family',
                  'CanonicalizeHostname': '_set_canonicalize_host', 'RekeyLimit': '_set_rekey_limits'}
# asyncssh docs/api.rst "These expansions are available in the values of the following config options"
DOC_EXPANDED_CLIENT = {'CertificateFile', 'IdentityAgent', 'IdentityFile', 'RemoteCommand'}
# ssh_config(5) TOKENS: "ProxyCommand, ProxyJump accept the tokens %%, %h, %n, %p, and %r" - required as well
MAN_EXPANDED_CLIENT = {'ProxyCommand'}
# further keywords whose argument ssh itself expands (ssh_config(5) TOKENS: ProxyCommand) or that name an agent socket
# path exactly like IdentityAgent (ForwardAgent): allowed in the table, nothing else is
MAY_EXPAND_CLIENT = DOC_EXPANDED_CLIENT | {'ProxyCommand', 'ForwardAgent'}
DOC_EXPANDED_SERVER = {'AuthorizedKeysFile'}


def _class_attr(cls, name):
    from pyvc import extract
    for st_ in extract.get_module('config').classes[cls].body:
        tgt = st_.targets[0] if isinstance(st_, ast.Assign) else getattr(st_, 'target', None)
        if isinstance(tgt, ast.Name) and tgt.id == name and getattr(st_, 'value', None) is not None:
            return st_.value
    return None


def _set_attr(cls, name):
    node = _class_attr(cls, name)
    if node is None:
        return None
    if isinstance(node, ast.Call) and ast.unparse(node) == 'set()':
        return set()
    return set(ast.literal_eval(node))


def _handler_table(cls):
    """{keyword: handler function name} from `_handlers = {option.lower(): (option, handler) for option, handler in (...)}`"""
    node = _class_attr(cls, '_handlers')
    if not (isinstance(node, ast.DictComp) and ast.unparse(node.key) == 'option.lower()'
            and ast.unparse(node.value) == '(option, handler)' and len(node.generators) == 1
            and ast.unparse(node.generators[0].target) == '(option, handler)'
            and isinstance(node.generators[0].iter, ast.Tuple)):
        return None
    out = {}
    for el in node.generators[0].iter.elts:
        k, h = el.elts
        if k.value in out:
            return None
        out[k.value] = h.attr if isinstance(h, ast.Attribute) else h.id
    return out


def _handler_lemma(cls, keywords, special):
    table = _handler_table(cls)
    if table is None:
        return [f'{cls}._handlers is not the literal keyword table any more']
    want = dict(special)
    for kind, names in keywords.items():
        for n in names:
            want[n] = KIND_HANDLER[kind]
    bad = [f'{k}: handled by {table[k]}, its argument grammar needs {want[k]}' for k in sorted(want)
           if k in table and table[k] != want[k]]
    bad += [f'{k}: keyword lost' for k in sorted(want) if k not in table]
    bad += [f'{k}: keyword without a documented argument grammar' for k in sorted(table) if k not in want]
    if len({k.lower() for k in table}) != len(table):
        bad.append('two spellings of one keyword')
    return bad


def _expand_lemma():
    bad = []
    c, s_ = _set_attr('SSHClientConfig', '_percent_expand'), _set_attr('SSHServerConfig', '_percent_expand')
    if s_ is None:
        s_ = _set_attr('SSHConfig', '_percent_expand')       # inherited by the server class
    if c is None or s_ is None:
        return ['_percent_expand tables not found']
    bad += [f'client {k}: documented as token-expanded but not in _percent_expand'
            for k in sorted((DOC_EXPANDED_CLIENT | MAN_EXPANDED_CLIENT) - c)]
    bad += [f'client {k}: expanded although neither asyncssh nor ssh documents tokens for it'
            for k in sorted(c - MAY_EXPAND_CLIENT)]
    if s_ != DOC_EXPANDED_SERVER:
        bad.append(f'server _percent_expand is {sorted(s_)}, documented {sorted(DOC_EXPANDED_SERVER)}')
    tc, ts = _handler_table('SSHClientConfig') or {}, _handler_table('SSHServerConfig') or {}
    bad += [f'{k} is expanded but is not a keyword' for k in sorted(c - set(tc)) + sorted(s_ - set(ts))]
    return bad


def _block_lemma():
    """which keywords open a block (are evaluated on inactive lines) and which take the rest of the line verbatim"""
    want = {('SSHConfig', '_conditionals'): {'match'}, ('SSHClientConfig', '_conditionals'): {'host', 'match'},
            ('SSHConfig', '_no_split'): set(), ('SSHClientConfig', '_no_split'): {'proxycommand', 'remotecommand'}}
    bad = [f'{c}.{n} is {sorted(_set_attr(c, n) or [])}, expected {sorted(v)}' for (c, n), v in want.items()
           if _set_attr(c, n) != v]
    for n in ('_conditionals', '_no_split'):
        if _class_attr('SSHServerConfig', n) is not None:
            bad.append(f'SSHServerConfig overrides {n}')
    return bad


def _scan_tokens(text):
    """reference scanner for '%x': left to right, a '%' followed by any one character (not a newline) is a reference
    to token x and both characters are consumed"""
    out, i = [], 0
    while i < len(text):
        if text[i] == '%' and i + 1 < len(text) and text[i + 1] != '\n':
            out.append((i, i + 2, text[i + 1]))
            i += 2
        else:
            i += 1
    return out


def _scan_env(text):
    """reference scanner for '${NAME}': left to right, '${' up to the NEXT '}' (NAME may be empty, no newline)"""
    out, i = [], 0
    while i < len(text):
        if text.startswith('${', i):
            j = text.find('}', i + 2)
            if j >= 0 and '\n' not in text[i + 2:j]:
                out.append((i, j + 1, text[i + 2:j]))
                i = j + 1
                continue
        i += 1
    return out


def _regex_lemma():
    """_token_pattern / _env_pattern (the source text, compiled here) find exactly the references of the reference
    scanners on every string over {% $ { } a /} up to length 6 and on a few longer ones"""
    import itertools
    import re as _re
    from pyvc import extract, regex_model
    nodes = extract.get_module('config').consts.get('__nodes__', {})
    bad = []
    for name, scan in (('_token_pattern', _scan_tokens), ('_env_pattern', _scan_env)):
        pat = regex_model.pattern_of_node(nodes.get(name)) if nodes.get(name) is not None else None
        if pat is None:
            bad.append(f'{name} is not a module-level re.compile(<literal>) without flags')
            continue
        rx = _re.compile(pat)
        if rx.groups != 1:
            bad.append(f'{name}: the expansion callbacks read group(1), the pattern has {rx.groups} groups')
            continue
        corpus = (''.join(t) for n in range(7) for t in itertools.product('%${}a/', repeat=n))
        extra = ['${A}/x/${B}', '%h%%%p', '100%', '${A', '$A}', '%{a}', '${a${b}}', 'x%\ny', '${a\nb}']
        for text in itertools.chain(corpus, extra):
            got = [(m.start(), m.end(), m.group(1)) for m in rx.finditer(text)]
            if got != scan(text):
                bad.append(f'{name} {pat!r} on {text!r}: finds {got}, references are {scan(text)}')
                break
    return bad


def _call_site_lemma():
    """connection.py hands the config constructors their arguments in the constructor's own order and roles:
    SSHClientConfig.load(last_config, config, reload, canonical, final, <local user>, <remote user>, host, port)"""
    from pyvc import extract
    want = {'SSHClientConfig': ['last_config', 'config', 'reload', 'canonical', 'final', 'local_username', 'username',
                                'host', 'port'],
            # the server side names them after the accepted socket: accept_addr/port = local end, client_* = peer
            'SSHServerConfig': ['last_config', 'config', 'reload', 'canonical', 'final', 'accept_addr', 'accept_port',
                                'username', 'client_host', 'client_addr']}
    ctor = {'SSHClientConfig': ['last_config', 'reload', 'canonical', 'final', 'local_user', 'user', 'host', 'port'],
            'SSHServerConfig': ['last_config', 'reload', 'canonical', 'final', 'local_addr', 'local_port', 'user',
                                'host', 'addr']}
    bad, seen = [], set()
    cfg = extract.get_module('config')
    for cls, params in ctor.items():
        got = [a.arg for a in cfg.get_function(cls + '.__init__').args.args][1:]
        if got != params:
            bad.append(f'{cls}.__init__ parameters are {got}, expected {params}')
    for node in ast.walk(extract.get_module('connection').tree):
        if isinstance(node, ast.Call) and isinstance(node.func, ast.Attribute) and node.func.attr == 'load' \
                and isinstance(node.func.value, ast.Name) and node.func.value.id in want:
            cls = node.func.value.id
            seen.add(cls)
            got = [ast.unparse(a) for a in node.args]
            if got != want[cls] or node.keywords:
                bad.append(f'{cls}.load called with {got}, roles are {want[cls]}')
    bad += [f'no call of {c_}.load found in connection.py' for c_ in want if c_ not in seen]
    return bad


def data_lemmas():
    out = []
    for name, fn in (('C18.data#client-keyword-table-gives-every-keyword-the-handler-of-its-argument-grammar',
                      lambda: _handler_lemma('SSHClientConfig', CLIENT_KEYWORDS, CLIENT_SPECIAL)),
                     ('C18.data#server-keyword-table-gives-every-keyword-the-handler-of-its-argument-grammar',
                      lambda: _handler_lemma('SSHServerConfig', SERVER_KEYWORDS, SERVER_SPECIAL)),
                     ('C18.data#percent-expanded-keywords-are-the-documented-ones', _expand_lemma),
                     ('C18.data#block-keywords-and-verbatim-keywords', _block_lemma),
                     ('C18.data#token-and-environment-reference-patterns-find-exactly-the-references', _regex_lemma),
                     ('C18.data#connection.py-passes-local-and-remote-user-host-port-in-their-roles',
                      _call_site_lemma)):
        try:
            bad = fn()
        except Exception as e:          # a table that can no longer be read is a failed check, not a crash
            bad = [f'table not readable: {e!r}']
        out.append({'name': name, 'verdict': 'refuted' if bad else 'proved', 'detail': bad, 'backend': 'data (AST)',
                    'replayed': True})
    return out


def extra_checks(tier, seed):
    from specs import ssh_config_diff
    from pyvc import extract
    n = 1500 if tier == 'thorough' else 150
    return {'bounded': ssh_config_diff.run_all(n, seed, extract.REPO),
            'lemmas': data_lemmas()}
