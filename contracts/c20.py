"""C20 — forwarded connections relay faithfully and only where permitted.  Sidecar contracts.

Three groups of contracts, all stated from the property / RFC 4254 7 / sshd(8) / RFC 1928 / the SOCKS4(a) memo:

 * permission gates (connection.py): check_key_permission, check_certificate_permission, get_*_option,
   _process_direct_tcpip_open, _process_direct_streamlocal..._open, the two *forward* global requests,
   _finish_port_forward / _finish_path_forward (listener registered <=> success reply) and the cancel requests;
 * the relay (forward.py): ghost streams in/out with the invariant  out ++ _inpbuf == in,  EOF forwarded
   exactly once and after the early data, half-close, close closes both ends, pause/resume forwarded;
 * the SOCKS automaton (socks.py): decode per state, the dispatch loop consumes input or disarms the handler,
   nothing is parsed after close().
"""
import z3
from pyvc.contracts import *
from pyvc.engine import LoopSpec, Out, Prove
from pyvc.values import *
from .common import *

PROP = 'C20'

ASSUMPTIONS = [
    'C20: authorized_keys option keywords are case-insensitive (sshd(8)); the keys of _key_options are lower-case '
    '(proved on OptionsParser._add_option under C17), so key options / permissions are looked up by lower-cased name; '
    'str.lower() is uninterpreted (lower_s)',
    'C20: the typed view ghost_permitopen is what get_key_option("permitopen") returns (a set of (host, port|None) '
    'pairs built by authorized_keys parsing); the options consulted are those captured at authentication (C05)',
    'C20: the application callbacks (connection_requested, server_requested, ...) and forward_local_port / '
    'forward_connection / create_*_listener are abstract: they return an arbitrary value of the documented shapes '
    'or raise the documented error; an awaitable application result is modelled as already resolved (the code '
    'only awaits it and goes on with the value)',
    'C20: between session_factory() (which attaches the peer through SSHForwarder.__init__ -> set_peer) and the '
    'return of the awaited open coroutine no callback of the local transport runs; this is proved for the '
    'library\'s own opener (SSHForwardChannel._open_forward: attach + connection_made + return without a '
    'suspension) and assumed for the remaining return chain (chan.connect / create_connection return the session '
    'without awaiting again).  Data / EOF arriving earlier, while there is no peer, are covered by the contracts of '
    'data_received / eof_received (no-peer case), which is what the model of the await in _forward relies on',
    'C20: class invariant "ordered" (_peer set => _inpbuf empty): writers covered = SSHForwarder.data_received, '
    'eof_received, close, SSHLocalForwarder._forward, SSHSOCKSForwarder.data_received and the ten SOCKS handlers; '
    'the attach step is under contract too: SSHForwarder.__init__ (fresh object: empty buffer, peer told exactly '
    'once, nothing else of the peer touched) and set_peer (only the link changes; it is only called from the '
    'peer\'s __init__ inside the window above, which is why it need not re-establish "ordered" itself)',
    'C20: class invariant "armed" (_recv_handler set => transport open): writers covered = the ten handlers, '
    '_connect (inlined), SSHSOCKSForwarder.data_received and close() as resolved for a SOCKS forwarder; callers of '
    'close() use its contract (closed and disarmed) - the unchanged tree violates it (finding F5, reported at close)',
    'C20: ipaddress.ip_address / str(ip) are uninterpreted (total on 4- and 16-byte packed addresses, printed form '
    'not empty); decode_utf8 / decodable_utf8 are uninterpreted',
    'C20: real TCP/UNIX sockets and loop.create_server are not reached (asyncio.Server.close() is an event); the '
    'loop of SSHConnection._cleanup over _local_listeners is proved under C09 (conn_cleanup: '
    'every-local-listener-closed), the listener side (SSHForwardListener.close, SSHClientListener.close/_close, '
    'close_forward_listener, close_client_*_listener) and the listener-closing part of the client / server '
    '_cleanup overrides are proved here; tun/tap has no permission gate in the code (observation, no obligation)',
    'C20: create_tcp_local_listener: sockets are abstract (socket(), bind() may raise OSError; OverflowError from '
    'bind and a failing loop.create_server(sock=<bound socket>) are not modelled), sockaddr tuples are IPv4-shaped '
    '(host, port), the ghost state lives on the conn argument; not replayed natively (real sockets) - the seeded '
    'change has its own demo',
    'C20: this sidecar owns the FORWARDING gates (direct-tcpip, direct-streamlocal, tcpip-forward, '
    'streamlocal-forward, X11, agent); enforcement of the other stored restrictions (no-pty, command= / '
    'force-command, environment=) in channel.py (_process_pty_req_request, _start_session, '
    'SSHServerChannel.__init__) is under contract in contracts/c05.py',
    'C20: a dynamically bound port (port 0 requested) is not one this connection already listens on for that '
    'address (operating system); for every fixed key the no-live-listener-displaced obligation applies',
]

ANY = opaque_sort('Any')
truthy_any = z3.Function('truthy_Any', ANY, BoolS)


# =====================================================================================================
#  1. permissions
# =====================================================================================================
OPTS = 'dict[str,any]'
PERMITOPEN = 'opt[dict[tuple[str,opt[int]],bool]]'      # a set of (host, port | None): membership only

SRV_FIELDS = {
    '_key_options': OPTS, '_cert_options': 'opt[' + OPTS + ']',
    'ghost_permitopen': PERMITOPEN,
    '_owner': 'opt[obj:Owner]',
    }
SRV_CLASSES = {'SSHServerConnection': SRV_FIELDS, 'Owner': {}, 'Chan': {}, 'SSHClientConnection': {}, 'Session': {},
               'Listener': {}}


def same_z(v, z):
    """value v is the z3 term z (False, not a crash, when a changed source makes v something else)"""
    if isinstance(v, VOpt):
        return z3.And(z3.Not(v.isnone), same_z(v.val, z))
    if not hasattr(v, 'z') or not z3.is_expr(v.z) or v.z.sort() != z.sort():
        return z3.BoolVal(False)
    return v.z == z


def nonempty_fn(dom):
    return z3.Function('nonempty_' + str(dom.sort()), dom.sort(), BoolS)


def dict_truth_lemma(m, key):
    """definitional instance of dict truthiness: a dict that has a key is not empty"""
    return z3.Implies(z3.Select(m.dom, key), nonempty_fn(m.dom)(m.dom))


def key_permits(c, perm, st_old=True):
    """sshd(8) AUTHORIZED_KEYS: a permission is granted unless the entry carries no-<permission>.  Option keywords
    are case-insensitive (sshd(8)): the table built by authorized_keys parsing holds them lower-cased (class
    invariant of _key_options, proved on OptionsParser._add_option under C17), so the entry consulted is the
    lower-cased name"""
    m = c.oldv('_key_options')
    k = lower_s(z3.Concat(z3.StringVal('no-'), perm))
    return z3.Not(z3.And(z3.Select(m.dom, k), truthy_any(z3.Select(m.val, k))))


def cert_permits(c, perm):
    """PROTOCOL.certkeys: with a user certificate a permission exists only if the certificate carries
    permit-<permission>; an empty option set is a certificate that permits nothing.  No certificate: granted."""
    o = c.oldv('_cert_options')
    k = z3.Concat(z3.StringVal('permit-'), perm)
    return z3.Or(o.isnone, z3.And(z3.Select(o.val.dom, k), truthy_any(z3.Select(o.val.val, k))))


check_key_permission = Spec(
    PROP, 'connection', 'SSHServerConnection.check_key_permission', self_class='SSHServerConnection',
    params=dict(permission='str'), classes=SRV_CLASSES, modifies=[],
    ensures=[('granted-iff-no-revoking-option',
              lambda c: c.truthy(c.result_v) == key_permits(c, c.arg('permission')))],
    returns='bool')

check_certificate_permission = Spec(
    PROP, 'connection', 'SSHServerConnection.check_certificate_permission', self_class='SSHServerConnection',
    params=dict(permission='str'), classes=SRV_CLASSES, modifies=[],
    ensures=[('granted-iff-no-cert-or-cert-permits',
              lambda c: c.truthy(c.result_v) == cert_permits(c, c.arg('permission')))],
    returns='any')

get_key_option = Spec(
    PROP, 'connection', 'SSHServerConnection.get_key_option', self_class='SSHServerConnection',
    params=dict(option='str', default='any'), classes=SRV_CLASSES, modifies=[],
    ensures=[('value-or-default', lambda c: (lambda m, k: c.result == z3.If(
        z3.Select(m.dom, k), z3.Select(m.val, k), c.arg('default')))(c.oldv('_key_options'),
                                                                     lower_s(c.arg('option'))))],   # case-insensitive
    returns='any')

get_certificate_option = Spec(
    PROP, 'connection', 'SSHServerConnection.get_certificate_option', self_class='SSHServerConnection',
    params=dict(option='str', default='any'), classes=SRV_CLASSES, modifies=[],
    lemmas=lambda c: [dict_truth_lemma(c.oldv('_cert_options').val, c.arg('option'))],
    ensures=[('value-or-default', lambda c: (lambda o, k: c.result == z3.If(
        z3.And(z3.Not(o.isnone), z3.Select(o.val.dom, k)), z3.Select(o.val.val, k), c.arg('default')))(
        c.oldv('_cert_options'), c.arg('option')))],
    returns='any')


# ---------------------------------------------------------------- channel-open gates (RFC 4254 7.2)
OPEN_ADMINISTRATIVELY_PROHIBITED, OPEN_CONNECT_FAILED = 1, 2
PF = z3.StringVal('port-forwarding')
PO_KT = parse_type('tuple[str,opt[int]]')
decode_utf8 = z3.Function('decode_utf8', BytesS, StrS)
from pyvc.builtins_model import unbe, be       # noqa: E402


def callable_stub(cx):
    """callable(x): False for None / bool / tuples (CPython), arbitrary for an application object"""
    v = cx.args[0]
    if v is VNone or isinstance(v, (VBool, VInt, VTuple, VBytes, VStr)):
        return [Out(ret=VBool(False))]
    return [Out(ret=cx.fresh('bool', 'is_callable'))]


callable_stub.modifies = ()


def get_key_option_stub(cx):
    """typed view of get_key_option('permitopen') (see ASSUMPTIONS); the function itself is verified above"""
    if concrete_str(cx.args[0]) != 'permitopen':
        raise Unsupported('get_key_option of an option without a typed view')
    return [Out(ret=cx.selff('ghost_permitopen'))]


get_key_option_stub.modifies = ()


def owner_decision_stub(shapes):
    """application callback: one outcome per documented result shape (asyncssh SSHServer.connection_requested /
    server_requested docs): False/None refuse, True = default forwarding, an object / callable, (chan, session),
    an SSHClientConnection to tunnel through; may raise ChannelOpenError"""
    def stub(cx):
        ev = ('owner', tuple(cx.args))
        outs = []
        for sh in shapes:
            if sh == 'true':
                outs.append(Out(ret=VBool(True), event=ev))
            elif sh == 'false':
                outs.append(Out(ret=VBool(False), event=ev))
            elif sh == 'none':
                outs.append(Out(ret=VNone, event=ev))
            elif sh == 'object':
                outs.append(Out(ret=cx.fresh('obj:Session', 'app_session'), event=ev))
            elif sh == 'listener':
                outs.append(Out(ret=cx.fresh('obj:Listener', 'app_listener'), event=ev))
            elif sh == 'pair':
                outs.append(Out(ret=VTuple([cx.fresh('obj:Chan', 'app_chan'),
                                            cx.fresh('obj:Session', 'app_session')]), event=ev))
            elif sh == 'tunnel':
                outs.append(Out(ret=cx.fresh('obj:SSHClientConnection', 'tunnel'), event=ev))
            elif sh == 'refuse':
                outs.append(Out(exc=VExc('ChannelOpenError', (VInt(OPEN_CONNECT_FAILED),)), event=ev))
        return outs
    stub.modifies = ()
    return stub


def wire_string(pk, i):
    """RFC 4251 5 string at offset i -> (bytes, offset after it)"""
    n = unbe(z3.Extract(pk, i, 4))
    return z3.Extract(pk, i + 4, n), i + 4 + n


def direct_tcpip_wire(c):
    """RFC 4254 7.2: string host to connect, uint32 port to connect, string originator, uint32 originator port"""
    rec = c.old_state.rec(c.argv('packet'))
    pk, i = rec.fields['_packet'].z, rec.fields['_idx'].z
    hb, i = wire_string(pk, i)
    port = unbe(z3.Extract(pk, i, 4))
    return decode_utf8(hb), port


def permitopen_allows(c, host, port):
    """sshd(8) permitopen: no restriction when absent, else (host, port) listed, port may be a wildcard"""
    po = c.oldv('ghost_permitopen')
    some = to_z3(VTuple([VStr(host), VInt(port)]), PO_KT)
    wild = to_z3(VTuple([VStr(host), VNone]), PO_KT)
    return z3.Or(z3.Not(c.truthy(po, c.old_state)), z3.Select(po.val.dom, some), z3.Select(po.val.dom, wild))


def forwarding_permitted(c):
    return z3.And(key_permits(c, PF), cert_permits(c, PF))


def owner_events(c):
    return c.events('owner')


def owner_result(c):
    r = [x for x in c.calls() if x['key'].startswith('self._owner.')]
    return r[0]['ret'] if r else None


def exc_code_is(c, code):
    a = c.result_v.args
    return same_z(a[0], z3.IntVal(code)) if a else z3.BoolVal(False)


def open_gate_post(dest_ok):
    """normal return: a channel is produced only for a permitted destination the application accepted"""
    def post(c):
        evs = owner_events(c)
        if len(evs) != 1:
            return z3.BoolVal(False)
        r = owner_result(c)
        return z3.And(forwarding_permitted(c), dest_ok(c, evs[0][1]), c.truthy(r))
    return post


def open_gate_refusal(dest_ok_wire):
    """ChannelOpenError: ADMINISTRATIVELY_PROHIBITED exactly when the credential forbids it (application not
    consulted), CONNECT_FAILED when the application refused"""
    def post(c):
        evs = owner_events(c)
        permitted = z3.And(forwarding_permitted(c), dest_ok_wire(c))
        if not evs:
            return z3.And(z3.Not(permitted), exc_code_is(c, OPEN_ADMINISTRATIVELY_PROHIBITED))
        r = [x for x in c.calls() if x['key'].startswith('self._owner.')][0]
        if r.get('exc') is not None:
            return permitted
        return z3.And(permitted, z3.Not(c.truthy(r['ret'])), exc_code_is(c, OPEN_CONNECT_FAILED))
    return post


def open_gate_always(dest_ok):
    """on every outcome: the application is consulted / a connection is started only when permitted, and for
    the destination that is on the wire"""
    def post(c):
        conj = [z3.BoolVal(len(owner_events(c)) <= 1)]
        for _n, args in owner_events(c):
            conj += [forwarding_permitted(c), dest_ok(c, args)]
        for name in ('forward_connection', 'forward_tunneled_connection', 'forward_unix_connection',
                     'forward_tunneled_unix_connection'):
            for x in c.calls(name):
                conj.append(z3.BoolVal(len(owner_events(c)) == 1))
                conj += [forwarding_permitted(c), dest_ok(c, x['args'][-2:] if 'tunneled' not in name
                                                          else x['args'][1:])]
        return z3.And(conj)
    return post


def tcp_dest_ok(c, args):
    host, port = direct_tcpip_wire(c)
    return z3.And(same_z(args[0], host), same_z(args[1], port), permitopen_allows(c, host, port))


def tcp_dest_ok_wire(c):
    host, port = direct_tcpip_wire(c)
    return permitopen_allows(c, host, port)


OPEN_STUBS = {
    'self.check_key_permission': contract_stub(lambda: check_key_permission),
    'self.check_certificate_permission': contract_stub(lambda: check_certificate_permission),
    'self.get_key_option': get_key_option_stub,
    'self.forward_connection': ret('obj:Session', 'fwd_session'),
    'self.forward_tunneled_connection': ret('obj:Session', 'tun_session'),
    'self.forward_unix_connection': ret('obj:Session', 'fwd_session'),
    'self.forward_tunneled_unix_connection': ret('obj:Session', 'tun_session'),
    'self.create_tcp_channel': ret('obj:Chan', 'chan'),
    'self.create_unix_channel': ret('obj:Chan', 'chan'),
    'callable': callable_stub,
    'SSHTCPStreamSession[]': ret('obj:Session', 'stream_session'),
    'SSHUNIXStreamSession[]': ret('obj:Session', 'stream_session'),
    'chan.set_inbound_peer_names': noop('peer_names'),
}
# replay only: lets the harness build a real (bare) SSHClientConnection so that isinstance() answers as modelled
OPEN_INLINE = dict(PACKET_INLINE, **{'SSHClientConnection.__init__': ('connection', 'SSHClientConnection.__init__')})
OPEN_SHAPES = ('true', 'false', 'none', 'object', 'pair', 'tunnel', 'refuse')

process_direct_tcpip_open = Spec(
    PROP, 'connection', 'SSHServerConnection._process_direct_tcpip_open', self_class='SSHServerConnection',
    params=dict(packet='obj:SSHPacket'), classes=dict(SRV_CLASSES, **PACKET_CLASSES),
    inline=dict(OPEN_INLINE), truthy=PACKET_TRUTHY,
    stubs=dict(OPEN_STUBS, **{'self._owner.connection_requested': owner_decision_stub(OPEN_SHAPES)}),
    requires=lambda c: z3.And(packet_wf(c, c.argv('packet')), z3.Not(c.is_none(c.oldv('_owner')))),
    ensures=[('channel-only-if-permitted-and-accepted', open_gate_post(tcp_dest_ok))],
    always=[('consulted-only-if-permitted', open_gate_always(tcp_dest_ok))],
    raises={'ChannelOpenError': open_gate_refusal(tcp_dest_ok_wire), 'ProtocolError': True,
            'PacketDecodeError': True})


def unix_dest_ok(c, args):
    """PROTOCOL 2.4 direct-streamlocal@openssh.com: string socket path, string reserved, uint32 reserved"""
    rec = c.old_state.rec(c.argv('packet'))
    pb, _i = wire_string(rec.fields['_packet'].z, rec.fields['_idx'].z)
    return same_z(args[0], decode_utf8(pb))


process_direct_streamlocal_open = Spec(
    PROP, 'connection', 'SSHServerConnection._process_direct_streamlocal_at_openssh_dot_com_open',
    self_class='SSHServerConnection',
    params=dict(packet='obj:SSHPacket'), classes=dict(SRV_CLASSES, **PACKET_CLASSES),
    inline=dict(OPEN_INLINE), truthy=PACKET_TRUTHY,
    stubs=dict(OPEN_STUBS, **{'self._owner.unix_connection_requested': owner_decision_stub(OPEN_SHAPES)}),
    requires=lambda c: z3.And(packet_wf(c, c.argv('packet')), z3.Not(c.is_none(c.oldv('_owner')))),
    ensures=[('channel-only-if-permitted-and-accepted', open_gate_post(unix_dest_ok))],
    always=[('consulted-only-if-permitted', open_gate_always(unix_dest_ok))],
    raises={'ChannelOpenError': open_gate_refusal(lambda c: z3.BoolVal(True)), 'ProtocolError': True,
            'PacketDecodeError': True})


# ---------------------------------------------------------------- listen requests (RFC 4254 7.1, PROTOCOL 2.4)
def report_stub(cx):
    return [Out(event=('report', tuple(cx.args)))]


report_stub.modifies = ()


def finish_stub(cx):
    return [Out(ret=cx.fresh('opaque:Coroutine', 'coro'), event=('finish', tuple(cx.args)))]


finish_stub.modifies = ()


def reports(c):
    return c.events('report')


def is_failure_report(c, ev):
    return z3.Not(c.truthy(ev[1][0]))


def listen_request_post(wire_ok):
    """the request goes on to the application exactly when the credential permits forwarding; otherwise
    exactly one failure reply and nothing else"""
    def post(c):
        fin, rep = c.events('finish'), reports(c)
        started = z3.BoolVal(len(fin) == 1 and len(rep) == 0 and len(c.calls('create_task')) == 1)
        refused = z3.BoolVal(len(fin) == 0 and len(rep) == 1) if len(rep) != 1 else \
            z3.And(z3.BoolVal(len(fin) == 0), is_failure_report(c, rep[0]))
        ok = forwarding_permitted(c)
        conj = [z3.If(ok, started, refused)]
        for _n, args in fin:
            conj.append(wire_ok(c, args))
        return z3.And(conj)
    return post


lower_s = z3.Function('lower_s', StrS, StrS)


def tcp_listen_wire(c, args):
    """RFC 4254 7.1: string address to bind (compared case-insensitively: lower-cased), uint32 port"""
    rec = c.old_state.rec(c.argv('packet'))
    pk, i = rec.fields['_packet'].z, rec.fields['_idx'].z
    hb, i = wire_string(pk, i)
    return z3.And(same_z(args[0], lower_s(decode_utf8(hb))), same_z(args[1], unbe(z3.Extract(pk, i, 4))))


def unix_listen_wire(c, args):
    rec = c.old_state.rec(c.argv('packet'))
    pb, _i = wire_string(rec.fields['_packet'].z, rec.fields['_idx'].z)
    return same_z(args[0], decode_utf8(pb))


LISTEN_STUBS = {
    'self.check_key_permission': contract_stub(lambda: check_key_permission),
    'self.check_certificate_permission': contract_stub(lambda: check_certificate_permission),
    'self._report_global_response': report_stub,
    'self._finish_port_forward': finish_stub, 'self._finish_path_forward': finish_stub,
    'self.create_task': noop('create_task'),
}


def no_effect_on_error(c):
    return z3.BoolVal(len(c.events('finish')) == 0 and len(reports(c)) == 0)


process_tcpip_forward = Spec(
    PROP, 'connection', 'SSHServerConnection._process_tcpip_forward_global_request',
    self_class='SSHServerConnection', params=dict(packet='obj:SSHPacket'),
    classes=dict(SRV_CLASSES, **PACKET_CLASSES), inline=dict(PACKET_INLINE), truthy=PACKET_TRUTHY,
    stubs=dict(LISTEN_STUBS),
    requires=lambda c: packet_wf(c, c.argv('packet')),
    ensures=[('listen-only-if-permitted-else-one-failure-reply', listen_request_post(tcp_listen_wire))],
    raises={'ProtocolError': no_effect_on_error, 'PacketDecodeError': no_effect_on_error})

process_streamlocal_forward = Spec(
    PROP, 'connection', 'SSHServerConnection._process_streamlocal_forward_at_openssh_dot_com_global_request',
    self_class='SSHServerConnection', params=dict(packet='obj:SSHPacket'),
    classes=dict(SRV_CLASSES, **PACKET_CLASSES), inline=dict(PACKET_INLINE), truthy=PACKET_TRUTHY,
    stubs=dict(LISTEN_STUBS),
    requires=lambda c: packet_wf(c, c.argv('packet')),
    ensures=[('listen-only-if-permitted-else-one-failure-reply', listen_request_post(unix_listen_wire))],
    raises={'ProtocolError': no_effect_on_error, 'PacketDecodeError': no_effect_on_error})


# ---------------------------------------------------------------- listener bookkeeping
TCP_KEY = 'tuple[str,int]'
LSRV_CLASSES = {'SSHServerConnection': {'_owner': 'opt[obj:Owner]',
                                        '_local_listeners': 'dict[' + TCP_KEY + ',opaque:Listener]'},
                'Owner': {}}
USRV_CLASSES = {'SSHServerConnection': {'_owner': 'opt[obj:Owner]',
                                        '_local_listeners': 'dict[str,opaque:Listener]'},
                'Owner': {}}


def listener_decision_stub(cx):
    """server_requested / unix_server_requested: False/None refuse, True = default listener, a listener object or
    a callable (session factory).  An awaitable result is modelled as already resolved (ASSUMPTIONS)."""
    ev = ('owner', tuple(cx.args))
    obj = cx.fresh('opaque:Listener', 'app_listener')
    notaw = z3.Not(z3.Function('isawaitable_Listener', opaque_sort('Listener'), BoolS)(obj.z))
    return [Out(ret=VBool(True), event=ev), Out(ret=VBool(False), event=ev), Out(ret=VNone, event=ev),
            Out(ret=obj, assume=[notaw], event=ev)]


listener_decision_stub.modifies = ()


def get_port_stub(cx):
    p = cx.fresh('int', 'bound_port')
    return [Out(ret=p, assume=[p.z >= 1, p.z < 65536])]


get_port_stub.modifies = ()

LISTENER_STUBS = {
    'self._owner.server_requested': listener_decision_stub,
    'self._owner.unix_server_requested': listener_decision_stub,
    'self.forward_local_port': may_raise(ret('opaque:Listener', 'tcp_listener', event='make_listener'), 'OSError'),
    'self.forward_local_path': may_raise(ret('opaque:Listener', 'unix_listener', event='make_listener'), 'OSError'),
    'callable': callable_stub,
    'listener.get_port': get_port_stub, 'listener.close': lambda cx: listener_close_stub(cx), 'existing.close': lambda cx: listener_close_stub(cx),
    'self._report_global_response': report_stub,
}


def the_listener(c):
    made = c.calls('forward_local_port') + c.calls('forward_local_path')
    made = [x for x in made if x.get('exc') is None]
    if made:
        return made[-1]['ret']
    r = owner_result(c)
    return r if isinstance(r, VOpaque) else None


def registered_iff_success(keyf, payload_ok):
    def post(c):
        rep = reports(c)
        if len(rep) != 1 or len(owner_events(c)) > 1:
            return z3.BoolVal(False)
        arg = rep[0][1][0]
        old, new = c.oldv('_local_listeners'), c.newv('_local_listeners')
        unchanged = z3.And(new.dom == old.dom, new.val == old.val)
        if not owner_events(c):
            # refused without consulting the application (always allowed): failure reply, table untouched
            return z3.And(z3.Not(c.truthy(arg)), unchanged)
        lst = the_listener(c)
        r = owner_result(c)
        if lst is None:
            return z3.And(z3.Not(c.truthy(arg)), unchanged)
        key = keyf(c)
        if not isinstance(lst, VOpaque) or lst.sortname != 'Listener':
            return z3.BoolVal(False)
        added = z3.And(new.dom == z3.Store(old.dom, key, True), new.val == z3.Store(old.val, key, lst.z))
        return z3.And(c.truthy(r),
                      z3.If(c.truthy(arg), z3.And(added, payload_ok(c, arg)), unchanged))
    return post


def no_live_listener_displaced(keyf, fixed_key):
    """a success reply never overwrites the table entry of another live listener: the displaced one would be in no
    table, so neither a cancel request nor connection cleanup could ever close it ("all listeners ... are
    released when their connection ends").  Either the key was free or the displaced listener is closed.
    Dynamic ports (port 0 requested) are left out: the operating system hands out a port that is not in use."""
    def post(c):
        rep = reports(c)
        if len(rep) != 1:
            return z3.BoolVal(False)
        old = c.oldv('_local_listeners')
        key = keyf(c)
        displaced_closed = z3.Or([same_z(e[1][0], z3.Select(old.val, key)) for e in c.events('listener_close')] +
                                 [z3.BoolVal(False)])
        return z3.Implies(z3.And(c.truthy(rep[0][1][0]), fixed_key(c), z3.Select(old.dom, key)), displaced_closed)
    return post


def bound_port(c):
    gp = c.calls('get_port')
    return z3.If(c.arg('listen_port') == 0, gp[0]['ret'].z, c.arg('listen_port')) if gp else c.arg('listen_port')


def tcp_key(c):
    return to_z3(VTuple([c.argv('listen_host'), VInt(bound_port(c))]), TCP_KEY)


def tcp_payload_ok(c, arg):
    """RFC 4254 7.1: the success reply carries the bound port exactly when port 0 was requested"""
    if isinstance(arg, VBytes):
        return z3.And(c.arg('listen_port') == 0, arg.z == be(z3.IntVal(4), bound_port(c)))
    return z3.And(c.arg('listen_port') != 0, c.eq(arg, VBool(True)))


def default_listener_args_ok(c):
    """the default listener is opened on the address / port the client asked for"""
    conj = []
    for x in c.calls('forward_local_port'):
        a = x['args']
        # forward_local_port(listen_host, listen_port, dest_host, dest_port[, accept_handler]): the destination names
        # later reported in forwarded-tcpip are the requested ones; a 5th argument is the application's callable
        if len(a) not in (4, 5):
            return z3.BoolVal(False)
        conj += [same_z(a[0], c.arg('listen_host')), same_z(a[1], c.arg('listen_port')),
                 same_z(a[2], c.arg('listen_host')), same_z(a[3], c.arg('listen_port'))]
        if len(a) == 5:
            r = owner_result(c)
            conj.append(same_z(a[4], r.z) if isinstance(r, VOpaque) else z3.BoolVal(False))
    for x in c.calls('forward_local_path'):
        conj.append(z3.And(z3.BoolVal(len(x['args']) == 2), same_z(x['args'][0], c.arg('listen_path')),
                           same_z(x['args'][-1], c.arg('listen_path'))))
    return z3.And(conj) if conj else z3.BoolVal(True)


finish_port_forward = Spec(
    PROP, 'connection', 'SSHServerConnection._finish_port_forward', self_class='SSHServerConnection',
    params=dict(listen_host='str', listen_port='int'), classes=LSRV_CLASSES, stubs=dict(LISTENER_STUBS),
    requires=lambda c: z3.And(z3.Not(c.is_none(c.oldv('_owner'))), c.arg('listen_port') >= 0,
                              c.arg('listen_port') < 2 ** 32),
    ensures=[('listener-registered-iff-success-reply', registered_iff_success(tcp_key, tcp_payload_ok)),
             ('no-live-listener-displaced', no_live_listener_displaced(tcp_key, lambda c: c.arg('listen_port') != 0)),
             ('default-listener-on-requested-address', default_listener_args_ok)])

finish_path_forward = Spec(
    PROP, 'connection', 'SSHServerConnection._finish_path_forward', self_class='SSHServerConnection',
    params=dict(listen_path='str'), classes=USRV_CLASSES, stubs=dict(LISTENER_STUBS),
    requires=lambda c: z3.Not(c.is_none(c.oldv('_owner'))),
    ensures=[('listener-registered-iff-success-reply',
              registered_iff_success(lambda c: c.arg('listen_path'), lambda c, arg: c.eq(arg, VBool(True)))),
             ('no-live-listener-displaced', no_live_listener_displaced(lambda c: c.arg('listen_path'),
                                                                        lambda c: z3.BoolVal(True))),
             ('default-listener-on-requested-address', default_listener_args_ok)])


def listener_close_stub(cx):
    return [Out(event=('listener_close', (cx.recv,)))]


listener_close_stub.modifies = ()


def cancel_post(keyf):
    """RFC 4254 7.1 cancel-tcpip-forward: exactly the named listener is removed and closed, one success reply"""
    def post(c):
        old, new = c.oldv('_local_listeners'), c.newv('_local_listeners')
        key = keyf(c)
        cl, rep = c.events('listener_close'), reports(c)
        if len(cl) != 1 or len(rep) != 1:
            return z3.BoolVal(False)
        return z3.And(z3.Select(old.dom, key), new.dom == z3.Store(old.dom, key, False), new.val == old.val,
                      same_z(cl[0][1][0], z3.Select(old.val, key)), c.truthy(rep[0][1][0]))
    return post


def cancel_error(c):
    old, new = c.oldv('_local_listeners'), c.newv('_local_listeners')
    return z3.And(z3.BoolVal(len(c.events('listener_close')) == 0 and len(reports(c)) == 0),
                  new.dom == old.dom, new.val == old.val)


def tcp_cancel_key(c):
    rec = c.old_state.rec(c.argv('packet'))
    pk, i = rec.fields['_packet'].z, rec.fields['_idx'].z
    hb, i = wire_string(pk, i)
    return to_z3(VTuple([VStr(lower_s(decode_utf8(hb))), VInt(unbe(z3.Extract(pk, i, 4)))]), TCP_KEY)


def unix_cancel_key(c):
    rec = c.old_state.rec(c.argv('packet'))
    pb, _i = wire_string(rec.fields['_packet'].z, rec.fields['_idx'].z)
    return decode_utf8(pb)


CANCEL_STUBS = {'listener.close': listener_close_stub, 'self._report_global_response': report_stub}

cancel_tcpip_forward = Spec(
    PROP, 'connection', 'SSHServerConnection._process_cancel_tcpip_forward_global_request',
    self_class='SSHServerConnection', params=dict(packet='obj:SSHPacket'),
    classes=dict(LSRV_CLASSES, **PACKET_CLASSES), inline=dict(PACKET_INLINE), truthy=PACKET_TRUTHY,
    stubs=dict(CANCEL_STUBS), requires=lambda c: packet_wf(c, c.argv('packet')),
    ensures=[('exactly-that-listener-removed-and-closed', cancel_post(tcp_cancel_key))],
    raises={'ProtocolError': cancel_error, 'PacketDecodeError': cancel_error})

cancel_streamlocal_forward = Spec(
    PROP, 'connection', 'SSHServerConnection._process_cancel_streamlocal_forward_at_openssh_dot_com_global_request',
    self_class='SSHServerConnection', params=dict(packet='obj:SSHPacket'),
    classes=dict(USRV_CLASSES, **PACKET_CLASSES), inline=dict(PACKET_INLINE), truthy=PACKET_TRUTHY,
    stubs=dict(CANCEL_STUBS), requires=lambda c: packet_wf(c, c.argv('packet')),
    ensures=[('exactly-that-listener-removed-and-closed', cancel_post(unix_cancel_key))],
    raises={'ProtocolError': cancel_error, 'PacketDecodeError': cancel_error})


# =====================================================================================================
#  2. the relay (forward.py)
# =====================================================================================================
# ghost_out : every byte handed to the peer so far            ghost_eof_out : number of write_eof() calls on the peer
# relay invariant (nothing lost / duplicated / reordered):    ghost_out ++ _inpbuf == everything received so far
# it is stated incrementally on each writer:  out' ++ buf' == out ++ buf ++ <bytes received by this activation>
FWD_FIELDS = {
    '_peer': 'opt[obj:Peer]', '_transport': 'opt[obj:Transport]', '_inpbuf': 'bytes', '_eof_received': 'bool',
    'ghost_out': 'bytes', 'ghost_eof_out': 'int',
}
# the peer is itself a forwarder: the one piece of its state the relay reads is whether ITS incoming direction has ended
PEER_FIELDS = {'_eof_received': 'bool'}
FWD_CLASSES = {'SSHForwarder': FWD_FIELDS, 'SSHLocalForwarder': FWD_FIELDS, 'Peer': PEER_FIELDS, 'Transport': {},
               'Conn': {}}
# a forwarder's own small accessors are executed from their real source when changed code calls them on self
FWD_INLINE = {'self.was_eof_received': ('forward', 'SSHForwarder.was_eof_received'),
              'self.write': ('forward', 'SSHForwarder.write'), 'self.write_eof': ('forward', 'SSHForwarder.write_eof'),
              'self.pause_reading': ('forward', 'SSHForwarder.pause_reading'),
              'self.resume_reading': ('forward', 'SSHForwarder.resume_reading'),
              'self.set_peer': ('forward', 'SSHForwarder.set_peer')}
EMPTY = z3.Empty(BytesS)


def has_peer(c, old=True):
    v = c.oldv('_peer') if old else c.newv('_peer')
    return z3.Not(c.is_none(v))


def has_transport(c, old=True):
    v = c.oldv('_transport') if old else c.newv('_transport')
    return z3.Not(c.is_none(v))


def peer_eof_seen(c, old=True):
    """_eof_received of the forwarder that was the peer on entry (only meaningful under has_peer)"""
    v = c.oldv('_peer')
    if not isinstance(v, VOpt) or not isinstance(v.val, VRef):
        return z3.BoolVal(False)
    st = c.old_state if old else c.new_state
    return st.rec(v.val).fields['_eof_received'].z


def ordered(c, old=True):
    """class invariant: once a peer is attached nothing is left in the early-data buffer (else later data
    would overtake it).  Established by _forward, kept by data_received / eof_received / close."""
    f = c.old if old else c.new
    return z3.Implies(has_peer(c, old), f('_inpbuf') == EMPTY)


def peer_write_stub(cx):
    d = cx.args[0]
    if not isinstance(d, VBytes):
        raise Unsupported('peer.write of a non-bytes value')
    # (ghost state lives on self although the receiver of the call is the peer object)
    return [Out(osets=[(cx.ex.self_ref, 'ghost_out', VBytes(z3.Concat(cx.selff('ghost_out').z, d.z)))],
                event=('peer_write', (d,)))]


peer_write_stub.modifies = ('ghost_out',)


def peer_eof_stub(cx):
    # at the moment EOF is passed on, no early data may still be waiting: it would arrive after the EOF
    cx.require('eof-after-all-early-data', cx.selff('_inpbuf').z == EMPTY)
    return [Out(osets=[(cx.ex.self_ref, 'ghost_eof_out', VInt(cx.selff('ghost_eof_out').z + 1))],
                event=('peer_eof', ()))]


peer_eof_stub.modifies = ('ghost_eof_out',)


def peer_was_eof_stub(cx):
    """peer.was_eof_received() by its contract (fwd_was_eof_received: reports-own-eof)"""
    if not isinstance(cx.recv, VRef):
        raise Unsupported('was_eof_received() on something that is not the peer object')
    return [Out(ret=cx.field('_eof_received', cx.recv), event=('peer_was_eof', (cx.recv,)))]


peer_was_eof_stub.modifies = ()


def peer_close_stub(cx):
    # mutual recursion A.close -> B.close -> A.close is cut because the link is cleared first
    cx.require('peer-detached-before-it-is-closed(recursion bounded)', _is_none_z(cx.selff('_peer')))
    return [Out(event=('peer_close', (cx.recv,)))]


def _is_none_z(v):
    if v is VNone:
        return z3.BoolVal(True)
    if isinstance(v, VOpt):
        return v.isnone
    return z3.BoolVal(False)


peer_close_stub.modifies = ()


def recv_event_stub(name, exc=None):
    def stub(cx):
        outs = [Out(event=(name, (cx.recv,) + tuple(cx.args)))]
        if exc:
            outs.append(Out(exc=VExc(exc), event=(name, (cx.recv,) + tuple(cx.args))))
        return outs
    stub.modifies = ()
    return stub


FWD_STUBS = {
    'self._peer.write': peer_write_stub, 'self._peer.write_eof': peer_eof_stub,
    'self._peer.was_eof_received': lambda cx: peer_was_eof_stub(cx),
    'self._peer.pause_reading': recv_event_stub('peer_pause'),
    'self._peer.resume_reading': recv_event_stub('peer_resume'),
    'peer.close': peer_close_stub,
    'self._transport.write': recv_event_stub('t_write', 'OSError'),
    'self._transport.write_eof': recv_event_stub('t_eof', 'OSError'),
    'self._transport.close': recv_event_stub('t_close'),
    'self._transport.pause_reading': recv_event_stub('t_pause'),
    'self._transport.resume_reading': recv_event_stub('t_resume'),
    'self.close': noop('close'),
}


def n(c, name):
    return len(c.events(name))


def is_recv(c, ev, field):
    """the event's receiver is the object that was in self.<field> on entry"""
    v = c.oldv(field)
    r = ev[1][0]
    return z3.BoolVal(isinstance(v, VOpt) and isinstance(r, VRef) and isinstance(v.val, VRef) and
                      r.addr == v.val.addr)


def stream_conserved(c, received):
    return z3.Concat(c.new('ghost_out'), c.new('_inpbuf')) == \
        z3.Concat(c.old('ghost_out'), c.old('_inpbuf'), received)


fwd_data_received = Spec(
    PROP, 'forward', 'SSHForwarder.data_received', self_class='SSHForwarder',
    params=dict(data='bytes', datatype='opt[int]'), classes=FWD_CLASSES, stubs=dict(FWD_STUBS), inline=dict(FWD_INLINE),
    requires=lambda c: ordered(c),
    ensures=[
        ('relayed-complete-and-in-order', lambda c: stream_conserved(c, c.arg('data'))),
        ('passed-on-at-once-when-connected', lambda c: z3.Implies(
            has_peer(c), z3.And(c.new('ghost_out') == z3.Concat(c.old('ghost_out'), c.arg('data')),
                                z3.BoolVal(n(c, 'peer_write') == 1)))),
        ('buffered-not-written-while-unconnected', lambda c: z3.Implies(
            z3.Not(has_peer(c)), z3.BoolVal(n(c, 'peer_write') == 0))),
        ('class-inv(ordered)', lambda c: ordered(c, old=False)),
        ('no-eof-invented', lambda c: c.new('ghost_eof_out') == c.old('ghost_eof_out')),
    ])

fwd_eof_received = Spec(
    PROP, 'forward', 'SSHForwarder.eof_received', self_class='SSHForwarder',
    classes=FWD_CLASSES, stubs=dict(FWD_STUBS), inline=dict(FWD_INLINE),
    # asyncio delivers eof_received() at most once per transport
    requires=lambda c: z3.And(ordered(c), z3.Not(c.old('_eof_received')), c.old('ghost_eof_out') == 0),
    ensures=[
        ('eof-recorded', lambda c: c.new('_eof_received')),
        ('eof-forwarded-exactly-once-when-connected', lambda c: c.new('ghost_eof_out') == z3.If(has_peer(c), 1, 0)),
        # half-close: after EOF in this direction the OTHER direction stays open until its own EOF - the return
        # value tells asyncio / the channel to keep this end open exactly while the peer's incoming side has not ended
        ('half-close(keep own side open iff peer has not seen EOF)', lambda c: c.truthy(c.result_v) == z3.Or(
            z3.Not(has_peer(c)), z3.Not(peer_eof_seen(c)))),
        ('peer-state-untouched', lambda c: z3.Implies(has_peer(c), peer_eof_seen(c, old=False) == peer_eof_seen(c))),
        ('data-untouched', lambda c: stream_conserved(c, EMPTY)),
        ('class-inv(ordered)', lambda c: ordered(c, old=False)),
    ], returns='bool')


def close_post(c):
    tc, pc_ = c.events('t_close'), c.events('peer_close')
    conj = [c.is_none(c.newv('_transport')), c.is_none(c.newv('_peer')),
            z3.If(has_transport(c), z3.BoolVal(len(tc) == 1) if len(tc) != 1 else is_recv(c, tc[0], '_transport'),
                  z3.BoolVal(len(tc) == 0)),
            z3.If(has_peer(c), z3.BoolVal(len(pc_) == 1) if len(pc_) != 1 else is_recv(c, pc_[0], '_peer'),
                  z3.BoolVal(len(pc_) == 0))]
    return z3.And(conj)


fwd_close = Spec(
    PROP, 'forward', 'SSHForwarder.close', self_class='SSHForwarder', classes=FWD_CLASSES,
    stubs={k: v for k, v in FWD_STUBS.items() if k != 'self.close'},
    ensures=[('closes-own-transport-and-the-peer-once-and-detaches', close_post),
             ('class-inv(ordered)', lambda c: ordered(c, old=False))])

fwd_connection_lost = Spec(
    PROP, 'forward', 'SSHForwarder.connection_lost', self_class='SSHForwarder', params=dict(exc='opt[opaque:Exc]'),
    classes=FWD_CLASSES, stubs=dict(FWD_STUBS), inline=dict(FWD_INLINE),
    ensures=[('losing-one-end-closes-the-pair', lambda c: z3.BoolVal(n(c, 'close') == 1))])


def forwarded_once(ev_name, field, other=()):
    def post(c):
        evs = c.events(ev_name)
        none_else = z3.BoolVal(all(n(c, o) == 0 for o in other))
        present = has_peer(c) if field == '_peer' else has_transport(c)
        return z3.And(none_else, z3.If(present, z3.BoolVal(len(evs) == 1) if len(evs) != 1
                                       else is_recv(c, evs[0], field), z3.BoolVal(len(evs) == 0)))
    return post


fwd_pause_writing = Spec(
    PROP, 'forward', 'SSHForwarder.pause_writing', self_class='SSHForwarder', classes=FWD_CLASSES,
    stubs=dict(FWD_STUBS), inline=dict(FWD_INLINE),
    ensures=[('back-pressure-forwarded-to-peer', forwarded_once('peer_pause', '_peer', ('peer_resume',)))])

fwd_resume_writing = Spec(
    PROP, 'forward', 'SSHForwarder.resume_writing', self_class='SSHForwarder', classes=FWD_CLASSES,
    stubs=dict(FWD_STUBS), inline=dict(FWD_INLINE),
    ensures=[('back-pressure-release-forwarded-to-peer', forwarded_once('peer_resume', '_peer', ('peer_pause',)))])


def t_write_post(c):
    evs = c.events('t_write')
    if len(evs) != 1:
        return z3.And(z3.Not(has_transport(c)), z3.BoolVal(len(evs) == 0))
    return z3.And(has_transport(c), is_recv(c, evs[0], '_transport'), same_z(evs[0][1][1], c.arg('data')))


fwd_write = Spec(
    PROP, 'forward', 'SSHForwarder.write', self_class='SSHForwarder', params=dict(data='bytes'),
    classes=FWD_CLASSES, stubs=dict(FWD_STUBS), inline=dict(FWD_INLINE),
    ensures=[('exactly-these-bytes-once-to-own-transport', t_write_post)])

fwd_write_eof = Spec(
    PROP, 'forward', 'SSHForwarder.write_eof', self_class='SSHForwarder', classes=FWD_CLASSES,
    stubs=dict(FWD_STUBS), inline=dict(FWD_INLINE),
    ensures=[('eof-once-to-own-transport', forwarded_once('t_eof', '_transport', ('t_close', 't_write')))])

fwd_was_eof_received = Spec(
    PROP, 'forward', 'SSHForwarder.was_eof_received', self_class='SSHForwarder', classes=FWD_CLASSES,
    stubs=dict(FWD_STUBS), inline=dict(FWD_INLINE), ensures=[('reports-own-eof', lambda c: c.truthy(c.result_v) == c.old('_eof_received'))],
    returns='bool')

fwd_pause_reading = Spec(
    PROP, 'forward', 'SSHForwarder.pause_reading', self_class='SSHForwarder', classes=FWD_CLASSES,
    stubs=dict(FWD_STUBS), inline=dict(FWD_INLINE), requires=lambda c: has_transport(c),
    ensures=[('pauses-own-transport', forwarded_once('t_pause', '_transport', ('t_resume',)))])

fwd_resume_reading = Spec(
    PROP, 'forward', 'SSHForwarder.resume_reading', self_class='SSHForwarder', classes=FWD_CLASSES,
    stubs=dict(FWD_STUBS), inline=dict(FWD_INLINE), requires=lambda c: has_transport(c),
    ensures=[('resumes-own-transport', forwarded_once('t_resume', '_transport', ('t_pause',)))])


# ---------------------------------------------------------------- SSHLocalForwarder._forward
def open_coro_stub(cx):
    """await self._coro(session_factory, *args): opens the channel.  While it is pending there is no peer, so
    data_received / eof_received (contracts above, no-peer case) may run any number of times: the buffer only
    grows, EOF may become pending, nothing is written.  The local connection may also be LOST meanwhile:
    connection_lost() -> close() (contract above, no-peer case) drops the transport and closes nobody.
    On success session_factory() has attached the peer (SSHForwarder.__init__ -> set_peer) - see ASSUMPTIONS for
    the no-suspension window.  Failure: ChannelOpenError."""
    more = cx.fresh('bytes', 'early_data')
    eof = cx.fresh('bool', 'early_eof')
    lost = cx.fresh('bool', 'closed_during_open')
    peer = cx.fresh('obj:Peer', 'peer')
    buf = VBytes(z3.Concat(cx.selff('_inpbuf').z, more.z))
    eofv = VBool(z3.Or(cx.selff('_eof_received').z, eof.z))
    t = cx.selff('_transport')
    if isinstance(t, VOpt):
        tv = VOpt(z3.Or(t.isnone, lost.z), t.val)
    elif t is VNone:
        tv = VNone
    else:
        tv = VOpt(lost.z, t)
    ev = ('open', tuple(cx.args))
    return [Out(sets={'_peer': peer, '_inpbuf': buf, '_eof_received': eofv, '_transport': tv}, event=ev),
            Out(sets={'_inpbuf': buf, '_eof_received': eofv, '_transport': tv}, exc=VExc('ChannelOpenError'),
                event=ev)]


open_coro_stub.modifies = ('_peer', '_inpbuf', '_eof_received', '_transport')


def at_resume(c, field):
    x = [k for k in c.calls() if k['key'] == 'self._coro']
    return x[0]['sets'].get(field) if x else None


def forward_post(c):
    """after the open.  Local side still open: everything buffered is passed on, once, in order, and BEFORE the
    EOF; a pending EOF is passed on exactly once whether or not any data was buffered.  Local side closed while
    the open was pending ("closing either end closes both"): the freshly attached peer is closed, nothing is
    written into it, and it is detached."""
    buf, eof = at_resume(c, '_inpbuf'), at_resume(c, '_eof_received')
    peer, tr = at_resume(c, '_peer'), at_resume(c, '_transport')
    if buf is None or not isinstance(peer, VRef):
        return z3.BoolVal(False)
    evs = [e[0] for e in c.events() if e[0] in ('peer_write', 'peer_eof')]
    order_ok = all(not (a == 'peer_eof' and b == 'peer_write') for a, b in zip(evs, evs[1:])) \
        and evs.count('peer_eof') <= 1
    alive = z3.Not(c.is_none(tr))
    pcl = c.events('peer_close')
    relayed = z3.And(c.new('_inpbuf') == EMPTY,
                     c.new('ghost_out') == z3.Concat(c.old('ghost_out'), buf.z),
                     c.new('ghost_eof_out') == z3.If(eof.z, 1, 0),
                     z3.BoolVal(order_ok and len(pcl) == 0), has_peer(c, old=False))
    peer_closed = z3.And(z3.BoolVal(len(evs) == 0 and len(pcl) == 1 and isinstance(pcl[0][1][0], VRef) and
                                    pcl[0][1][0].addr == peer.addr),
                         z3.Not(has_peer(c, old=False)), z3.Not(has_transport(c, old=False)),
                         c.new('ghost_out') == c.old('ghost_out'), c.new('ghost_eof_out') == 0)
    return z3.If(alive, relayed, peer_closed)


local_forward = Spec(
    PROP, 'forward', 'SSHLocalForwarder._forward', self_class='SSHLocalForwarder', params=dict(args='seq[any]'),
    classes=FWD_CLASSES,
    stubs=dict({k: v for k, v in FWD_STUBS.items() if k != 'self.close'},
               **{'self._coro': open_coro_stub, 'self.connection_lost': noop('connection_lost')}),
    inline={'self.close': ('forward', 'SSHForwarder.close')},
    # a local forwarder starts without a peer and has not forwarded anything yet
    requires=lambda c: z3.And(z3.Not(has_peer(c)), c.old('ghost_eof_out') == 0, c.old('ghost_out') == EMPTY),
    ensures=[('early-data-then-pending-eof-flushed-or-peer-closed', lambda c: z3.If(
        z3.BoolVal(n(c, 'connection_lost') == 0), forward_post(c),
        z3.BoolVal(n(c, 'connection_lost') == 1 and n(c, 'peer_write') == 0 and n(c, 'peer_eof') == 0))),
        ('class-inv(ordered)', lambda c: ordered(c, old=False))])
local_forward.vararg = 'args'


# =====================================================================================================
#  3. SOCKS dynamic forwarding (socks.py): request automaton
# =====================================================================================================
# RFC 1928 (SOCKS5):  VER NMETHODS METHODS.. -> VER METHOD ;  VER CMD RSV ATYP DST.ADDR DST.PORT -> VER REP RSV ATYP ..
# SOCKS4 / 4a memo:   VN CD DSTPORT DSTIP USERID NUL [HOSTNAME NUL when DSTIP = 0.0.0.x, x != 0] -> VN=0 CD=90 ...
from pyvc import extract as _extract       # noqa: E402

SOCKS_FIELDS = dict(FWD_FIELDS, _bytes_needed='int', _recv_handler='opt[tag]', _addrtype='int', _host='str',
                    _port='int', ghost_parsed='bytes')
SOCKS_CLASSES = {'SSHSOCKSForwarder': SOCKS_FIELDS, 'Peer': {}, 'Transport': {}}

SID = {'_recv_version': 1, '_recv_socks4_addr': 2, '_recv_socks4_user': 3, '_recv_socks4_hostname': 4,
       '_recv_socks5_authlist': 5, '_recv_socks5_command': 6, '_recv_socks5_addr': 7, '_recv_socks5_hostlen': 8,
       '_recv_socks5_host': 9, '_recv_socks5_port': 10}
DISARMED = 11


def socks_state(z):
    """which of the ten handler methods a symbolic handler value (integer tag id, see values.tag_id) is; 0 = none"""
    r = z3.IntVal(0)
    for name, k in SID.items():
        r = z3.If(z == tag_id('method:SSHSOCKSForwarder.' + name), k, r)
    return r


def sid(v):
    """automaton state of a _recv_handler value (None = DISARMED)"""
    if v is VNone:
        return z3.IntVal(DISARMED)
    if isinstance(v, VTag):
        return z3.IntVal(SID.get(v.tag.rsplit('.', 1)[-1], 0))
    if isinstance(v, VOpt):
        return z3.If(v.isnone, DISARMED, sid(v.val))
    if isinstance(v, VOpaque):
        return socks_state(v.z)
    return z3.IntVal(0)


def state_inv(c, old=True):
    """per-state shape of the automaton (what each handler needs to find): bytes wanted, host still unset, ..."""
    g, gv = (c.old, c.oldv) if old else (c.new, c.newv)
    s, bn, at = sid(gv('_recv_handler')), g('_bytes_needed'), g('_addrtype')
    host_unset = g('_host') == z3.StringVal('')
    tbl = {1: z3.And(bn == 2, host_unset), 2: z3.And(bn == 6, host_unset), 3: bn == -1,
           4: z3.And(bn == -1, host_unset), 5: z3.And(bn >= 0, bn <= 255), 6: bn == 4,
           7: z3.And(z3.Or(z3.And(bn == 4, at == 1), z3.And(bn == 16, at == 4))), 8: z3.And(bn == 1, at == 1),
           9: z3.And(bn >= 0, bn <= 255, at == 1), 10: z3.And(bn == 2, z3.Or(at == 1, at == 4))}
    return z3.And([s >= 1, s <= DISARMED] + [z3.Implies(s == k, v) for k, v in tbl.items()])


def armed(c, old=True):
    return sid(c.oldv('_recv_handler') if old else c.newv('_recv_handler')) != DISARMED


def armed_inv(c, old=True):
    """class invariant behind 'nothing is parsed after close()': the request parser is armed only while the
    connection to the SOCKS client is open (F5: SSHForwarder.close() does not disarm it)"""
    return z3.Implies(armed(c, old), has_transport(c, old))


def socks_inv(c, old=True):
    g = c.old if old else c.new
    return z3.And(state_inv(c, old), armed_inv(c, old), ordered(c, old),
                  # the handshake comes first: while it runs there is no peer and nothing has been relayed
                  z3.Implies(armed(c, old), z3.And(z3.Not(has_peer(c, old)), g('ghost_out') == EMPTY)))


def _module_bytes(modname, name):
    """module-level  NAME = bytes((...))  constant, evaluated from the current source text"""
    mod = _extract.get_module(modname)
    node = mod.consts.get('__nodes__', {}).get(name)
    try:
        import ast as _ast
        if isinstance(node, _ast.Call) and getattr(node.func, 'id', None) == 'bytes' and len(node.args) == 1:
            return VBytes(bytes(_extract._const_eval(node.args[0], mod.consts)))
    except Exception:
        pass
    return None


def _socks_globals():
    g = {}
    for nm in ('SOCKS4_OK_RESPONSE', 'SOCKS5_OK_RESPONSE_HDR'):
        v = _module_bytes('socks', nm)
        if v is not None:
            g[nm] = v
    return g


ip_of = z3.Function('ip_address', BytesS, opaque_sort('IP'))
ip_str = z3.Function('str_ip', opaque_sort('IP'), StrS)


def ip_address_stub(cx):
    """ipaddress.ip_address(packed 4 / 16 bytes): assumed total on those lengths"""
    d = cx.args[0]
    cx.require('packed-address-is-4-or-16-bytes', z3.Or(z3.Length(d.z) == 4, z3.Length(d.z) == 16))
    return [Out(ret=VOpaque(ip_of(d.z), 'IP'))]


ip_address_stub.modifies = ()


def str_stub(cx):
    v = cx.args[0]
    if not (isinstance(v, VOpaque) and v.sortname == 'IP'):
        raise Unsupported('str() of something that is not an IP address')
    r = ip_str(v.z)
    return [Out(ret=VStr(r), assume=[z3.Length(r) >= 2])]       # a printed address is never empty


str_stub.modifies = ()


def t_write_stub(cx):
    return [Out(event=('t_write', (cx.recv,) + tuple(cx.args)))]


t_write_stub.modifies = ()


def socks_close_callee_spec():
    return socks_close_callee


SOCKS_HANDLER_STUBS = {
    'self._transport.write': t_write_stub,
    'self._transport.get_extra_info': ret('tuple[str,int]', 'peername'),
    'self.forward': noop('forward'),
    'self.close': contract_stub(socks_close_callee_spec),
    'ip_address': ip_address_stub, 'str': str_stub,
}
SOCKS_HANDLER_INLINE = {
    'self._connect': ('socks', 'SSHSOCKSForwarder._connect'),
    'self._send_socks4_ok': ('socks', 'SSHSOCKSForwarder._send_socks4_ok'),
    'self._send_socks5_ok': ('socks', 'SSHSOCKSForwarder._send_socks5_ok'),
}
HANDLER_MODIFIES = ['_bytes_needed', '_recv_handler', '_addrtype', '_host', '_port', '_transport', '_peer']


class Fx:
    """How a handler post-condition is read.  events=True: the full contract checked on the handler itself
    (what is written / forwarded / closed + the state transition).  events=False: the state-only weakening
    ('transition') that callers may assume: every event conjunct, which occurs only positively, becomes True."""
    def __init__(self, c, events):
        self.c, self.events = c, events

    def ev(self, z):
        return z if self.events else z3.BoolVal(True)

    def nxt(self, name, bn=None):
        c = self.c
        conj = [sid(c.newv('_recv_handler')) == SID[name], has_transport(c, old=False),
                self.ev(z3.BoolVal(n(c, 't_close') == 0 and n(c, 'forward') == 0))]
        if bn is not None:
            conj.append(c.new('_bytes_needed') == bn)
        return z3.And(conj)

    def closed(self):
        """the request is refused: connection closed, nothing forwarded, parser disarmed"""
        c = self.c
        return z3.And(z3.Not(has_transport(c, old=False)), z3.Not(armed(c, old=False)),
                      self.ev(z3.BoolVal(n(c, 'forward') == 0)))

    def wrote(self, data):
        c = self.c
        ev = c.events('t_write')
        if not self.events:
            return z3.BoolVal(True)
        if len(ev) != 1:
            return z3.BoolVal(False)
        return z3.And(is_recv(c, ev[0], '_transport'), same_z(ev[0][1][1], data))

    def wrote_nothing(self):
        return self.ev(z3.BoolVal(n(self.c, 't_write') == 0))

    def connected(self, host, port, reply):
        """CONNECT accepted: success reply written, tunnel requested for exactly (host, port), parser disarmed"""
        c = self.c
        state = z3.And(c.new('_host') == host, c.new('_port') == port, z3.Not(armed(c, old=False)),
                       has_transport(c, old=False))
        if not self.events:
            return state
        fw = c.events('forward')
        if len(fw) != 1 or len(fw[0][1]) < 2:
            return z3.BoolVal(False)
        return z3.And(state, same_z(fw[0][1][0], host), same_z(fw[0][1][1], port), reply,
                      z3.BoolVal(n(c, 't_close') == 0))


def byte(c, i):
    return c.arg('data')[i]


def relay_state_untouched(c):
    return z3.And(c.new('_inpbuf') == c.old('_inpbuf'), c.new('ghost_out') == c.old('ghost_out'),
                  c.new('ghost_parsed') == c.old('ghost_parsed'), c.new('ghost_eof_out') == c.old('ghost_eof_out'),
                  c.new('_eof_received') == c.old('_eof_received'))


def handler_spec(name, post, cases=None):
    def requires(c):
        return z3.And(socks_inv(c), sid(c.oldv('_recv_handler')) == SID[name],
                      z3.Implies(c.old('_bytes_needed') >= 0, z3.Length(c.arg('data')) == c.old('_bytes_needed')))
    sp = Spec(PROP, 'socks', 'SSHSOCKSForwarder.' + name, self_class='SSHSOCKSForwarder', params=dict(data='bytes'),
              classes=SOCKS_CLASSES, stubs=dict(SOCKS_HANDLER_STUBS), inline=dict(SOCKS_HANDLER_INLINE),
              globals=_socks_globals(), requires=requires, modifies=list(HANDLER_MODIFIES), cases=cases,
              ensures=[('decode', lambda c: post(c, Fx(c, True))),
                       ('transition', lambda c: post(c, Fx(c, False))),
                       ('class-inv(socks)', lambda c: socks_inv(c, old=False)),
                       ('relay-state-untouched', relay_state_untouched)])
    # what a caller may assume (all state-only)
    sp.callee_ensures = [lambda c: post(c, Fx(c, False)), lambda c: socks_inv(c, old=False), relay_state_untouched]
    return sp


SOCKS4_OK = VBytes(bytes((0, 0x5a, 0, 0, 0, 0, 0, 0))).z          # VN=0, CD=90 (granted), 6 ignored bytes
port_of = lambda c: 256 * byte(c, 0) + byte(c, 1)                  # noqa: E731   network byte order
decodable_utf8 = z3.Function('decodable_utf8', BytesS, BoolS)
NUL = z3.Unit(z3.IntVal(0))

h_version = handler_spec('_recv_version', lambda c, fx: z3.And(fx.wrote_nothing(), z3.If(
    z3.And(byte(c, 0) == 4, byte(c, 1) == 1), fx.nxt('_recv_socks4_addr', 6),          # SOCKS4 CONNECT
    z3.If(byte(c, 0) == 5, fx.nxt('_recv_socks5_authlist', byte(c, 1)),                # SOCKS5: NMETHODS follow
          fx.closed()))))

h_socks4_addr = handler_spec('_recv_socks4_addr', lambda c, fx: z3.And(
    fx.wrote_nothing(), fx.nxt('_recv_socks4_user', -1), c.new('_port') == port_of(c),
    # SOCKS4a: DSTIP 0.0.0.x (x != 0) means "host name follows the user id"
    z3.If(z3.And(byte(c, 2) == 0, byte(c, 3) == 0, byte(c, 4) == 0, byte(c, 5) != 0),
          c.new('_host') == z3.StringVal(''),
          c.new('_host') == ip_str(ip_of(z3.Extract(c.arg('data'), 2, 4))))))

h_socks4_user = handler_spec('_recv_socks4_user', lambda c, fx: z3.If(
    c.old('_host') != z3.StringVal(''),
    fx.connected(c.old('_host'), c.old('_port'), fx.wrote(SOCKS4_OK)),
    z3.And(fx.wrote_nothing(), fx.nxt('_recv_socks4_hostname', -1), c.new('_host') == z3.StringVal(''),
           c.new('_port') == c.old('_port'))))

h_socks4_hostname = handler_spec('_recv_socks4_hostname', lambda c, fx: z3.If(
    decodable_utf8(c.arg('data')),
    fx.connected(decode_utf8(c.arg('data')), c.old('_port'), fx.wrote(SOCKS4_OK)),
    z3.And(fx.wrote_nothing(), fx.closed())))

h_socks5_authlist = handler_spec('_recv_socks5_authlist', lambda c, fx: z3.If(
    z3.Contains(c.arg('data'), NUL),                                   # "no authentication required" offered
    z3.And(fx.wrote(VBytes(bytes((5, 0))).z), fx.nxt('_recv_socks5_command', 4)),
    z3.And(fx.wrote_nothing(), fx.closed())))

h_socks5_command = handler_spec('_recv_socks5_command', lambda c, fx: z3.And(fx.wrote_nothing(), z3.If(
    z3.And(byte(c, 0) == 5, byte(c, 1) == 1, byte(c, 2) == 0),         # VER=5 CMD=CONNECT RSV=0
    z3.If(byte(c, 3) == 3, fx.nxt('_recv_socks5_hostlen', 1),          # ATYP domain name: length octet first
          z3.If(byte(c, 3) == 1, z3.And(fx.nxt('_recv_socks5_addr', 4), c.new('_addrtype') == 1),
                z3.If(byte(c, 3) == 4, z3.And(fx.nxt('_recv_socks5_addr', 16), c.new('_addrtype') == 4),
                      fx.closed()))),
    fx.closed())))

h_socks5_addr = handler_spec('_recv_socks5_addr', lambda c, fx: z3.And(
    fx.wrote_nothing(), fx.nxt('_recv_socks5_port', 2), c.new('_host') == ip_str(ip_of(c.arg('data'))),
    c.new('_addrtype') == c.old('_addrtype')))

h_socks5_hostlen = handler_spec('_recv_socks5_hostlen', lambda c, fx: z3.And(
    fx.wrote_nothing(), fx.nxt('_recv_socks5_host', byte(c, 0)), c.new('_addrtype') == c.old('_addrtype')))

h_socks5_host = handler_spec('_recv_socks5_host', lambda c, fx: z3.If(
    decodable_utf8(c.arg('data')),
    z3.And(fx.wrote_nothing(), fx.nxt('_recv_socks5_port', 2), c.new('_host') == decode_utf8(c.arg('data')),
           c.new('_addrtype') == c.old('_addrtype')),
    z3.And(fx.wrote_nothing(), fx.closed())))


def socks5_reply_ok(c):
    """RFC 1928 6: VER=5 REP=0 (succeeded) RSV=0 ATYP BND.ADDR(4|16) BND.PORT(2)"""
    ev = c.events('t_write')
    if len(ev) != 1 or not isinstance(ev[0][1][1], VBytes):
        return z3.BoolVal(False)
    w, at = ev[0][1][1].z, c.old('_addrtype')
    return z3.And(is_recv(c, ev[0], '_transport'), z3.Length(w) == 4 + z3.If(at == 1, 4, 16) + 2,
                  w[0] == 5, w[1] == 0, w[2] == 0, w[3] == at)


h_socks5_port = handler_spec('_recv_socks5_port', lambda c, fx: fx.connected(
    c.old('_host'), port_of(c), fx.ev(socks5_reply_ok(c)) if fx.events else z3.BoolVal(True)),
    # finite split justified by the class invariant (state 10 => _addrtype in {1, 4}), proved on every writer
    cases=[('ipv4', {'_addrtype': 1}), ('ipv6', {'_addrtype': 4})])

HANDLERS = {1: h_version, 2: h_socks4_addr, 3: h_socks4_user, 4: h_socks4_hostname, 5: h_socks5_authlist,
            6: h_socks5_command, 7: h_socks5_addr, 8: h_socks5_hostlen, 9: h_socks5_host, 10: h_socks5_port}


# ---------------------------------------------------------------- close() as seen by the SOCKS forwarder
def _socks_close_target():
    """method resolution as Python does it: SSHSOCKSForwarder.close if socks.py defines one, else the inherited
    SSHForwarder.close"""
    cls = _extract.get_module('socks').classes.get('SSHSOCKSForwarder')
    if cls is not None and any(getattr(b, 'name', None) == 'close' for b in cls.body):
        return 'socks', 'SSHSOCKSForwarder.close'
    return 'forward', 'SSHForwarder.close'


# callee view used by the handlers and the dispatch loop (state-only part of the contract proved on socks_close)
socks_close_callee = Spec(
    'C20x', 'forward', 'SSHForwarder.close', self_class='SSHSOCKSForwarder', classes=SOCKS_CLASSES,
    modifies=['_transport', '_peer', '_recv_handler'],
    ensures=[('closed', lambda c: z3.And(c.is_none(c.newv('_transport')), c.is_none(c.newv('_peer')))),
             ('disarmed', lambda c: z3.Not(armed(c, old=False)))])
Spec.registry.remove(socks_close_callee)




class _SocksView(Spec):
    """a base-class method analysed with a SSHSOCKSForwarder receiver (obligation names say so)"""
    @property
    def name(self):
        return f'{self.prop}.{self.module}.{self.qualname}[self:SSHSOCKSForwarder]'


_m, _q = _socks_close_target()
socks_close = (_SocksView if _m == 'forward' else Spec)(
    PROP, _m, _q, self_class='SSHSOCKSForwarder', classes=SOCKS_CLASSES,
    stubs={k: v for k, v in FWD_STUBS.items() if k != 'self.close'},
    inline={'super().close': ('forward', 'SSHForwarder.close')},      # only reached if socks.py overrides close()
    requires=lambda c: state_inv(c),
    ensures=[('closed', lambda c: z3.And(c.is_none(c.newv('_transport')), c.is_none(c.newv('_peer')))),
             # with 'closed' this is what the callee view above calls 'disarmed'
             ('class-inv(armed: nothing is parsed after close)', lambda c: armed_inv(c, old=False))])
socks_close.runtime_class = 'socks.SSHSOCKSForwarder'


# ---------------------------------------------------------------- the dispatch loop
def dispatch_stub(cx):
    """self._recv_handler(data): the handler that is armed is one of the ten verified above; each contributes its
    contract guarded by 'this is the armed one' (requires checked at the call, modifies havocked, state-only
    ensures assumed).  Ghost: the bytes handed to the handler (and the NUL separator of SOCKS4 fields) are parsed."""
    ex, st = cx.ex, cx.st
    me = ex.self_ref
    h, data = cx.selff('_recv_handler'), cx.args[0]
    if not isinstance(data, VBytes):
        raise Unsupported('handler called with a non-bytes argument')
    bn = cx.selff('_bytes_needed').z
    neg, pos = ex.feasible(st, bn < 0), ex.feasible(st, bn >= 0)
    if neg and pos:
        raise Unsupported('handler dispatched without a decided sign of _bytes_needed')
    consumed = z3.Concat(data.z, NUL) if neg else data.z
    parsed = VBytes(z3.Concat(cx.selff('ghost_parsed').z, consumed))
    decl = ex.spec.classes[st.rec(me).cls]
    outs = []
    # the case split below is exhaustive only if the armed handler is one of the ten methods: an obligation
    cx.require('armed-handler-is-one-of-the-ten-states', z3.Or([sid(h) == k for k in HANDLERS]))
    for k, spec in HANDLERS.items():
        guard = sid(h) == k
        if not ex.feasible(st, guard):
            continue
        args = {'data': data}
        c0 = Ctx(ex, st, st, me, args=args)
        cx.require(f'requires[{spec.qualname.split(".")[-1]}]', z3.Implies(guard, spec.requires(c0)))
        s2 = st.fork()
        sets = {}
        for f in spec.modifies:
            v = ex.fresh(s2, decl[f], 'mod_' + f)
            sets[f] = v
            s2.set_field(me, f, v)
        c1 = Ctx(ex, st, s2, me, result=VNone, args=args)
        assume = [guard] + [f(c1) for f in spec.callee_ensures] + list(s2.pc[len(st.pc):])
        if not ex.feasible(s2, z3.And(assume)):
            raise Unsupported(f'contract of {spec.qualname} is not satisfiable at the dispatch (vacuity guard)')
        sets['ghost_parsed'] = parsed
        outs.append(Out(sets=sets, assume=assume, event=('dispatch', (VInt(k), data))))
    return outs


dispatch_stub.modifies = tuple(HANDLER_MODIFIES) + ('ghost_parsed',)


def loop_conserved(c):
    return z3.Concat(c.new('ghost_parsed'), c.new('_inpbuf')) == \
        z3.Concat(c.at_entry('ghost_parsed'), c.at_entry('_inpbuf'))


def socks_loop_inv(c):
    return z3.And(socks_inv(c, old=False), loop_conserved(c),
                  c.new('ghost_out') == c.at_entry('ghost_out'), c.new('ghost_eof_out') == c.at_entry('ghost_eof_out'),
                  c.new('_eof_received') == c.at_entry('_eof_received'))


def socks_stream_conserved(c):
    """every byte received is parsed as part of the request, still buffered, or relayed - in that order"""
    return z3.Concat(c.new('ghost_parsed'), c.new('ghost_out'), c.new('_inpbuf')) == \
        z3.Concat(c.old('ghost_parsed'), c.old('ghost_out'), c.old('_inpbuf'), c.arg('data'))


socks_data_received = Spec(
    PROP, 'socks', 'SSHSOCKSForwarder.data_received', self_class='SSHSOCKSForwarder',
    params=dict(data='bytes', datatype='opt[int]'), classes=SOCKS_CLASSES,
    stubs={'self._recv_handler': dispatch_stub, 'self.close': contract_stub(socks_close_callee_spec),
           'self._peer.write': peer_write_stub},
    inline={'super().data_received': ('forward', 'SSHForwarder.data_received')},
    loops={1: LoopSpec(header='self._recv_handler', modifies=['ghost_parsed'],
                       invariant=socks_loop_inv,
                       # every iteration consumes input or moves the automaton forward (states only go up)
                       variant=lambda c: 12 * z3.Length(c.new('_inpbuf')) + (DISARMED - sid(c.newv('_recv_handler'))))},
    requires=lambda c: socks_inv(c),
    ensures=[('stream-conserved(parsed ++ relayed ++ buffered)', socks_stream_conserved),
             ('request-bytes-never-relayed', lambda c: z3.Implies(
                 armed(c, old=False), c.new('ghost_out') == EMPTY)),
             ('class-inv(socks)', lambda c: socks_inv(c, old=False)),
             ('no-eof-invented', lambda c: c.new('ghost_eof_out') == c.old('ghost_eof_out'))])


# =====================================================================================================
#  4. the other forwarding gates (X11, agent) and the global-request reply rule
# =====================================================================================================
GATE_FIELDS = dict(SRV_FIELDS, _x11_forwarding='bool', _agent_forwarding='bool',
                   _x11_listener='opt[obj:X11Listener]', _agent_listener='opt[obj:AgentListener]',
                   _loop='opaque:Loop', _x11_auth_path='opt[str]')
GATE_CLASSES = dict(SRV_CLASSES, SSHServerConnection=GATE_FIELDS, X11Listener={}, AgentListener={},
                    TempDir={'name': 'str'})
GATE_STUBS = {
    'self.check_key_permission': contract_stub(lambda: check_key_permission),
    'self.check_certificate_permission': contract_stub(lambda: check_certificate_permission),
    'create_x11_server_listener': ret('opt[obj:X11Listener]', 'x11_listener', event='make_listener'),
    'self._x11_listener.attach': ret('opt[str]', 'display'),
    'tempfile.TemporaryDirectory': may_raise(ret('obj:TempDir', 'tempdir'), 'OSError'),
    'Path': ret('opaque:Path', 'path'),
    'create_unix_forward_listener': may_raise(ret('opaque:UnixListener', 'unix_listener', event='make_listener'),
                                              'OSError'),
    'SSHAgentListener': ret('obj:AgentListener', 'agent_listener'),
}


def gate_ok(c, flag, perm):
    p = z3.StringVal(perm)
    return z3.And(c.old(flag), key_permits(c, p), cert_permits(c, p))


attach_x11_listener = Spec(
    PROP, 'connection', 'SSHServerConnection.attach_x11_listener', self_class='SSHServerConnection',
    params=dict(chan='obj:Chan', auth_proto='bytes', auth_data='bytes', screen='int'),
    classes=GATE_CLASSES, stubs=dict(GATE_STUBS),
    ensures=[('x11-forwarding-only-if-enabled-and-permitted', lambda c: z3.Implies(
        z3.Or(z3.Not(c.is_none(c.result_v)), z3.BoolVal(n(c, 'make_listener') > 0),
              z3.And(c.is_none(c.oldv('_x11_listener')), z3.Not(c.is_none(c.newv('_x11_listener'))))),
        gate_ok(c, '_x11_forwarding', 'X11-forwarding')))])

create_agent_listener = Spec(
    PROP, 'connection', 'SSHServerConnection.create_agent_listener', self_class='SSHServerConnection',
    classes=GATE_CLASSES, stubs=dict(GATE_STUBS),
    ensures=[('agent-forwarding-only-if-enabled-and-permitted', lambda c: z3.Implies(
        z3.Or(c.truthy(c.result_v), z3.BoolVal(n(c, 'make_listener') > 0),
              z3.And(c.is_none(c.oldv('_agent_listener')), z3.Not(c.is_none(c.newv('_agent_listener'))))),
        gate_ok(c, '_agent_forwarding', 'agent-forwarding')))],
    returns='bool')


# ---- RFC 4254 4: one reply per want-reply global request, in request order
MSG_REQUEST_SUCCESS, MSG_REQUEST_FAILURE = 81, 82
GREQ = 'tuple[opaque:Handler,opaque:Pkt,bool]'
GR_CLASSES = {'SSHConnection': {'_global_request_queue': 'seq[' + GREQ + ']'}}


def _report_spec(rtype, suffix):
    class _Named(Spec):
        @property
        def name(self):
            return f'{self.prop}.{self.module}.{self.qualname}[result:{suffix}]'

    def post(c):
        q0, q1 = c.old('_global_request_queue'), c.new('_global_request_queue')
        want = from_z3(q0[0], GREQ).items[2].z
        sends = c.calls('send_packet')
        nxt_ = c.calls('_service_next_global_request')
        ok = c.truthy(c.argv('result'), c.old_state)
        if len(sends) == 1:
            a = sends[0]['args']
            one = z3.And(want, z3.If(ok, same_z(a[0], z3.IntVal(MSG_REQUEST_SUCCESS)),
                                     z3.And(same_z(a[0], z3.IntVal(MSG_REQUEST_FAILURE)),
                                            z3.BoolVal(len(a) == 1))))
            if rtype == 'bytes':
                one = z3.And(one, z3.Implies(ok, same_z(a[1], c.arg('result')) if len(a) == 2 else False))
            else:
                one = z3.And(one, z3.Implies(ok, same_z(a[1], EMPTY) if len(a) == 2 else False))
        else:
            one = z3.And(z3.Not(want), z3.BoolVal(len(sends) == 0))
        return z3.And(q1 == z3.Extract(q0, 1, z3.Length(q0) - 1), one,
                      z3.BoolVal(len(nxt_) <= 1),
                      z3.BoolVal(len(nxt_) == 1) == (z3.Length(q0) > 1))
    return _Named(
        PROP, 'connection', 'SSHConnection._report_global_response', self_class='SSHConnection',
        params=dict(result=rtype), classes=GR_CLASSES,
        stubs={'self.send_packet': noop('send_packet'),
               'self._service_next_global_request': noop('service_next')},
        requires=lambda c: z3.Length(c.old('_global_request_queue')) >= 1,
        ensures=[('head-request-answered-once-then-next-is-served', post)])


report_global_response_bool = _report_spec('bool', 'bool')
report_global_response_bytes = _report_spec('bytes', 'bytes')


# =====================================================================================================
#  5. channel side of the attach window (justifies the no-suspension assumption of open_coro_stub)
# =====================================================================================================
def factory_stub(cx):
    return [Out(ret=cx.fresh('obj:Session', 'session'), event=('factory', ()))]


factory_stub.modifies = ()


def open_forward_post(c):
    """the session made by session_factory() is attached, told connection_made(chan) and returned without the
    coroutine suspending in between: no callback can observe a peer that is not yet connected"""
    calls = c.calls()
    fi = [i for i, x in enumerate(calls) if x['key'] == 'session_factory']
    if len(fi) != 1:
        return z3.BoolVal(False)
    after = calls[fi[0] + 1:]
    sess = calls[fi[0]]['ret']
    made = [x for x in after if x['key'].endswith('.connection_made')]
    no_suspension = not any(x.get('awaited') for x in after)
    opened_before = any(x['key'] == 'super()._open' for x in calls[:fi[0]])
    return z3.And(z3.BoolVal(no_suspension and opened_before and len(made) == 1),
                  c.eq(c.result_v, sess), c.eq(c.newv('_session'), sess),
                  z3.BoolVal(len(made) == 1 and isinstance(made[0]['recv'], VRef) and
                             made[0]['recv'].addr == sess.addr and len(made[0]['args']) == 1 and
                             isinstance(made[0]['args'][0], VRef) and made[0]['args'][0].addr == c.self_ref.addr))


open_forward = Spec(
    PROP, 'channel', 'SSHForwardChannel._open_forward', self_class='SSHForwardChannel',
    params=dict(session_factory='obj:Factory', chantype='bytes', args='seq[bytes]'),
    classes=dict({'SSHForwardChannel': {'_session': 'opt[obj:Session]', '_conn': 'opt[obj:Conn]'},
                  'Session': {}, 'Conn': {}, 'Factory': {}}, **PACKET_CLASSES),
    inline=dict(PACKET_INLINE), truthy=PACKET_TRUTHY,
    stubs={'super()._open': may_raise(ret('obj:SSHPacket', 'confirmation'), 'ChannelOpenError'),
           'session_factory': factory_stub,
           'self._session.connection_made': noop('connection_made'),
           'self._session.session_started': noop('session_started'),
           'self._start_reading': ret('opaque:Coroutine', 'reader'),
           'self._conn.create_task': noop('create_task')},
    requires=lambda c: z3.Not(c.is_none(c.oldv('_conn'))),
    ensures=[('session-attached-and-connected-in-one-atomic-segment', open_forward_post)],
    raises={'ChannelOpenError': lambda c: z3.BoolVal(n(c, 'factory') == 0),
            'PacketDecodeError': lambda c: z3.BoolVal(n(c, 'factory') == 0)})
open_forward.vararg = 'args'



# =====================================================================================================
#  robustness: a source change may hand a clause a value of an unexpected shape; that must be a failed
#  obligation (reported), never a crash of the checker
# =====================================================================================================
def _safe(f):
    def g(c):
        try:
            return f(c)
        except (IndexError, KeyError, AttributeError, TypeError, z3.Z3Exception):
            return z3.BoolVal(False)
    g.__name__ = getattr(f, '__name__', 'clause')
    return g


for _sp in list(Spec.registry):
    if _sp.prop != PROP:
        continue
    _sp.ensures = [(l, _safe(f)) for l, f in _sp.ensures]
    _sp.always = [(l, _safe(f)) for l, f in _sp.always]
    _sp.raises = {k: (v if v is True else _safe(v)) for k, v in _sp.raises.items()}


# =====================================================================================================
#  6. release: "all listeners and relayed sockets are released when their connection ends"
# =====================================================================================================
SRV_SEQ = 'seq[opaque:Server]'
FL_CLASSES = {'SSHForwardListener': {'_conn': 'opt[obj:Conn]', '_servers': SRV_SEQ, '_listen_key': 'opaque:Key',
                                     '_listen_port': 'int', '_tunnel': 'opt[obj:Tunnel]',
                                     'ghost_closed': SRV_SEQ},
              'Conn': {}, 'Tunnel': {}}


def server_close_stub(cx):
    """asyncio.Server.close(): ghost log of the servers closed, in order"""
    g = cx.selff('ghost_closed')
    if not isinstance(cx.recv, VOpaque):
        raise Unsupported('close() of something that is not one of the listener\'s servers')
    return [Out(osets=[(cx.ex.self_ref, 'ghost_closed', VSeq(z3.Concat(g.z, z3.Unit(cx.recv.z)), g.elem))],
                event=('server_close', (cx.recv,)))]


server_close_stub.modifies = ('ghost_closed',)


def unregister_stub(cx):
    return [Out(event=('unregister', (cx.recv,) + tuple(cx.args)))]


unregister_stub.modifies = ()


def forward_listener_close_post(c):
    """first close(): every asyncio server closed exactly once (in order), the listener takes itself out of the
    connection's table under ITS OWN key, and forgets the connection; a second close() does nothing"""
    un = c.events('unregister')
    live = z3.Not(c.is_none(c.oldv('_conn')))
    first = z3.And(c.new('ghost_closed') == z3.Concat(c.old('ghost_closed'), c.old('_servers')),
                   z3.BoolVal(len(un) == 1) if len(un) != 1 else z3.And(
                       is_recv(c, un[0], '_conn'), same_z(un[0][1][1], c.old('_listen_key'))),
                   c.is_none(c.newv('_conn')))
    again = z3.And(c.new('ghost_closed') == c.old('ghost_closed'), z3.BoolVal(len(un) == 0),
                   c.is_none(c.newv('_conn')))
    return z3.If(live, first, again)


forward_listener_close = Spec(
    PROP, 'listener', 'SSHForwardListener.close', self_class='SSHForwardListener', classes=FL_CLASSES,
    stubs={'self._conn.close_forward_listener': unregister_stub, 'server.close': server_close_stub},
    loops={1: LoopSpec(header='for server in self._servers', modifies=['ghost_closed'],
                       invariant=lambda c: z3.And(
                           c.new('ghost_closed') == z3.Concat(c.at_entry('ghost_closed'),
                                                              z3.Extract(c.extra['iter'].z, 0, c.extra['i'])),
                           c.new('_servers') == c.at_entry('_servers')))},
    ensures=[('every-server-closed-once-and-unregistered-under-own-key(idempotent)', forward_listener_close_post)])


# ---- client-side (remote) listeners: close() -> task _close() -> cancel request + unregister
CL_FIELDS = {'_conn': 'opt[obj:ClientConn]', '_tunnel': 'opt[obj:Tunnel]', '_close_event': 'obj:Event',
             '_listen_host': 'str', '_listen_port': 'int', '_listen_path': 'str'}
CL_CLASSES = {'SSHClientListener': CL_FIELDS, 'SSHTCPClientListener': CL_FIELDS, 'SSHUNIXClientListener': CL_FIELDS,
              'ClientConn': {}, 'Tunnel': {}, 'Event': {}}
CL_STUBS = {
    'self._tunnel.close': recv_event_stub('tunnel_close'),
    'self._close': ret('opaque:Coroutine', 'close_coro', event='close_coro'),
    'self._conn.create_task': recv_event_stub('create_task'),
    'self._conn.close_client_tcp_listener': recv_event_stub('cancel_remote'),
    'self._conn.close_client_unix_listener': recv_event_stub('cancel_remote'),
    'self._close_event.set': recv_event_stub('closed_event'),
}
CL_INLINE = {'super().close': ('listener', 'SSHListener.close'),
             'super()._close': ('listener', 'SSHClientListener._close')}


def client_listener_close_post(c):
    ct, tc = c.events('create_task'), c.events('tunnel_close')
    live = z3.Not(c.is_none(c.oldv('_conn')))
    return z3.And(
        z3.If(live, z3.BoolVal(len(ct) == 1 and n(c, 'close_coro') == 1) if len(ct) != 1 or n(c, 'close_coro') != 1
              else z3.And(is_recv(c, ct[0], '_conn'),
                          same_z(ct[0][1][1], [x for x in c.calls('_close')][0]['ret'].z)),
              z3.BoolVal(len(ct) == 0)),
        z3.If(z3.Not(c.is_none(c.oldv('_tunnel'))),
              z3.BoolVal(len(tc) == 1) if len(tc) != 1 else is_recv(c, tc[0], '_tunnel'), z3.BoolVal(len(tc) == 0)))


client_listener_close = Spec(
    PROP, 'listener', 'SSHClientListener.close', self_class='SSHClientListener', classes=CL_CLASSES,
    stubs=dict(CL_STUBS), inline=dict(CL_INLINE),
    ensures=[('close-task-started-once-while-registered(idempotent)', client_listener_close_post)])


def remote_close_post(keyf):
    """_close(): the remote listener is cancelled under ITS OWN address exactly once, the waiters are released and
    the connection is forgotten (a second _close() sends nothing)"""
    def post(c):
        cr = c.events('cancel_remote')
        live = z3.Not(c.is_none(c.oldv('_conn')))
        own = z3.BoolVal(len(cr) == 1) if len(cr) != 1 else z3.And(
            is_recv(c, cr[0], '_conn'), z3.BoolVal(len(cr[0][1]) == 1 + len(keyf(c))),
            *[same_z(a, k) for a, k in zip(cr[0][1][1:], keyf(c))])
        return z3.And(z3.If(live, own, z3.BoolVal(len(cr) == 0)), c.is_none(c.newv('_conn')),
                      z3.BoolVal(n(c, 'closed_event') == 1))
    return post


tcp_client_listener_close = Spec(
    PROP, 'listener', 'SSHTCPClientListener._close', self_class='SSHTCPClientListener', classes=CL_CLASSES,
    stubs=dict(CL_STUBS), inline=dict(CL_INLINE),
    ensures=[('remote-listener-cancelled-once-under-own-key', remote_close_post(
        lambda c: [c.old('_listen_host'), c.old('_listen_port')]))])

unix_client_listener_close = Spec(
    PROP, 'listener', 'SSHUNIXClientListener._close', self_class='SSHUNIXClientListener', classes=CL_CLASSES,
    stubs=dict(CL_STUBS), inline=dict(CL_INLINE),
    ensures=[('remote-listener-cancelled-once-under-own-key', remote_close_post(lambda c: [c.old('_listen_path')]))])


# ---- the connection's side of unregistering
RL_TCP = {'SSHClientConnection': {'_remote_listeners': 'dict[' + TCP_KEY + ',opaque:Listener]',
                                  '_dynamic_remote_listeners': 'dict[str,opaque:Listener]'}}
RL_UNIX = {'SSHClientConnection': {'_remote_listeners': 'dict[str,opaque:Listener]'}}
LL_ANY = {'SSHConnection': {'_local_listeners': 'dict[opaque:Key,opaque:Listener]'}}


def request_stub(cx):
    return [Out(ret=cx.fresh('any', 'reply'), event=('global_request', tuple(cx.args)))]


request_stub.modifies = ()


def removed_only(c, field, key):
    old, new = c.oldv(field), c.newv(field)
    if not isinstance(new, VMap):
        return z3.BoolVal(False)
    k = z3.Const(fresh_name('k'), sort_of(old.kt))
    return z3.And(z3.Not(z3.Select(new.dom, key)),
                  z3.ForAll([k], z3.Implies(k != key, z3.And(z3.Select(new.dom, k) == z3.Select(old.dom, k),
                                                             z3.Select(new.val, k) == z3.Select(old.val, k)))))


close_forward_listener = Spec(
    PROP, 'connection', 'SSHConnection.close_forward_listener', self_class='SSHConnection',
    params=dict(listen_key='opaque:Key'), classes=LL_ANY,
    ensures=[('exactly-that-key-unregistered', lambda c: removed_only(c, '_local_listeners', c.arg('listen_key')))])


def cancel_request_sent(c, reqname, nargs):
    gr = c.events('global_request')
    if len(gr) != 1 or len(gr[0][1]) != 1 + nargs:
        return z3.BoolVal(False)
    return same_z(gr[0][1][0], VBytes(reqname).z)


close_client_tcp_listener = Spec(
    PROP, 'connection', 'SSHClientConnection.close_client_tcp_listener', self_class='SSHClientConnection',
    params=dict(listen_host='str', listen_port='int'), classes=RL_TCP,
    stubs={'self._make_global_request': request_stub},
    requires=lambda c: z3.And(c.arg('listen_port') >= 0, c.arg('listen_port') < 2 ** 32),
    ensures=[('cancel-sent-and-exactly-that-listener-unregistered', lambda c: z3.And(
        cancel_request_sent(c, b'cancel-tcpip-forward', 2),
        removed_only(c, '_remote_listeners',
                     to_z3(VTuple([c.argv('listen_host'), c.argv('listen_port')]), TCP_KEY)))),
        ('dynamic-entry-dropped-only-if-it-is-that-listener', lambda c: (lambda d0, d1, h, m, key: z3.And(
            z3.Implies(z3.Select(d1.dom, h), z3.And(z3.Select(d0.dom, h), z3.Select(d1.val, h) == z3.Select(d0.val, h))),
            z3.Implies(z3.And(z3.Select(d0.dom, h), z3.Not(z3.Select(d1.dom, h))),
                       z3.And(z3.Select(m.dom, key), z3.Select(d0.val, h) == z3.Select(m.val, key)))))(
            c.oldv('_dynamic_remote_listeners'), c.newv('_dynamic_remote_listeners'), c.arg('listen_host'),
            c.oldv('_remote_listeners'),
            to_z3(VTuple([c.argv('listen_host'), c.argv('listen_port')]), TCP_KEY)))])

close_client_unix_listener = Spec(
    PROP, 'connection', 'SSHClientConnection.close_client_unix_listener', self_class='SSHClientConnection',
    params=dict(listen_path='str'), classes=RL_UNIX,
    stubs={'self._make_global_request': request_stub},
    ensures=[('cancel-sent-and-exactly-that-listener-unregistered', lambda c: z3.And(
        cancel_request_sent(c, b'cancel-streamlocal-forward@openssh.com', 1),
        removed_only(c, '_remote_listeners', c.arg('listen_path'))))])


# ---- connection end: the client / server _cleanup overrides (listener-closing clause only; the rest is C09)
def values_stub(cx):
    """<dict>.values(): a view; only list(view) is used"""
    return VTag('dictvalues', payload=cx.ex.deref(cx.st, cx.recv))


values_stub.modifies = ()


def list_of_values_stub(cx):
    """list(d.values()) for a symbolic dict d = (dom, val), by its definition: a fresh list L in which every
    element is the value of some key and every key's value occurs (at position pos(key))"""
    v = cx.args[0]
    if not (isinstance(v, VTag) and v.tag == 'dictvalues' and isinstance(v.payload, VMap)):
        raise Unsupported('list() of something else than <symbolic dict>.values()')
    m = v.payload
    L = cx.fresh('seq[' + repr(m.vt) + ']', 'values')
    ks = sort_of(m.kt)
    key_at = z3.Function(fresh_name('key_at'), IntS, ks)
    pos = z3.Function(fresh_name('pos'), ks, IntS)
    i, k = z3.Int(fresh_name('i')), z3.Const(fresh_name('k'), ks)
    ln = z3.Length(L.z)
    ax = [z3.ForAll([i], z3.Implies(z3.And(0 <= i, i < ln),
                                    z3.And(z3.Select(m.dom, key_at(i)), z3.Select(m.val, key_at(i)) == L.z[i],
                                           pos(key_at(i)) == i))),
          z3.ForAll([k], z3.Implies(z3.Select(m.dom, k),
                                    z3.And(0 <= pos(k), pos(k) < ln, L.z[pos(k)] == z3.Select(m.val, k),
                                           key_at(pos(k)) == k)))]
    return [Out(ret=L, assume=ax)]


list_of_values_stub.modifies = ()
CLOSED_MAP = 'dict[opaque:Listener,bool]'


def remote_listener_close_stub(cx):
    """tcp_listener.close() (contract of SSHClientListener.close above): ghost set of the listeners closed"""
    g = cx.selff('ghost_listener_closed')
    if not isinstance(cx.recv, VOpaque):
        raise Unsupported('close() of something that is not a registered listener')
    return [Out(osets=[(cx.ex.self_ref, 'ghost_listener_closed',
                        VMap(z3.Store(g.dom, cx.recv.z, True), g.val, g.kt, g.vt))],
                event=('listener_close', (cx.recv,)))]


remote_listener_close_stub.modifies = ('ghost_listener_closed',)


def all_remote_listeners_closed(c):
    m0, g = c.oldv('_remote_listeners'), c.newv('ghost_listener_closed')
    k = z3.Const(fresh_name('k'), sort_of(m0.kt))
    return z3.ForAll([k], z3.Implies(z3.Select(m0.dom, k), z3.Select(g.dom, z3.Select(m0.val, k))))


def empty_dict_lemma(c):
    """definitional: a dict is falsy exactly when it has no key (instance for the pre-state table)"""
    m0 = c.oldv('_remote_listeners')
    k = z3.Const(fresh_name('k'), sort_of(m0.kt))
    return [z3.Implies(z3.Not(nonempty_fn(m0.dom)(m0.dom)), z3.ForAll([k], z3.Not(z3.Select(m0.dom, k))))]


def table_emptied(c, field):
    v = c.ex.deref(c.new_state, c.newv(field))
    if isinstance(v, VDict):
        return z3.BoolVal(len(v.items) == 0)
    if isinstance(v, VMap):
        k = z3.Const(fresh_name('k'), sort_of(v.kt))
        return z3.ForAll([k], z3.Not(z3.Select(v.dom, k)))
    return z3.BoolVal(False)


client_cleanup = Spec(
    PROP, 'connection', 'SSHClientConnection._cleanup', self_class='SSHClientConnection',
    params=dict(exc='opt[opaque:Exc]'),
    classes={'SSHClientConnection': {'_agent': 'opt[obj:Agent]',
                                     '_remote_listeners': 'dict[' + TCP_KEY + ',opaque:Listener]',
                                     '_dynamic_remote_listeners': 'dict[str,opaque:Listener]',
                                     'ghost_listener_closed': CLOSED_MAP}, 'Agent': {}},
    stubs={'self._agent.close': recv_event_stub('agent_close'),
           'self._remote_listeners.values': values_stub, 'list': list_of_values_stub,
           'tcp_listener.close': remote_listener_close_stub,
           'super()._cleanup': noop('base_cleanup')},
    loops={1: LoopSpec(header='for tcp_listener in list(self._remote_listeners.values())',
                       modifies=['ghost_listener_closed'],
                       invariant=lambda c: (lambda L, i, g, j: z3.And(
                           z3.ForAll([j], z3.Implies(z3.And(0 <= j, j < i), z3.Select(g.dom, L[j]))),
                           c.newv('_remote_listeners').dom == c.oldv('_remote_listeners').dom,
                           c.newv('_remote_listeners').val == c.oldv('_remote_listeners').val))(
                           c.extra['iter'].z, c.extra['i'], c.newv('ghost_listener_closed'),
                           z3.Int(fresh_name('j'))))},
    lemmas=empty_dict_lemma,
    ensures=[('every-remote-listener-closed-at-connection-end', all_remote_listeners_closed),
             ('tables-emptied', lambda c: z3.Or(
                 z3.Not(c.truthy(c.oldv('_remote_listeners'), c.old_state)),
                 z3.And(table_emptied(c, '_remote_listeners'), table_emptied(c, '_dynamic_remote_listeners')))),
             ('then-the-common-cleanup-runs-once', lambda c: z3.BoolVal(
                 n(c, 'base_cleanup') == 1 and c.events()[-1][0] == 'base_cleanup'))])

server_cleanup = Spec(
    PROP, 'connection', 'SSHServerConnection._cleanup', self_class='SSHServerConnection',
    params=dict(exc='opt[opaque:Exc]'),
    classes={'SSHServerConnection': {'_agent_listener': 'opt[obj:AgentListener]'}, 'AgentListener': {}},
    stubs={'self._agent_listener.close': recv_event_stub('agent_listener_close'),
           'super()._cleanup': noop('base_cleanup')},
    ensures=[('agent-listener-closed-once-and-forgotten', lambda c: z3.And(
        (lambda evs: z3.If(z3.Not(c.is_none(c.oldv('_agent_listener'))),
                           z3.BoolVal(len(evs) == 1) if len(evs) != 1 else is_recv(c, evs[0], '_agent_listener'),
                           z3.BoolVal(len(evs) == 0)))(c.events('agent_listener_close')),
        c.is_none(c.newv('_agent_listener')))),
        ('then-the-common-cleanup-runs-once', lambda c: z3.BoolVal(
            n(c, 'base_cleanup') == 1 and c.events()[-1][0] == 'base_cleanup'))])



# =====================================================================================================
#  7. the attach step (writers of _peer outside the relay functions)
# =====================================================================================================
ATTACH_FIELDS = dict(FWD_FIELDS, _extra='any')
ATTACH_CLASSES = {'SSHForwarder': ATTACH_FIELDS, 'Transport': {},
                  'Peer': {'_inpbuf': 'bytes', '_eof_received': 'bool', '_peer': 'opt[obj:Other]'}, 'Other': {}}


def set_peer_event_stub(cx):
    return [Out(event=('set_peer', (cx.recv,) + tuple(cx.args)))]


set_peer_event_stub.modifies = ()


def peer_untouched(c):
    p = c.argv('peer')
    if not isinstance(p, VOpt) or not isinstance(p.val, VRef):
        return z3.BoolVal(p is VNone)
    r0, r1 = c.old_state.rec(p.val), c.new_state.rec(p.val)
    return z3.And([c.eq(r1.fields[f], r0.fields[f]) for f in r0.fields])


def init_post(c):
    sp = c.events('set_peer')
    p = c.argv('peer')
    given = z3.Not(c.is_none(p))
    told = z3.BoolVal(len(sp) == 1 and isinstance(p, VOpt) and isinstance(sp[0][1][0], VRef) and
                      sp[0][1][0].addr == p.val.addr and len(sp[0][1]) == 2 and isinstance(sp[0][1][1], VRef) and
                      sp[0][1][1].addr == c.self_ref.addr)
    return z3.And(c.new('_inpbuf') == EMPTY, z3.Not(c.new('_eof_received')), c.is_none(c.newv('_transport')),
                  c.eq(c.newv('_peer'), p), z3.If(given, told, z3.BoolVal(len(sp) == 0)), peer_untouched(c))


fwd_init = Spec(
    PROP, 'forward', 'SSHForwarder.__init__', self_class='SSHForwarder',
    params=dict(peer='opt[obj:Peer]', extra='opt[opaque:Extra]'), classes=ATTACH_CLASSES,
    stubs={'peer.set_peer': set_peer_event_stub},
    ensures=[('fresh-forwarder:empty-buffer,linked,peer-told-once,peer-data-untouched', init_post),
             ('class-inv(ordered)', lambda c: ordered(c, old=False))])

fwd_set_peer = Spec(
    PROP, 'forward', 'SSHForwarder.set_peer', self_class='SSHForwarder', params=dict(peer='obj:Peer'),
    classes=ATTACH_CLASSES,
    ensures=[('only-the-link-changes', lambda c: z3.And(
        c.eq(c.newv('_peer'), c.argv('peer')), c.new('_inpbuf') == c.old('_inpbuf'),
        c.new('_eof_received') == c.old('_eof_received'), c.new('ghost_out') == c.old('ghost_out'),
        c.new('ghost_eof_out') == c.old('ghost_eof_out'), c.eq(c.newv('_transport'), c.oldv('_transport'))))])

for _sp in (fwd_init, fwd_set_peer):
    _sp.ensures = [(l, _safe(f)) for l, f in _sp.ensures]


# =====================================================================================================
#  8. creating a TCP listener: "a failed forwarding request leaves nothing listening"
# =====================================================================================================
# listener.create_tcp_local_listener opens one socket + asyncio server per resolved address.  Ghost state (kept on the
# `conn` argument, the only object the function is handed): ghost_created = servers made by this call, in order;
# ghost_closed = servers closed, in order; ghost_socks = sockets opened and neither closed nor handed to a server.
import socket as _socket       # noqa: E402   (constants only: same interpreter family and OS as the replay python)

ENTRY = 'tuple[int,int,int,str,tuple[str,int]]'       # (family, type, proto, canonname, sockaddr); IPv4-shaped sockaddr
TL_CLASSES = {'TLConn': {'ghost_created': SRV_SEQ, 'ghost_closed': SRV_SEQ, 'ghost_socks': 'int'},
              'Loop': {}, 'Sock': {}, 'FwdListener': {}}
SOCK_CONSTS = {'socket.' + k: VInt(int(getattr(_socket, k))) for k in
               ('AF_UNSPEC', 'SOCK_STREAM', 'AI_PASSIVE', 'SOL_SOCKET', 'SO_REUSEADDR', 'AF_INET6', 'IPPROTO_IPV6',
                'IPV6_V6ONLY')}


def _ghost_home(ex, st):
    """plain function: the ghost fields live on the `conn` argument (contract clauses read them through c.old/c.new)"""
    ex.self_ref = st.env['conn']


def tl_bump(cx, d):
    return (cx.ex.self_ref, 'ghost_socks', VInt(cx.selff('ghost_socks').z + d))


def empty_set_stub(cx):
    if cx.args:
        raise Unsupported('set(iterable) in create_tcp_local_listener')
    m = VMap(z3.K(sort_of(ENTRY), z3.BoolVal(False)), z3.K(sort_of(ENTRY), z3.BoolVal(True)), ENTRY, 'bool')
    m.is_set = True
    return [Out(ret=cx.st.alloc(m))]


empty_set_stub.modifies = ()


def new_socket_stub(cx):
    return [Out(ret=cx.fresh('obj:Sock', 'sock'), osets=[tl_bump(cx, 1)], event=('socket', ())),
            Out(exc=VExc('OSError'))]


new_socket_stub.modifies = ('ghost_socks',)


def sock_close_stub(cx):
    return [Out(osets=[tl_bump(cx, -1)], event=('sock_close', (cx.recv,)))]


sock_close_stub.modifies = ('ghost_socks',)


def create_server_stub(cx):
    """await loop.create_server(factory, sock=sock): the server now owns the (bound) socket and listens"""
    srv = cx.fresh('opaque:Server', 'server')
    g = cx.selff('ghost_created')
    if 'sock' not in cx.kwargs:
        raise Unsupported('create_server without sock=')
    return [Out(ret=srv, osets=[tl_bump(cx, -1), (cx.ex.self_ref, 'ghost_created',
                                                  VSeq(z3.Concat(g.z, z3.Unit(srv.z)), g.elem))],
                event=('create_server', (srv,)))]


create_server_stub.modifies = ('ghost_socks', 'ghost_created')


def tl_listener_stub(cx):
    return [Out(ret=cx.fresh('obj:FwdListener', 'listener'), event=('listener', tuple(cx.args)))]


tl_listener_stub.modifies = ()


def local_seq(c, name):
    v = c.ex.deref(c.new_state, c.localv(name))
    if isinstance(v, VList):
        return to_z3(v, SRV_SEQ)
    return v.z if isinstance(v, VSeq) else None


def tl_outer_inv(c):
    sv = local_seq(c, 'servers')
    if sv is None:
        return z3.BoolVal(False)
    return z3.And(sv == c.new('ghost_created'), c.new('ghost_closed') == z3.Empty(sort_of(SRV_SEQ)),
                  c.new('ghost_socks') == 0)


def tl_failure_post(c):
    """the request fails: every server this call started is closed again and no socket is left open"""
    return z3.And(c.new('ghost_closed') == c.new('ghost_created'), c.new('ghost_socks') == 0,
                  z3.BoolVal(n(c, 'listener') == 0))


def tl_success_post(c):
    ev = c.events('listener')
    if len(ev) != 1 or len(ev[0][1]) < 3:
        return z3.BoolVal(False)
    a = ev[0][1]
    sv = c.ex.deref(c.new_state, a[1])
    svz = to_z3(sv, SRV_SEQ) if isinstance(sv, VList) else (sv.z if isinstance(sv, VSeq) else None)
    if svz is None:
        return z3.BoolVal(False)
    return z3.And(svz == c.new('ghost_created'),                  # the listener owns exactly the servers started
                  c.new('ghost_closed') == z3.Empty(sort_of(SRV_SEQ)), c.new('ghost_socks') == 0,
                  z3.BoolVal(isinstance(a[0], VRef) and a[0].addr == c.self_ref.addr))


create_tcp_local_listener = Spec(
    PROP, 'listener', 'create_tcp_local_listener',
    params=dict(conn='obj:TLConn', loop='obj:Loop', protocol_factory='opaque:Factory', listen_host='str',
                listen_port='int'),
    classes=TL_CLASSES, globals=dict(SOCK_CONSTS), setup=_ghost_home,
    local_types={'servers': SRV_SEQ},
    stubs={'loop.getaddrinfo': may_raise(ret('seq[' + ENTRY + ']', 'addrinfo'), 'OSError'),
           'set': empty_set_stub, 'socket.socket': new_socket_stub,
           'sock.setsockopt': noop(), 'sock.bind': may_raise(noop('bind'), 'OSError'),
           'sock.close': sock_close_stub, 'sock.getsockname': ret('tuple[str,int]', 'sockname'),
           'loop.create_server': create_server_stub, 'server.close': server_close_stub,
           'conn.logger.debug1': noop(), 'SSHForwardListener': tl_listener_stub},
    loops={1: LoopSpec(header='for addrinfo_entry in addrinfo', modifies=['ghost_created', 'ghost_socks'],
                       invariant=tl_outer_inv),
           2: LoopSpec(header='for server in servers', modifies=['ghost_closed'],
                       invariant=lambda c: z3.And(
                           c.new('ghost_closed') == z3.Concat(c.at_entry('ghost_closed'),
                                                              z3.Extract(c.extra['iter'].z, 0, c.extra['i'])),
                           c.new('ghost_created') == c.at_entry('ghost_created'),
                           c.new('ghost_socks') == c.at_entry('ghost_socks')))},
    requires=lambda c: z3.And(z3.Length(c.old('ghost_created')) == 0, z3.Length(c.old('ghost_closed')) == 0,
                              c.old('ghost_socks') == 0, c.arg('listen_port') >= 0, c.arg('listen_port') < 65536),
    ensures=[('listener-owns-exactly-the-servers-started', _safe(tl_success_post))],
    raises={'OSError': _safe(tl_failure_post)})
create_tcp_local_listener.no_replay = True      # real sockets: not replayed natively


# =====================================================================================================
#  9. listener bookkeeping of the creators: every listener a connection creates is recorded under its ACTUAL key
# =====================================================================================================
# "released when their connection ends" rests on the table: _cleanup / cancel close what is recorded (C09 + section 6),
# so each creator must record the new listener under the address it really listens on (the bound port when port 0
# was asked for), touch no other entry, and record nothing when it fails.
LSN = opaque_sort('Listener')
listener_port = z3.Function('listener_port', LSN, IntS)          # SSHListener.get_port() of a TCP listener


def bound_port_stub(cx):
    """listener.get_port(): the port the listener is bound to (a function of the listener; 1..65535)"""
    if not (isinstance(cx.recv, VOpaque) and cx.recv.sortname == 'Listener'):
        raise Unsupported('get_port() of something that is not the new listener')
    p = listener_port(cx.recv.z)
    return [Out(ret=VInt(p), assume=[p >= 1, p < 65536])]


bound_port_stub.modifies = ()
CREATE_LISTENER = may_raise(ret('opaque:Listener', 'new_listener', event='create_listener'), 'OSError')
CREATOR_STUBS = {'create_tcp_forward_listener': CREATE_LISTENER, 'create_unix_forward_listener': CREATE_LISTENER,
                 'create_socks_listener': CREATE_LISTENER, 'listener.get_port': bound_port_stub,
                 'self.logger.debug1': noop()}


def created_listener(c):
    x = [k for k in c.calls() if k['key'].startswith('create_') and k.get('exc') is None]
    return x[-1]['ret'] if len(x) == 1 and isinstance(x[-1]['ret'], VOpaque) else None


def recorded_under_actual_key(keyf):
    def post(c):
        L = created_listener(c)
        if L is None:
            return z3.BoolVal(False)
        old, new = c.oldv('_local_listeners'), c.newv('_local_listeners')
        if not isinstance(new, VMap):
            return z3.BoolVal(False)
        key = keyf(c, L)
        return z3.And(same_z(c.result_v, L.z),
                      new.dom == z3.Store(old.dom, key, True), new.val == z3.Store(old.val, key, L.z))
    return post


def nothing_recorded_on_failure(c):
    old, new = c.oldv('_local_listeners'), c.newv('_local_listeners')
    return z3.And(new.dom == old.dom, new.val == old.val) if isinstance(new, VMap) else z3.BoolVal(False)


def tcp_actual_key(c, L):
    port = z3.If(c.arg('listen_port') == 0, listener_port(L.z), c.arg('listen_port'))
    return to_z3(VTuple([c.argv('listen_host'), VInt(port)]), TCP_KEY)


def path_actual_key(c, L):
    return c.arg('listen_path')


import errno as _errno      # noqa: E402
ERRNO_CONSTS = {'errno.' + k: VInt(int(getattr(_errno, k))) for k in ('EADDRINUSE', 'EEXIST', 'EINVAL')}


def creator_spec(qual, params, keyf, keytype, cls='SSHConnection'):
    sp = Spec(PROP, 'connection', cls + '.' + qual, self_class=cls, params=params,
              classes={cls: {'_local_listeners': 'dict[' + keytype + ',opaque:Listener]',
                                         '_loop': 'opaque:Loop'}},
              stubs=dict(CREATOR_STUBS), globals=dict(ERRNO_CONSTS),
              requires=(lambda c: z3.And(c.arg('listen_port') >= 0, c.arg('listen_port') < 65536))
              if 'listen_port' in params else None,
              ensures=[('new-listener-recorded-under-its-actual-key-and-nothing-else-touched',
                        _safe(recorded_under_actual_key(keyf)))],
              raises={'OSError': _safe(nothing_recorded_on_failure)})
    sp.no_replay = True      # @async_context_manager wrapper + real listener factories: not replayed natively
    if keytype == 'str':
        # a UNIX path can be bound again while a listener on it is alive (asyncio removes the "stale" socket file),
        # so the table entry of a live listener could be overwritten: it would outlive the connection.  (TCP: the
        # operating system refuses a second bind of a live (host, port) and hands out unused dynamic ports.)
        def not_displaced(c):
            old = c.oldv('_local_listeners')
            key = c.arg('listen_path')
            closed_ = z3.Or([same_z(e[1][0], z3.Select(old.val, key)) for e in c.events('listener_close')] +
                            [z3.BoolVal(False)])
            return z3.Implies(z3.Select(old.dom, key), closed_)
        sp.ensures.append(('no-live-listener-displaced', _safe(not_displaced)))
        sp.stubs['existing.close'] = lambda cx: listener_close_stub(cx)
    return sp


fwd_local_port = creator_spec(
    'forward_local_port', dict(listen_host='str', listen_port='int', dest_host='str', dest_port='int',
                               accept_handler='opt[opaque:Handler]'), tcp_actual_key, TCP_KEY)
fwd_local_port_to_path = creator_spec(
    'forward_local_port_to_path', dict(listen_host='str', listen_port='int', dest_path='str',
                                       accept_handler='opt[opaque:Handler]'), tcp_actual_key, TCP_KEY,
    cls='SSHClientConnection')
fwd_socks = creator_spec('forward_socks', dict(listen_host='str', listen_port='int'), tcp_actual_key, TCP_KEY,
                          cls='SSHClientConnection')
fwd_local_path = creator_spec('forward_local_path', dict(listen_path='str', dest_path='str'), path_actual_key, 'str')
fwd_local_path_to_port = creator_spec(
    'forward_local_path_to_port', dict(listen_path='str', dest_host='str', dest_port='int'), path_actual_key, 'str',
    cls='SSHClientConnection')


# ---- remote (client-side) listeners: recorded under the address the SERVER bound (RFC 4254 7.1: the reply to a
# tcpip-forward for port 0 carries the allocated port)
REMOTE_PARAMS = dict(session_factory='opaque:Factory', encoding='opt[str]', errors='str', window='int',
                     max_pktsize='int')


def global_request_reply_stub(cx):
    """await self._make_global_request(...): (SUCCESS | FAILURE, reply packet)"""
    pkt = cx.fresh('obj:SSHPacket', 'reply')
    f = cx.st.rec(pkt).fields
    wf = [f['_idx'].z >= 0, f['_idx'].z <= f['_len'].z, f['_len'].z == z3.Length(f['_packet'].z)]   # SSHPacket's
    ev = ('global_request', tuple(cx.args))                                         # representation invariant
    return [Out(ret=VTuple([VInt(MSG_REQUEST_SUCCESS), pkt]), assume=wf, event=ev),
            Out(ret=VTuple([VInt(MSG_REQUEST_FAILURE), pkt]), assume=wf, event=ev)]


global_request_reply_stub.modifies = ()
REMOTE_STUBS = {'self._make_global_request': global_request_reply_stub,
                'SSHTCPClientListener[]': ret('opaque:Listener', 'new_listener', event='create_listener'),
                'SSHUNIXClientListener[]': ret('opaque:Listener', 'new_listener', event='create_listener'),
                'self.logger.debug1': noop()}


def remote_recorded(keyf):
    def post(c):
        mk = [k for k in c.calls() if k['key'].endswith('ClientListener[]')]
        if len(mk) != 1:
            return z3.BoolVal(False)
        L = mk[0]['ret']
        old, new = c.oldv('_remote_listeners'), c.newv('_remote_listeners')
        if not isinstance(new, VMap):
            return z3.BoolVal(False)
        key = keyf(c)
        return z3.And(same_z(c.result_v, L.z), new.dom == z3.Store(old.dom, key, True),
                      new.val == z3.Store(old.val, key, L.z))
    return post


def remote_tcp_key(c):
    """requested port, or for port 0 the uint32 the server put in its success reply"""
    reply = [k for k in c.calls('_make_global_request')][0]['ret'].items[1]
    rec = c.old_state.rec(reply) if reply.addr in c.old_state.heap else None
    r0 = [x for x in c.new_state.heap.get('__created__', {}).items() if x[0] == reply.addr]
    rec = r0[0][1] if r0 else rec
    pk, i = rec.fields['_packet'].z, rec.fields['_idx'].z
    port = z3.If(c.arg('listen_port') == 0, unbe(z3.Extract(pk, i, 4)), c.arg('listen_port'))
    return to_z3(VTuple([VStr(lower_s(c.arg('listen_host'))), VInt(port)]), TCP_KEY)


def remote_unchanged(c):
    old, new = c.oldv('_remote_listeners'), c.newv('_remote_listeners')
    return z3.And(new.dom == old.dom, new.val == old.val, z3.BoolVal(n(c, 'create_listener') == 0)) \
        if isinstance(new, VMap) else z3.BoolVal(False)


create_remote_server = Spec(
    PROP, 'connection', 'SSHClientConnection.create_server', self_class='SSHClientConnection',
    params=dict(REMOTE_PARAMS, listen_host='str', listen_port='int'),
    classes=dict({'SSHClientConnection': {'_remote_listeners': 'dict[' + TCP_KEY + ',opaque:Listener]',
                                          '_dynamic_remote_listeners': 'dict[str,opaque:Listener]'}},
                 **PACKET_CLASSES),
    inline=dict(PACKET_INLINE), truthy=PACKET_TRUTHY, stubs=dict(REMOTE_STUBS),
    requires=lambda c: z3.And(c.arg('listen_port') >= 0, c.arg('listen_port') < 65536),
    ensures=[('remote-listener-recorded-under-the-port-the-server-bound', _safe(remote_recorded(remote_tcp_key)))],
    raises={'ChannelListenError': _safe(remote_unchanged), 'PacketDecodeError': _safe(remote_unchanged)})
create_remote_server.no_replay = True

create_remote_unix_server = Spec(
    PROP, 'connection', 'SSHClientConnection.create_unix_server', self_class='SSHClientConnection',
    params=dict(REMOTE_PARAMS, listen_path='str'),
    classes=dict({'SSHClientConnection': {'_remote_listeners': 'dict[str,opaque:Listener]'}}, **PACKET_CLASSES),
    inline=dict(PACKET_INLINE), truthy=PACKET_TRUTHY, stubs=dict(REMOTE_STUBS),
    ensures=[('remote-listener-recorded-under-its-path', _safe(remote_recorded(lambda c: c.arg('listen_path'))))],
    raises={'ChannelListenError': _safe(remote_unchanged), 'PacketDecodeError': _safe(remote_unchanged)})
create_remote_unix_server.no_replay = True


# =====================================================================================================
#  10. the per-connection gate of a local forward: the nested tunnel_connection closures (accept_handler)
# =====================================================================================================
# "a connection is relayed only where permitted": whatever the application's accept_handler answers - directly or
# through an awaitable - a falsy verdict refuses the connection (ChannelOpenError) and nothing is opened towards
# the destination.  The closures are reached as 'Class.method.tunnel_connection'; their free variables (self,
# accept_handler, destination) are bound by the setup hook.
isaw_verdict = z3.Function('isawaitable_Verdict', opaque_sort('Verdict'), BoolS)


def accept_handler_stub(cx):
    """accept_handler(orig_host, orig_port): True / False / None, or an awaitable that yields the verdict"""
    aw = cx.fresh('opaque:Verdict', 'pending_verdict')
    ev = lambda v: ('handler', (v,))          # noqa: E731
    return [Out(ret=VBool(True), event=ev(VBool(True))), Out(ret=VBool(False), event=ev(VBool(False))),
            Out(ret=VNone, event=ev(VNone)), Out(ret=aw, assume=[isaw_verdict(aw.z)], event=ev(aw))]


accept_handler_stub.modifies = ()


def awaited_verdict_stub(cx):
    return [Out(ret=VBool(True), event=('awaited', (VBool(True),))),
            Out(ret=VBool(False), event=('awaited', (VBool(False),))),
            Out(ret=VNone, event=('awaited', (VNone,)))]


awaited_verdict_stub.modifies = ()


def open_towards_dest_stub(cx):
    return [Out(ret=VTuple([cx.fresh('opaque:Chan', 'chan'), cx.fresh('opaque:Sess', 'session')]),
                event=('open_dest', tuple(cx.args))),
            Out(exc=VExc('ChannelOpenError'), event=('open_dest', tuple(cx.args)))]


open_towards_dest_stub.modifies = ()


def verdict_of(c):
    """the application's final answer on this path: None = not asked (no accept_handler)"""
    h, a = c.events('handler'), c.events('awaited')
    if len(h) > 1 or len(a) > 1:
        return 'bad'
    if not h:
        return None
    v = h[0][1][0]
    if isinstance(v, VOpaque):           # awaitable: the verdict is what the await yields
        return a[0][1][0] if a else 'bad'
    return v if not a else 'bad'


def relayed_only_where_permitted(c):
    v = verdict_of(c)
    opened = n(c, 'open_dest')
    if v == 'bad' or opened > 1:
        return z3.BoolVal(False)
    asked = z3.Not(c.is_none(c.old_state.env['accept_handler']))
    if v is None:
        return z3.And(z3.Not(asked), z3.BoolVal(opened == 1 or c.raised is not None))
    ok = c.truthy(v)
    if opened:
        return z3.And(asked, ok)                       # something was opened towards the destination: permitted
    return z3.And(asked, z3.Not(ok), z3.BoolVal(c.raised == 'ChannelOpenError'))      # refused: nothing opened


def closure_spec(method, cls, dest_vars, opener):
    def setup(ex, st):
        me = ex.new_object(st, cls, 'self')
        st.env['self'] = me
        ex.self_ref = me
        st.env['accept_handler'] = ex.fresh(st, 'opt[obj:Handler]', 'accept_handler')
        st.inputs['accept_handler'] = st.env['accept_handler']
        for nm, t in dest_vars.items():
            st.env[nm] = ex.fresh(st, t, nm)
            st.inputs[nm] = st.env[nm]
    sp = Spec(PROP, 'connection', f'{cls}.{method}.tunnel_connection',
              params=dict(session_factory='opaque:Factory', orig_host='str', orig_port='int'),
              classes={cls: {}, 'Handler': {}}, setup=setup,
              stubs={'accept_handler': accept_handler_stub, 'await result': awaited_verdict_stub,
                     'self.' + opener: open_towards_dest_stub},
              always=[('relayed-only-where-the-accept-handler-permits(plain-or-awaited)',
                       _safe(relayed_only_where_permitted))],
              raises={'ChannelOpenError': True})
    sp.no_replay = True          # a closure cannot be called from outside its method
    return sp


tunnel_local_port = closure_spec('forward_local_port', 'SSHConnection', dict(dest_host='str', dest_port='int'),
                                 'create_connection')
tunnel_local_port_to_path = closure_spec('forward_local_port_to_path', 'SSHClientConnection', dict(dest_path='str'),
                                         'create_unix_connection')
