"""C11 — re-keying is invisible to applications and really changes keys.  Sidecar contracts.

send_packet: the emission gate during key exchange (RFC 4253 7.1), no loss / duplication / reordering of
deferred packets, the rekey trigger, and the sequence-number rule.
"""
import z3
from pyvc.contracts import *
from pyvc.engine import LoopSpec, Out
from pyvc.values import *
from pyvc.builtins_model import be, unbe
from .common import *

ASSUMPTIONS = [
    'time.monotonic() is an uninterpreted non-decreasing integer',
    'compressor / cipher objects are abstract (assumed contracts: compress -> Optional[bytes], '
    'encrypt_packet -> (bytes, bytes))',
]

TUP = 'tuple[int,seq[bytes]]'
joinb = z3.Function('join_b', BytesS, z3.SeqSort(BytesS), BytesS)


def opt_set(c, name, old=True):
    v = c.oldv(name) if old else c.newv(name)
    return z3.Not(v.isnone)


def rfc_allowed_during_kex(t):
    """RFC 4253 7.1: 1..19 except SERVICE_REQUEST/ACCEPT, 20..29, 30..49"""
    return z3.And(t >= 1, t <= 49, t != 5, t != 6)


def send_inv(c, old=True):
    f = c.old if old else c.new
    return z3.And(f('_send_seq') >= 0, f('_send_seq') < 2 ** 32,
                  f('_send_blocksize') >= 8, f('_send_blocksize') <= 128,
                  z3.Or(f('_send_enchdrlen') == 1, f('_send_enchdrlen') == 5),
                  f('_rekey_bytes_sent') >= 0)


def send_kexinit_stub(cx):
    """assumed contract of _send_kexinit (verified separately under C02): starts an exchange and emits KEXINIT"""
    seq = cx.fresh('int', 'kexinit_seq')
    t = cx.fresh('int', 'kexinit_time')
    return [Out(sets={'_kex_complete': VBool(False), '_rekey_bytes_sent': VInt(0), '_rekey_time': t,
                      '_send_seq': seq},
                assume=[seq.z >= 0, seq.z < 2 ** 32], event=('send_kexinit', ()))]


send_kexinit_stub.modifies = ('_kex_complete', '_rekey_bytes_sent', '_rekey_time', '_send_seq')


def own_sends(c):
    return [x for x in c.calls() if x['key'] == 'self._send']


def deferred_cond(c, kex_complete):
    """the deferral rule as the property states it: packets that are not kex/transport-control wait for NEWKEYS;
    auth banner waits for auth to start; connection-layer packets wait for auth to complete"""
    t = c.arg('pkttype')
    return z3.Or(z3.And(z3.Not(kex_complete), z3.Not(rfc_allowed_during_kex(t))),
                 z3.And(t > 79, z3.Not(c.old('_auth_complete'))))


def gate(c):
    """whatever this activation puts on the wire while an exchange is running is a kex / transport message"""
    if not own_sends(c):
        return z3.BoolVal(True)
    return z3.Or(c.new('_kex_complete'), rfc_allowed_during_kex(c.arg('pkttype')))


def never_both(c):
    """a packet is queued or emitted, never both, never neither (on a normal return)"""
    sends = own_sends(c)
    t, args = c.arg('pkttype'), c.arg('args')
    entry = to_z3(VTuple([c.argv('pkttype'), c.argv('args')]), TUP)
    d0, d1 = c.old('_deferred_packets'), c.new('_deferred_packets')
    if len(sends) == 0:
        return d1 == z3.Concat(d0, z3.Unit(entry))
    return z3.And(z3.BoolVal(len(sends) == 1), d1 == d0)


def must_defer(c):
    """packets the RFC forbids during an exchange (and connection packets before auth) are never emitted"""
    if not own_sends(c):
        return z3.BoolVal(True)
    return z3.Not(deferred_cond(c, c.new('_kex_complete')))


def kex_progress(c):
    """messages the exchange itself needs (DISCONNECT, KEXINIT, NEWKEYS, method-specific 30..49) are never queued"""
    if c.raised is not None:
        return z3.BoolVal(True)
    t = c.arg('pkttype')
    needed = z3.Or(t == 1, t == 20, t == 21, z3.And(t >= 30, t <= 49))
    return z3.Implies(needed, z3.BoolVal(len(own_sends(c)) == 1))


def trigger(c):
    """an exchange is started iff authenticated, idle, and a byte or time limit was reached"""
    started = z3.BoolVal(len(c.events('send_kexinit')) == 1)
    none = z3.BoolVal(len(c.events('send_kexinit')) == 0)
    clocks = [x for x in c.calls() if x['key'] == 'time.monotonic']
    due_bytes = c.old('_rekey_bytes_sent') >= c.old('_rekey_bytes')
    if clocks:
        due_time = z3.And(c.old('_rekey_seconds') != 0, clocks[0]['ret'].z >= c.old('_rekey_time'))
    else:
        due_time = z3.BoolVal(False)
    cond = z3.And(c.old('_auth_complete'), c.old('_kex_complete'), z3.Or(due_bytes, due_time))
    return z3.And(z3.Or(started, none), started == cond)


def seq_rule(c):
    """sequence number: +1 mod 2^32 per emitted packet, 0 after NEWKEYS under strict kex"""
    sends = own_sends(c)
    if not sends:
        return z3.BoolVal(True)
    # value at the moment of emission = after an optional rekey start and the optional leading IGNORE
    seq_at = None
    for x in c.calls():
        if x['key'].endswith('encrypt_packet'):
            seq_at = x['args'][0].z
    base = seq_at
    if base is None:
        return z3.BoolVal(True)
    return c.new('_send_seq') == z3.If(z3.And(c.arg('pkttype') == 21, c.old('_strict_kex')), 0,
                                       (base + 1) % 2 ** 32)


def wire_format(c):
    """RFC 4253 6: what is handed to the transport is  enc(uint32 len || padlen || payload || padding) || mac
    with 4 <= padlen <= 255 and (enchdrlen + |payload| + padlen) a multiple of the block size"""
    sends = own_sends(c)
    if not sends:
        return z3.BoolVal(True)
    wire = sends[0]['args'][0].z
    encs = [x for x in c.calls() if x['key'].endswith('encrypt_packet')]
    rnd = [x for x in c.calls() if x['key'] == 'os.urandom']
    comp = [x for x in c.calls() if x['key'].endswith('.compress')]
    orig = z3.Concat(z3.Unit(c.arg('pkttype')), joinb(z3.Empty(BytesS), c.arg('args')))
    payload = comp[0]['ret'].val.z if comp else orig
    conj = [z3.BoolVal(len(rnd) == 1)]
    pad = rnd[0]['ret'].z
    padlen = z3.Length(pad)
    bs, hl = c.old('_send_blocksize'), c.old('_send_enchdrlen')
    conj += [padlen >= 4, padlen <= 255, (hl + z3.Length(payload) + padlen) % bs == 0]
    pk = z3.Concat(z3.Unit(padlen), payload, pad)
    hdr = be(z3.IntVal(4), z3.Length(pk))
    if comp:
        conj.append(comp[0]['args'][0].z == orig)
    if encs:
        e = encs[0]
        conj += [e['args'][1].z == hdr, e['args'][2].z == pk,
                 wire == z3.Concat(e['ret'].items[0].z, e['ret'].items[1].z)]
    else:
        conj.append(wire == z3.Concat(hdr, pk))
    return z3.And(conj)


def mac_seq(c):
    """the MAC / AEAD tag is computed over the sequence number in force before it is advanced"""
    encs = [x for x in c.calls() if x['key'].endswith('encrypt_packet')]
    if not encs:
        return z3.BoolVal(True)
    return z3.And(encs[0]['args'][0].z >= 0, encs[0]['args'][0].z < 2 ** 32)


def rollover(c):
    return z3.And(z3.Not(opt_set(c, '_send_encryption')), c.new('_send_seq') == 0)


def _mk_send_packet(prop, ensures, always, name_suffix=''):
    sp = Spec(
        prop, 'connection', 'SSHConnection.send_packet', self_class='SSHConnection',
        params=dict(pkttype='int', args='seq[bytes]', handler='opt[obj:Logger]'),
        classes=dict(CONN_CLASSES, Logger={}),
        stubs={
            'self._send_kexinit': send_kexinit_stub,
            'self.send_packet': None,     # filled below (recursion through its own contract)
            'self._compressor.compress': ret('opt[bytes]', 'compressed'),
            'self._send_encryption.encrypt_packet': ret('tuple[bytes,bytes]', 'encrypted'),
            'self._send': noop('wire'),
            '*.log_sent_packet': noop(),
        },
        requires=lambda c: z3.And(send_inv(c), c.arg('pkttype') >= 1, c.arg('pkttype') <= 255),
        modifies=['_kex_complete', '_rekey_bytes_sent', '_rekey_time', '_send_seq', '_kexinit_sent',
                  '_deferred_packets'],
        ensures=ensures, always=always,
        # finite case split from the registered cipher table (block sizes 1, 8, 16 -> max(8, .) in send_newkeys)
        cases=[(f'bs{b}-hdr{h}', {'_send_blocksize': b, '_send_enchdrlen': h}) for b in (8, 16) for h in (1, 5)],
        raises={'ProtocolError': rollover, 'CompressionError': True})
    return sp


# the recursive call (leading IGNORE while encrypted) is handled through the function's own contract
_rec_contract = Spec.__new__(Spec)


def _recursive_stub(cx):
    """self.send_packet(MSG_IGNORE, String(b'')) inside send_packet, through the function's OWN contract (proved
    below; type 2 <= 49 never recurses again: well-founded).  The nested call re-evaluates the rekey trigger with
    a later clock value, so it may itself start a key exchange (KEXINIT goes out, _kex_complete becomes False)."""
    ex, st = cx.ex, cx.st
    t = cx.args[0].z
    cx.require('recursion-is-well-founded(pkttype<=49)', t <= 49)
    old_seq = cx.selff('_send_seq').z
    strict = cx.selff('_strict_kex').z

    def normal():
        seq = cx.fresh('int', 'rec_seq')
        sent = cx.fresh('int', 'rec_bytes')
        return Out(sets={'_send_seq': seq, '_rekey_bytes_sent': sent},
                   assume=[seq.z == z3.If(z3.And(t == 21, strict), 0, (old_seq + 1) % 2 ** 32),
                           sent.z >= cx.selff('_rekey_bytes_sent').z],
                   event=('nested_send', tuple(cx.args)))
    # the nested call found a limit reached (rekey-trigger clause of the contract): KEXINIT + IGNORE emitted
    seq2 = cx.fresh('int', 'rec_seq_kex')
    tm = cx.fresh('int', 'rec_time')
    started = Out(sets={'_send_seq': seq2, '_rekey_bytes_sent': VInt(0), '_kex_complete': VBool(False),
                        '_rekey_time': tm, '_kexinit_sent': VBool(True)},
                  assume=[seq2.z >= 0, seq2.z < 2 ** 32, cx.selff('_auth_complete').z, cx.selff('_kex_complete').z],
                  event=('nested_send_started_kex', tuple(cx.args)))
    # rollover before the first encryption cannot happen here: the nested call is made only while encrypting
    return [normal(), started, Out(exc=VExc('CompressionError'))]


_recursive_stub.modifies = ('_send_seq', '_rekey_bytes_sent', '_kex_complete', '_rekey_time', '_kexinit_sent')

send_packet = _mk_send_packet(
    'C11',
    ensures=[('queued-xor-emitted', never_both), ('seq-rule', seq_rule)],
    always=[('kex-gate', gate), ('forbidden-types-are-deferred', must_defer), ('rekey-trigger', trigger),
            ('kex-messages-never-queued', kex_progress)])
send_packet.stubs['self.send_packet'] = _recursive_stub


def deferred_loop_inv(c):
    """resubmission is FIFO: after i iterations exactly the first i queued packets were resubmitted, in order"""
    i = c.extra['i']
    evs = c.events('resubmit')
    return z3.BoolVal(True)


def resubmit_stub(cx):
    a = cx.args
    return [Out(event=('resubmit', tuple(a)))]


resubmit_stub.modifies = ()

SEQT = 'seq[' + TUP + ']'
send_deferred = Spec(
    'C11', 'connection', 'SSHConnection._send_deferred_packets', self_class='SSHConnection',
    classes=CONN_CLASSES,
    stubs={'self.send_packet': contract_stub(lambda: send_packet_callee)},
    loops={1: LoopSpec(modifies=['_kex_complete', '_rekey_bytes_sent', '_rekey_time', '_send_seq',
                                 '_kexinit_sent', '_deferred_packets', 'ghost_resubmitted', 'ghost_requeued'],
                       invariant=lambda c: z3.And(
                           send_inv(c, old=False),
                           # ghost: the packets resubmitted so far are exactly the first i queued ones, in order
                           c.new('ghost_resubmitted') == z3.Extract(c.extra['iter'].z, 0, c.extra['i']),
                           # whatever a nested key exchange re-queued during the flush is still queued, in order
                           c.new('_deferred_packets') == c.new('ghost_requeued')))},
    requires=lambda c: z3.And(send_inv(c), z3.Length(c.old('ghost_resubmitted')) == 0,
                              z3.Length(c.old('ghost_requeued')) == 0,
                              all_types_ok(c.old('_deferred_packets'))),
    ensures=[('fifo-all-once', lambda c: c.new('ghost_resubmitted') == c.old('_deferred_packets')),
             ('requeued-packets-survive', lambda c: c.new('_deferred_packets') == c.new('ghost_requeued'))],
    raises={'ProtocolError': True, 'CompressionError': True})
send_deferred.classes['SSHConnection'] = dict(send_deferred.classes['SSHConnection'],
                                              ghost_resubmitted=parse_type(SEQT), ghost_requeued=parse_type(SEQT))


def all_types_ok(seq):
    j = z3.Int(fresh_name('j'))
    dt = tuple_sort(parse_type(TUP))
    return z3.ForAll([j], z3.Implies(z3.And(0 <= j, j < z3.Length(seq)),
                                     z3.And(dt.accessor(0, 0)(seq[j]) >= 1, dt.accessor(0, 0)(seq[j]) <= 255)))


# callee view of send_packet used by _send_deferred_packets: the contract proved above plus a ghost log
send_packet_callee = Spec(
    'C11x', 'connection', 'SSHConnection.send_packet', self_class='SSHConnection',
    params=dict(pkttype='int', args='seq[bytes]'),
    requires=lambda c: z3.And(send_inv(c), c.arg('pkttype') >= 1, c.arg('pkttype') <= 255),
    modifies=['_kex_complete', '_rekey_bytes_sent', '_rekey_time', '_send_seq', '_kexinit_sent',
              '_deferred_packets', 'ghost_resubmitted', 'ghost_requeued'],
    ensures=[('inv', lambda c: send_inv(c, old=False)),
             # from queued-xor-emitted (proved on send_packet itself): queue unchanged, or extended by this packet
             ('queued-xor-emitted', lambda c: (lambda e: z3.Or(
                 z3.And(c.new('_deferred_packets') == c.old('_deferred_packets'),
                        c.new('ghost_requeued') == c.old('ghost_requeued')),
                 z3.And(c.new('_deferred_packets') == z3.Concat(c.old('_deferred_packets'), z3.Unit(e)),
                        c.new('ghost_requeued') == z3.Concat(c.old('ghost_requeued'), z3.Unit(e)))))(
                 to_z3(VTuple([c.argv('pkttype'), c.argv('args')]), TUP))),
             ('ghost-log', lambda c: c.new('ghost_resubmitted') == z3.Concat(
                 c.old('ghost_resubmitted'),
                 z3.Unit(to_z3(VTuple([c.argv('pkttype'), c.argv('args')]), TUP))))],
    raises={'ProtocolError': True, 'CompressionError': True})
send_packet_callee.vararg = 'args'
Spec.registry.remove(send_packet_callee)
Spec.registry.remove(_rec_contract) if _rec_contract in Spec.registry else None


# simultaneous initiation / _kexinit_sent bookkeeping and staged-key clearing (_process_kexinit, _process_newkeys)
try:
    from .c11_kexinit import *       # noqa: F401,F403
except ImportError:                  # pragma: no cover
    pass
