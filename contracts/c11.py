"""C11 — re-keying is invisible to applications and really changes keys.  Sidecar contracts.

send_packet: the emission gate during key exchange (RFC 4253 7.1), no loss / duplication / reordering of
deferred packets, the rekey trigger, and the sequence-number rule.
"""
import z3
from pyvc.contracts import *
from pyvc.engine import LoopSpec, Out
from pyvc.values import *
from pyvc.builtins_model import be, unbe
from .common import *

ASSUMPTIONS = [
    'time.monotonic() is an uninterpreted non-decreasing integer',
    'compressor / cipher objects are abstract (assumed contracts: compress -> Optional[bytes], '
    'encrypt_packet -> (bytes, bytes))',
    'send_packet / _send_kexinit / _send_deferred_packets call each other: every call goes through the CALLEE\'S '
    'VERIFIED contract (contract_stub; clauses that read the callee\'s own call log are not assumed at call sites, '
    'the log-free clauses class-inv / queue-unchanged-or-extended / never-queued / exchange-bookkeeping-untouched-'
    'while-an-exchange-runs are).  This is partial correctness; termination of the recursion: send_packet calls '
    'itself only with pkttype > 49 >= nested pkttype (pre-at-call obligation), and _send_kexinit -> send_packet(20) '
    'runs with _kex_complete False, where the re-key trigger (needs _kex_complete) cannot fire again',
    'K: `_kex is not None => not _kex_complete` (an exchange object exists only between our KEXINIT and our NEWKEYS) '
    'is assumed by send_newkeys; writers of _kex_complete: __init__ (False), _send_kexinit (False: under contract), '
    'send_newkeys (True, after _kex was cleared: proved there); the writer of _kex, the tail of _process_kexinit '
    '(`self._kex = get_kex(...)`), runs after our KEXINIT went out (this activation: region contract in '
    'c11_kexinit.py, or earlier: _kexinit_sent) - that last step is argued, not proved',
]

TUP = 'tuple[int,seq[bytes]]'
joinb = z3.Function('join_b', BytesS, z3.SeqSort(BytesS), BytesS)


def opt_set(c, name, old=True):
    v = c.oldv(name) if old else c.newv(name)
    return z3.Not(v.isnone)


def rfc_allowed_during_kex(t):
    """RFC 4253 7.1: 1..19 except SERVICE_REQUEST/ACCEPT, 20..29, 30..49"""
    return z3.And(t >= 1, t <= 49, t != 5, t != 6)


def send_inv(c, old=True):
    f = c.old if old else c.new
    return z3.And(f('_send_seq') >= 0, f('_send_seq') < 2 ** 32,
                  f('_send_blocksize') >= 8, f('_send_blocksize') <= 128,
                  z3.Or(f('_send_enchdrlen') == 1, f('_send_enchdrlen') == 5),
                  f('_rekey_bytes_sent') >= 0)


SEND_FIELDS = dict(CONN_FIELDS, _client_kexinit='bytes', _server_kexinit='bytes', _gss='opt[obj:GSS]',
                   _gss_kex='bool', _session_id='bytes')
SEND_CLASSES = dict(CONN_CLASSES, SSHConnection=SEND_FIELDS, Logger={}, GSS={'mechs': 'seq[bytes]'})


def _kexinit_spec():
    """the contract of SSHConnection._send_kexinit proved in c11_kexinit.py"""
    from . import c11_kexinit
    return c11_kexinit.send_kexinit


send_kexinit_stub = contract_stub(_kexinit_spec)


def own_sends(c):
    return [x for x in c.calls() if x['key'] == 'self._send']


def deferred_cond(c, kex_complete):
    """the deferral rule as the property states it: packets that are not kex/transport-control wait for NEWKEYS;
    auth banner waits for auth to start; connection-layer packets wait for auth to complete"""
    t = c.arg('pkttype')
    return z3.Or(z3.And(z3.Not(kex_complete), z3.Not(rfc_allowed_during_kex(t))),
                 z3.And(t > 79, z3.Not(c.old('_auth_complete'))))


def gate(c):
    """whatever this activation puts on the wire while an exchange is running is a kex / transport message"""
    if not own_sends(c):
        return z3.BoolVal(True)
    return z3.Or(c.new('_kex_complete'), rfc_allowed_during_kex(c.arg('pkttype')))


def never_both(c):
    """a packet is queued or emitted, never both, never neither (on a normal return)"""
    sends = own_sends(c)
    t, args = c.arg('pkttype'), c.arg('args')
    entry = to_z3(VTuple([c.argv('pkttype'), c.argv('args')]), TUP)
    d0, d1 = c.old('_deferred_packets'), c.new('_deferred_packets')
    if len(sends) == 0:
        return d1 == z3.Concat(d0, z3.Unit(entry))
    return z3.And(z3.BoolVal(len(sends) == 1), d1 == d0)


def must_defer(c):
    """packets the RFC forbids during an exchange (and connection packets before auth) are never emitted"""
    if not own_sends(c):
        return z3.BoolVal(True)
    return z3.Not(deferred_cond(c, c.new('_kex_complete')))


def kex_progress(c):
    """messages the exchange itself needs (DISCONNECT, KEXINIT, NEWKEYS, method-specific 30..49) are never queued"""
    if c.raised is not None:
        return z3.BoolVal(True)
    t = c.arg('pkttype')
    needed = z3.Or(t == 1, t == 20, t == 21, z3.And(t >= 30, t <= 49))
    return z3.Implies(needed, z3.BoolVal(len(own_sends(c)) == 1))


def trigger(c):
    """an exchange is started iff authenticated, idle, and a byte or time limit was reached"""
    n = len(c.calls('_send_kexinit'))
    started = z3.BoolVal(n == 1)
    none = z3.BoolVal(n == 0)
    clocks = [x for x in c.calls() if x['key'] == 'time.monotonic']
    due_bytes = c.old('_rekey_bytes_sent') >= c.old('_rekey_bytes')
    if clocks:
        due_time = z3.And(c.old('_rekey_seconds') != 0, clocks[0]['ret'].z >= c.old('_rekey_time'))
    else:
        due_time = z3.BoolVal(False)
    cond = z3.And(c.old('_auth_complete'), c.old('_kex_complete'), z3.Or(due_bytes, due_time))
    return z3.And(z3.Or(started, none), started == cond)


def left_by_last_call(c, field):
    """value of a send-side field right before this activation emits its packet: the entry value, or what the last
    _send_kexinit() / nested send_packet(MSG_IGNORE) call on this path left behind"""
    base = c.old(field)
    for x in c.calls():
        if x['key'] in ('self._send_kexinit', 'self.send_packet'):
            v = (x.get('sets') or {}).get(field)
            if v is not None:
                base = v.z
    return base


def kexinit_flag_set_by_trigger(c):
    """the re-key trigger records that OUR KEXINIT for the coming exchange is out: an activation that started an
    exchange itself leaves _kexinit_sent True (otherwise the peer's answering KEXINIT is answered with a second one and
    the peer disconnects); an activation that made no call leaves the flag alone"""
    own = [x for x in c.calls('_send_kexinit') if x['exc'] is None]
    nested = [x for x in c.calls() if x['key'] == 'self.send_packet']
    if own:
        return c.new('_kexinit_sent')
    if not nested:
        return c.new('_kexinit_sent') == c.old('_kexinit_sent')
    return z3.BoolVal(True)         # nested call: its own (log-free) clause below applies


def kexinit_flag_follows_exchange_start(c):
    """log-free form (callers / the nested call): an activation during which an exchange started (_kex_complete went
    from True to False) leaves _kexinit_sent True, and the flag is set for no other reason"""
    began = z3.And(c.old('_kex_complete'), z3.Not(c.new('_kex_complete')))
    return z3.And(z3.Implies(began, c.new('_kexinit_sent')),
                  z3.Implies(c.new('_kexinit_sent'), z3.Or(c.old('_kexinit_sent'), began)))


def emitted_packet_len(c):
    """len(padlen byte || payload || padding) of the packet this activation emits (the term wire_format checks)"""
    rnd = [x for x in c.calls() if x['key'] == 'os.urandom']
    comp = [x for x in c.calls() if x['key'].endswith('.compress')]
    orig = z3.Concat(z3.Unit(c.arg('pkttype')), joinb(z3.Empty(BytesS), c.arg('args')))
    payload = comp[0]['ret'].val.z if comp else orig
    return 1 + z3.Length(payload) + z3.Length(rnd[0]['ret'].z)


def bytes_counted(c):
    """re-key by byte limit: every packet emitted while no exchange is running is added to the byte counter the
    trigger compares with the limit (RFC 4253 9 / 4344 3: re-key after a bounded amount of data under one key set);
    a packet emitted during an exchange is not counted (the counter was reset when the exchange started)"""
    if not own_sends(c):
        return z3.BoolVal(True)
    base = left_by_last_call(c, '_rekey_bytes_sent')
    return c.new('_rekey_bytes_sent') == z3.If(c.new('_kex_complete'), base + emitted_packet_len(c), base)


def seq_before_emission(c):
    """the send counter right before this activation emits its packet: the entry value, or what the last
    _send_kexinit() / nested send_packet(MSG_IGNORE) call on this path left behind"""
    base = c.old('_send_seq')
    for x in c.calls():
        if x['key'] in ('self._send_kexinit', 'self.send_packet'):
            v = (x.get('sets') or {}).get('_send_seq')
            if v is not None:
                base = v.z
    return base


def seq_rule(c):
    """sequence number: +1 mod 2^32 per emitted packet, 0 after NEWKEYS under strict kex (OpenSSH PROTOCOL 1.10) -
    with and without encryption: the FIRST NEWKEYS of a connection goes out unencrypted, that is the Terrapin case"""
    if not own_sends(c):
        return z3.BoolVal(True)
    base = seq_before_emission(c)
    return c.new('_send_seq') == z3.If(z3.And(c.arg('pkttype') == 21, c.old('_strict_kex')), 0,
                                       (base + 1) % 2 ** 32)


def strict_send_seq_reset(c):
    """the counter restarts at NEWKEYS under strict kex and only there: a zero after any other emission is the
    32-bit wrap-around, which is legal only once encryption is on"""
    if not own_sends(c):
        return z3.BoolVal(True)
    base = seq_before_emission(c)
    newkeys_strict = z3.And(c.arg('pkttype') == 21, c.old('_strict_kex'))
    return z3.And(z3.Implies(newkeys_strict, c.new('_send_seq') == 0),
                  z3.Implies(z3.And(c.new('_send_seq') == 0, z3.Not(newkeys_strict)),
                             z3.And(base == 2 ** 32 - 1, opt_set(c, '_send_encryption'))),
                  z3.Implies(z3.Not(newkeys_strict), c.new('_send_seq') == (base + 1) % 2 ** 32))


def wire_format(c):
    """RFC 4253 6: what is handed to the transport is  enc(uint32 len || padlen || payload || padding) || mac
    with 4 <= padlen <= 255 and (enchdrlen + |payload| + padlen) a multiple of the block size"""
    sends = own_sends(c)
    if not sends:
        return z3.BoolVal(True)
    wire = sends[0]['args'][0].z
    encs = [x for x in c.calls() if x['key'].endswith('encrypt_packet')]
    rnd = [x for x in c.calls() if x['key'] == 'os.urandom']
    comp = [x for x in c.calls() if x['key'].endswith('.compress')]
    orig = z3.Concat(z3.Unit(c.arg('pkttype')), joinb(z3.Empty(BytesS), c.arg('args')))
    payload = comp[0]['ret'].val.z if comp else orig
    conj = [z3.BoolVal(len(rnd) == 1)]
    pad = rnd[0]['ret'].z
    padlen = z3.Length(pad)
    bs, hl = c.old('_send_blocksize'), c.old('_send_enchdrlen')
    conj += [padlen >= 4, padlen <= 255, (hl + z3.Length(payload) + padlen) % bs == 0]
    pk = z3.Concat(z3.Unit(padlen), payload, pad)
    hdr = be(z3.IntVal(4), z3.Length(pk))
    if comp:
        conj.append(comp[0]['args'][0].z == orig)
    if encs:
        e = encs[0]
        conj += [e['args'][1].z == hdr, e['args'][2].z == pk,
                 wire == z3.Concat(e['ret'].items[0].z, e['ret'].items[1].z)]
    else:
        conj.append(wire == z3.Concat(hdr, pk))
    return z3.And(conj)


def mac_seq(c):
    """the MAC / AEAD tag is computed over the sequence number in force before it is advanced"""
    encs = [x for x in c.calls() if x['key'].endswith('encrypt_packet')]
    if not encs:
        return z3.BoolVal(True)
    return z3.And(encs[0]['args'][0].z >= 0, encs[0]['args'][0].z < 2 ** 32,
                  encs[0]['args'][0].z == seq_before_emission(c))


def rollover(c):
    return z3.And(z3.Not(opt_set(c, '_send_encryption')), c.new('_send_seq') == 0)


# ---- the part of the contract that callers may rely on: clauses that do not read the activation's own call log
def queue_entry(c):
    return to_z3(VTuple([c.argv('pkttype'), c.argv('args')]), TUP)


def queue_step(c):
    """the queue is left alone or extended by exactly this packet, at the end"""
    d0, d1 = c.old('_deferred_packets'), c.new('_deferred_packets')
    return z3.Or(d1 == d0, d1 == z3.Concat(d0, z3.Unit(queue_entry(c))))


def never_queued(c):
    """DISCONNECT, IGNORE, UNIMPLEMENTED, EXT_INFO and the key-exchange messages themselves are never held back"""
    t = c.arg('pkttype')
    return z3.Implies(z3.And(rfc_allowed_during_kex(t), t != 4),
                      c.new('_deferred_packets') == c.old('_deferred_packets'))


def quiet_during_exchange(c):
    """while an exchange is running send_packet neither starts another one nor touches its bookkeeping (the re-key
    trigger cannot fire again, bytes are not counted)"""
    return z3.Implies(z3.Not(c.old('_kex_complete')),
                      z3.And(z3.Not(c.new('_kex_complete')), c.new('_kexinit_sent') == c.old('_kexinit_sent'),
                             c.new('_rekey_time') == c.old('_rekey_time'),
                             c.new('_rekey_bytes_sent') == c.old('_rekey_bytes_sent'),
                             # ... nor the KEXINIT payloads the exchange hash is computed over
                             c.new('_client_kexinit') == c.old('_client_kexinit'),
                             c.new('_server_kexinit') == c.old('_server_kexinit')))


def K2(c, old=True):
    f = c.old if old else c.new
    return z3.Implies(f('_kexinit_sent'), z3.Not(f('_kex_complete')))


def kexinit_sent_means_running(c):
    """K2: `_kexinit_sent => not _kex_complete` is preserved (our KEXINIT for the coming exchange is out)"""
    return z3.Implies(z3.Implies(c.old('_kexinit_sent'), z3.Not(c.old('_kex_complete'))),
                      z3.Implies(c.new('_kexinit_sent'), z3.Not(c.new('_kex_complete'))))


def queue_types_kept(c):
    """class invariant of the queue (what _send_deferred_packets requires): every entry has a legal type.  Stated
    pointwise for an arbitrary index j (forall-introduction on a fresh constant, the hypothesis instantiated at the
    same j): (forall j. ok(old, j) => ok(new, j)) implies all_types_ok(old) => all_types_ok(new)"""
    j = z3.Int(fresh_name('qj'))
    acc = tuple_sort(parse_type(TUP)).accessor(0, 0)

    def ok_at(q):
        return z3.Implies(z3.And(0 <= j, j < z3.Length(q)), z3.And(acc(q[j]) >= 1, acc(q[j]) <= 255))
    return z3.Implies(ok_at(c.old('_deferred_packets')), ok_at(c.new('_deferred_packets')))


CALLER_VIEW = [('class-inv', lambda c: send_inv(c, old=False)),
               ('queue-unchanged-or-extended-by-this-packet', queue_step),
               ('kex-and-transport-control-messages-are-never-queued', never_queued),
               ('exchange-bookkeeping-untouched-while-an-exchange-runs', quiet_during_exchange),
               ('kexinit_sent-only-while-an-exchange-runs', kexinit_sent_means_running),
               ('queue-entries-keep-legal-types', queue_types_kept)]


def _mk_send_packet(prop, ensures, always, name_suffix=''):
    sp = Spec(
        prop, 'connection', 'SSHConnection.send_packet', self_class='SSHConnection',
        params=dict(pkttype='int', args='seq[bytes]', handler='opt[obj:Logger]'),
        classes=SEND_CLASSES,
        stubs={
            'self._send_kexinit': send_kexinit_stub,     # verified contract (c11_kexinit.py)
            'self.send_packet': _recursive_stub,         # recursion through C11's own verified contract
            'self._compressor.compress': ret('opt[bytes]', 'compressed'),
            'self._send_encryption.encrypt_packet': ret('tuple[bytes,bytes]', 'encrypted'),
            'self._send': noop('wire'),
            '*.log_sent_packet': noop(),
        },
        requires=lambda c: z3.And(send_inv(c), c.arg('pkttype') >= 1, c.arg('pkttype') <= 255),
        modifies=['_kex_complete', '_rekey_bytes_sent', '_rekey_time', '_send_seq', '_kexinit_sent',
                  '_deferred_packets', '_client_kexinit', '_server_kexinit'],
        ensures=ensures, always=list(always) + (CALLER_VIEW if prop == 'C11' else []),
        # finite case split from the registered cipher table (block sizes 1, 8, 16 -> max(8, .) in send_newkeys)
        cases=[(f'bs{b}-hdr{h}', {'_send_blocksize': b, '_send_enchdrlen': h}) for b in (8, 16) for h in (1, 5)],
        raises={'ProtocolError': rollover, 'CompressionError': True,
                # `assert self._gss is not None` in _send_kexinit (GSS key exchange configured without a GSS object)
                'AssertionError': lambda c: z3.And(c.old('_gss_kex'), z3.Not(opt_set(c, '_gss')))})
    sp.vararg = 'args'
    sp.kwonly = ('handler',)
    return sp


def _recursive_stub(cx):
    """self.send_packet(MSG_IGNORE, String(b'')) inside send_packet: the function's OWN contract as verified under
    C11 (the nested call re-evaluates the re-key trigger with a later clock value, so it may itself start a key
    exchange: _kex_complete is in `modifies`).  Well-founded: the caller has pkttype > 49, the callee <= 49, and an
    activation with pkttype <= 49 makes no nested call (it would fail this very obligation)."""
    outer = cx.ex.entry_state.env['pkttype'].z
    cx.require('recursion-is-well-founded(pkttype<=49)', cx.args[0].z <= 49)
    cx.require('recursion-is-well-founded(caller-pkttype>49)', outer > 49)
    return contract_stub(lambda: send_packet)(cx)


_recursive_stub.modifies = ('_kex_complete', '_rekey_bytes_sent', '_rekey_time', '_send_seq', '_kexinit_sent',
                            '_deferred_packets', '_client_kexinit', '_server_kexinit')
_recursive_stub.spec_getter = lambda: send_packet

send_packet = _mk_send_packet(
    'C11',
    ensures=[('queued-xor-emitted', never_both), ('seq-rule', seq_rule),
             ('mac-over-the-pre-increment-sequence-number', mac_seq),
             ('rekey-trigger-leaves-kexinit_sent-set', kexinit_flag_set_by_trigger),
             ('kexinit_sent-set-iff-an-exchange-started-in-this-activation', kexinit_flag_follows_exchange_start),
             ('emitted-bytes-are-counted-towards-the-rekey-limit', bytes_counted)],
    always=[('kex-gate', gate), ('forbidden-types-are-deferred', must_defer), ('rekey-trigger', trigger),
            ('kex-messages-never-queued', kex_progress)])


# 400 paths: when a change refutes many of them, replay a failing input for the first few and report the rest without
# repeating the counter-model search (cost on a broken tree only; every refuted obligation is still a VIOLATION)
send_packet.confirm_limit = 2
send_packet.confirm_attempts = 24


def resubmit_under_contract(cx):
    """self.send_packet(pkttype, *args) in the flush loop: the VERIFIED contract of send_packet, plus ghost
    bookkeeping only - ghost_resubmitted logs every call in order; ghost_requeued logs what the callee appended to
    the live queue (by the contract the queue is unchanged or extended by exactly this packet)"""
    outs = contract_stub(lambda: send_packet)(cx)
    a = list(cx.args)
    rest = a[1:]
    if len(rest) == 1 and isinstance(rest[0], tuple) and rest[0][0] == 'star':
        argsv = rest[0][1]
    else:
        t_ = parse_type('seq[bytes]')
        argsv = VSeq(to_z3(VList(rest), t_), t_.args[0])
    e = to_z3(VTuple([a[0], argsv]), TUP)
    c0 = Ctx(cx.ex, cx.st, cx.st, cx.ex.self_ref)
    d0, gr0, gs0 = c0.new('_deferred_packets'), c0.new('ghost_requeued'), c0.new('ghost_resubmitted')
    for o in outs:
        d1 = o.sets['_deferred_packets'].z
        gr1 = cx.fresh(SEQT, 'requeued')
        o.sets['ghost_resubmitted'] = VSeq(z3.Concat(gs0, z3.Unit(e)), TUP)
        o.sets['ghost_requeued'] = gr1
        o.assume.append(z3.Or(z3.And(d1 == d0, gr1.z == gr0),
                              z3.And(d1 == z3.Concat(d0, z3.Unit(e)), gr1.z == z3.Concat(gr0, z3.Unit(e)))))
    return outs


resubmit_under_contract.modifies = _recursive_stub.modifies + ('ghost_resubmitted', 'ghost_requeued')
resubmit_under_contract.spec_getter = lambda: send_packet

SEQT = 'seq[' + TUP + ']'
send_deferred = Spec(
    'C11', 'connection', 'SSHConnection._send_deferred_packets', self_class='SSHConnection',
    classes=SEND_CLASSES,
    stubs={'self.send_packet': resubmit_under_contract},
    loops={1: LoopSpec(modifies=['_kex_complete', '_rekey_bytes_sent', '_rekey_time', '_send_seq',
                                 '_kexinit_sent', '_deferred_packets', '_client_kexinit', '_server_kexinit',
                                 'ghost_resubmitted', 'ghost_requeued'],
                       invariant=lambda c: z3.And(
                           send_inv(c, old=False), K2(c, old=False),
                           # ghost: the packets resubmitted so far are exactly the first i queued ones, in order
                           c.new('ghost_resubmitted') == z3.Extract(c.extra['iter'].z, 0, c.extra['i']),
                           # whatever a nested key exchange re-queued during the flush is still queued, in order
                           c.new('_deferred_packets') == c.new('ghost_requeued')))},
    requires=lambda c: z3.And(send_inv(c), K2(c), z3.Length(c.old('ghost_resubmitted')) == 0,
                              z3.Length(c.old('ghost_requeued')) == 0,
                              all_types_ok(c.old('_deferred_packets'))),
    modifies=['_kex_complete', '_rekey_bytes_sent', '_rekey_time', '_send_seq', '_kexinit_sent',
              '_deferred_packets', '_client_kexinit', '_server_kexinit', 'ghost_resubmitted', 'ghost_requeued'],
    ensures=[('fifo-all-once', lambda c: c.new('ghost_resubmitted') == c.old('_deferred_packets')),
             ('requeued-packets-survive', lambda c: c.new('_deferred_packets') == c.new('ghost_requeued'))],
    always=[('class-inv', lambda c: send_inv(c, old=False)),
            ('kexinit_sent-only-while-an-exchange-runs', lambda c: K2(c, old=False))],
    raises={'ProtocolError': True, 'CompressionError': True,
            'AssertionError': lambda c: z3.And(c.old('_gss_kex'), z3.Not(opt_set(c, '_gss')))})
send_deferred.classes['SSHConnection'] = dict(send_deferred.classes['SSHConnection'],
                                              ghost_resubmitted=parse_type(SEQT), ghost_requeued=parse_type(SEQT))


def all_types_ok(seq):
    j = z3.Int(fresh_name('j'))
    dt = tuple_sort(parse_type(TUP))
    return z3.ForAll([j], z3.Implies(z3.And(0 <= j, j < z3.Length(seq)),
                                     z3.And(dt.accessor(0, 0)(seq[j]) >= 1, dt.accessor(0, 0)(seq[j]) <= 255)))


# simultaneous initiation / _kexinit_sent bookkeeping and staged-key clearing (_process_kexinit, _process_newkeys)
try:
    from .c11_kexinit import *       # noqa: F401,F403
except ImportError:                  # pragma: no cover
    pass
