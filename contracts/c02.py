"""C02 — emitted packets conform to RFC 4253 and survive any segmentation.  Sidecar contracts.

* send_packet: binary packet layout, padding (spec: RFC 4253 6); the sequence number handed to encrypt_packet is the
  live value of _send_seq at emission, and _send_seq' == (that + 1) mod 2^32 - or 0 at NEWKEYS under strict kex,
  including the FIRST (still unencrypted) NEWKEYS: the send half of the Terrapin counter-measure
* encrypt_packet of the four Encryption classes: MAC / AEAD input per RFC 4253 6.4, OpenSSH etm, RFC 5647, chacha20-poly1305
* Kex.compute_key: the RFC 4253 7.2 key expansion (inductive spec predicate `chain`)
* send_newkeys: letters A-F / direction table, session id written once
* GCMCipher._update_iv: RFC 5647 7.1 (only the 64-bit invocation counter moves, mod 2^64)
* receive framing: _recv_version / _recv_pkthdr / _recv_packet consume nothing unless the whole unit is buffered, and
  then exactly that unit, reading nothing behind it; _recv_data drains every ready unit in order; data_received
  appends; lemma: drain(s, a ++ b) == drain(drain(s, a), b)  =>  any segmentation gives the same payload sequence
* schedules: a handler that is still running parks the pump (_recv_packet), its completion (_finish_recv_packet,
  is_async) re-arms the header step and drains what was buffered meanwhile
* compression: compressed iff an algorithm other than "none" is in force for THAT direction (delayed zlib@openssh.com:
  only after authentication) - send_packet, _recv_packet, send_newkeys (ghost algorithm tags), _process_newkeys
* "under the negotiated algorithms": data lemma over the registered cipher x MAC x compression tables against a table
  written from the RFCs (specs/c02_suites.py), initial framing (__init__), get_encryption / Encryption.new (etm
  dispatch), ChachaCipher.__init__ / chacha20 (key halves, block counter), GCMCipher.__init__, UInt32 / UInt64
"""
import z3
from pyvc.contracts import *
from pyvc.engine import LoopSpec, Out, Prove
from pyvc.values import *
from pyvc.builtins_model import be, unbe
from .common import *
from . import c11

ASSUMPTIONS = list(c11.ASSUMPTIONS) + [
    'hash objects are accumulators: digest() is an uninterpreted function H of the concatenation of the update() '
    'arguments, with len(H(.)) == digest_size > 0',
    'zlib stream framing is not verified',
    'cipher block sizes are {1, 8, 16} (read from the registered cipher table) so the send block size is 8 or 16',
    'receive framing: the peer-chosen packet_length is assumed sane (need >= _recv_macsize, i.e. packet_length >= '
    'blocksize - 4): a shorter hostile length is a robustness question, deliberately not part of this property',
    'segmentation: the indirect call self._recv_handler() in _recv_data is modelled by the ABSTRACT step contract '
    '(i) not ready -> False and no change, (ii) ready -> consumes exactly need >= 1 bytes, successor state and payload '
    'are functions of (state, those bytes), bytes behind them are irrelevant.  _recv_version / _recv_pkthdr / '
    '_recv_packet are proved to satisfy the clauses named in the comment above `RecvState`; that these clauses make each '
    'handler an instance of (i)/(ii) is a refinement argument on paper (decrypt_header / decrypt_packet / decompress / '
    'the message handlers are deterministic functions of their arguments and the receive state), not a mechanised '
    'step.  need >= 1 holds for every packet a conforming sender emits (4 + packet_length is a multiple of max(8, '
    'block size) and >= 16, or a MAC / tag follows); a step that closes the connection ends the claim (C10 / C01: '
    'nothing is delivered afterwards)',
    'drain(s, x) is the unique function defined by well-founded recursion on |x| (need >= 1); only definitional '
    'instances of it are assumed; the induction principle over the number of steps is the trusted step of the '
    'segmentation lemma (base and step case are solver-checked in extra_checks)',
    'Encryption.encrypt_packet in send_packet is the abstract (bytes, bytes) contract; the four implementations are '
    'under contract here; MAC.sign / Cipher.encrypt inside them are uninterpreted (mac.py is under contract in C01)',
    'schedules: ghost_rs of a connection whose pump is parked (a message handler returned an awaitable) is the abstract '
    'state the machine RESUMES in; the parked step `lambda: False` is an instance of (i) (never ready, changes nothing). '
    '_finish_recv_packet(is_async=True) is proved to re-enter the verified pump exactly once, with the header step armed, '
    'on exactly the bytes buffered meanwhile; that asyncio invokes the done-callback registered by _recv_packet exactly '
    'once when the task completes is the asyncio contract (trusted); message handlers / tasks do not write '
    '_recv_handler or _inpbuf (writers: __init__, _recv_version, _recv_pkthdr, _recv_packet, _finish_recv_packet, '
    'data_received; _cleanup empties the buffer when the connection ends, which ends the claim)',
    'compression: get_compressor / get_decompressor / get_compression_params in send_newkeys are the assumed contract '
    '"None exactly for `none`, else a codec of that algorithm; delayed flag = cmp_delayed(alg)"; the registered table '
    'is compared with RFC 4253 6.2 / OpenSSH PROTOCOL natively (data lemma C02.data#suite-parameters: none -> no codec, '
    'zlib -> immediate, zlib@openssh.com -> delayed); compress / decompress themselves are opaque (fresh result)',
    'data lemma C02.data#suite-parameters is NOT an SMT proof: the real get_encryption_params / encryption_needs_mac / '
    'get_encryption / compression getters are EVALUATED under /venv/bin/python for every registered cipher x MAC '
    '(331 rows on the pinned tree) and compared with specs/c02_suites.py, written from RFC 4253 / 4344 / 4345 / 5647 / '
    '6668 and OpenSSH PROTOCOL, PROTOCOL.chacha20poly1305 (the @ssh.com rows and hmac-sha2-*-96 from vendor / draft '
    'documents: lower confidence); it is exhaustive because the tables are finite',
    'class invariant `no send cipher => _send_enchdrlen == 5 and _send_blocksize == 8` (required by send_packet and '
    'send_newkeys): writers SSHConnection.__init__ (region contract over the framing assignments of the constructor: '
    '`initial-framing...`) and send_newkeys (`class-inv:no-cipher-means-initial-framing`); no other writer of the three '
    'fields exists (grep)',
    'ChachaCipher.__init__ requires a 64-byte key, GCMCipher.__init__ a 12-byte IV: both are compute_key results '
    '(`rfc4253-7.2-expansion-truncated`: len == the size asked for) of the sizes the data lemma fixes for those suites; '
    'the chain send_newkeys -> get_encryption -> Encryption.new -> cipher constructor is argued through the argument-'
    'order contracts on get_encryption / *.new, not composed mechanically',
    'cryptography library contract (trusted): ChaCha20(key, nonce16) reads nonce16 as 64-bit little-endian block '
    'counter followed by the 64-bit nonce; Cipher(alg, mode=None).encryptor().update(d) is the keystream XOR',
    'shared contracts registered under C02 with their home-property assumptions: C11 _process_newkeys, C15 UInt32 / '
    'UInt64, C01 ChachaCipher.encrypt_and_sign / GCMCipher.encrypt_and_sign; C11 send_packet clause queued-xor-emitted',
]

# ------------------------------------------------------------------ send_packet: wire format
U32 = 2 ** 32


def encrypt_packet_stub(cx):
    """Encryption.encrypt_packet(seq, hdr, packet) -> (bytes, bytes) (the four implementations are under contract
    below); the ghost event also records the live value of _send_seq at the moment of the call"""
    r = cx.fresh('tuple[bytes,bytes]', 'encrypted')
    return [Out(ret=r, event=('encrypt_packet', tuple(cx.args) + (cx.selff('_send_seq'),)))]


encrypt_packet_stub.modifies = ()


def wire_stub(cx):
    """self._send(data): the bytes leave; the ghost event records the live value of _send_seq at that moment"""
    return [Out(ret=VNone, event=('wire', tuple(cx.args) + (cx.selff('_send_seq'),)))]


wire_stub.modifies = ()


def emission_seq(c):
    """the value of the connection's send counter when this packet was put on the wire"""
    w = c.events('wire')
    return w[0][1][-1].z if w else None


def mac_over_current_seq(c):
    """RFC 4253 6.4: the sequence number bound into the MAC / AEAD nonce of a packet is the sender's counter for THIS
    packet: the value _send_seq holds when the packet is emitted (before this packet's own increment)"""
    encs = c.events('encrypt_packet')
    if not encs:
        return z3.BoolVal(True)
    a = encs[0][1]
    live = a[-1].z
    return z3.And(z3.BoolVal(len(encs) == 1), a[0].z == live, live >= 0, live < U32,
                  # ... and the counter did not move between computing the tag and emitting the packet
                  emission_seq(c) == live)


def seq_rule(c):
    """every emitted packet - encrypted or not - advances the counter by exactly one mod 2^32; the one exception is
    RFC-extension strict kex (the Terrapin counter-measure): NEWKEYS resets it to 0, also at the FIRST key exchange,
    when NEWKEYS itself still goes out unencrypted"""
    # other emissions of this activation (a rekey start, the leading IGNORE), whatever stub models them
    others = [x for x in c.calls() if x['key'] in ('self._send_kexinit', 'self.send_packet')]
    if not c11.own_sends(c):
        return c.new('_send_seq') == c.old('_send_seq') if not others else z3.BoolVal(True)
    base = emission_seq(c)
    conj = [z3.BoolVal(len(c.events('wire')) == 1),
            c.new('_send_seq') == z3.If(z3.And(c.arg('pkttype') == 21, c.old('_strict_kex')), 0, (base + 1) % U32)]
    if not others:
        # nothing else was emitted by this activation: the number used is the counter's value on entry
        conj.append(base == c.old('_send_seq'))
    return z3.And(conj)


def compression_in_effect(c, codec, delayed):
    """RFC 4253 6.2 / OpenSSH PROTOCOL (zlib@openssh.com): a direction's payloads are compressed iff a compression
    algorithm other than "none" is in force for that direction (then, and only then, a (de)compressor object is
    installed: send_newkeys / _process_newkeys + the data lemma on the compression table) and - for the delayed variant
    zlib@openssh.com - authentication has completed"""
    return z3.And(z3.Not(c.is_none(c.oldv(codec))), z3.Or(c.old('_auth_complete'), z3.Not(c.old(delayed))))


def payload_compressed_iff_in_effect(c):
    """the payload field on the wire is compress(payload) iff compression is in effect for the sending direction at
    this moment, else the payload itself (`rfc4253-binary-packet` ties the emitted payload field to the compressor's
    output for exactly this payload when there is one, to the payload otherwise)"""
    if not c11.own_sends(c):
        return z3.BoolVal(True)
    comp = [x for x in c.calls() if x['key'].endswith('.compress')]
    eff = compression_in_effect(c, '_compressor', '_compress_after_auth')
    return z3.And(z3.BoolVal(len(comp) <= 1), eff if comp else z3.Not(eff))


def cleartext_framing(c, old=True):
    """class invariant of the sending side, RFC 4253 6: until the first NEWKEYS there is no cipher and no MAC: the
    alignment unit is 8 and the length field counts (it is neither sent apart from an encrypted body nor AAD).
    Writers of _send_encryption / _send_enchdrlen / _send_blocksize: __init__ (`initial_framing` below establishes it),
    send_newkeys (installs a cipher object: `rfc4253-7.2-letters-and-directions` says the field is not None
    afterwards, and nothing ever resets it to None)."""
    f, fv = (c.old, c.oldv) if old else (c.new, c.newv)
    return z3.Implies(c.is_none(fv('_send_encryption')),
                      z3.And(f('_send_enchdrlen') == 5, f('_send_blocksize') == 8))


def cleartext_packet_shape(c):
    """RFC 4253 6 for the packets that leave before the first NEWKEYS (version exchange done, no keys yet): the whole
    of packet_length || padding_length || payload || padding is a multiple of 8 and at least 16 bytes long"""
    sends = c11.own_sends(c)
    if not sends:
        return z3.BoolVal(True)
    n = z3.Length(sends[0]['args'][0].z)
    return z3.Implies(c.is_none(c.oldv('_send_encryption')), z3.And(n % 8 == 0, n >= 16))


send_packet = c11._mk_send_packet(
    'C02',
    ensures=[('rfc4253-binary-packet', c11.wire_format), ('mac-over-pre-increment-seq', mac_over_current_seq),
             ('seq-rule', seq_rule),
             ('payload-compressed-iff-compression-is-in-effect-for-the-sending-direction',
              payload_compressed_iff_in_effect),
             ('cleartext-packets-are-a-multiple-of-8-counting-the-length-field', cleartext_packet_shape),
             # "every payload sent is received exactly once", sending half: the clause is C11's (same function, same
             # call graph), registered here too so that `./check C02` alone notices a packet that is queued AND sent
             ('queued-xor-emitted', c11.never_both)],
    always=[])
_send_packet_requires = send_packet.requires
send_packet.requires = lambda c: z3.And(_send_packet_requires(c), cleartext_framing(c))
send_packet.stubs['self.send_packet'] = c11._recursive_stub
send_packet.stubs['self._send_encryption.encrypt_packet'] = encrypt_packet_stub
send_packet.stubs['self._send'] = wire_stub
send_packet.model_timeout_ms = 2500     # per-path cross-check witness search budget (sampling only, not a proof step)
send_packet.confirm_attempts = 24       # 360 paths: cap the counter-model searches when a change refutes many of them


# ------------------------------------------------------------------ encryption.py: encrypt_packet (sending side)
# What the sender authenticates, per suite, against the RFCs (not against decrypt_packet - a symmetric slip in
# both directions must still disagree with these):
#   BasicEncryption  RFC 4253 6.4: mac = MAC(key, sequence_number || unencrypted_packet), unencrypted_packet being the
#                    whole packet (length field, padding length, payload, padding); wire = ENC(unencrypted_packet)
#   ETMEncryption    OpenSSH PROTOCOL 1.6 (*-etm@openssh.com): length field in clear, wire = length || ENC(rest),
#                    mac = MAC(key, sequence_number || length || ENC(rest)) - computed over the CIPHERTEXT
#   GCMEncryption    RFC 5647 7.2: AAD = length field, plaintext = rest, no sequence number (the IV counter)
#   ChachaEncryption OpenSSH PROTOCOL.chacha20poly1305: nonce = UInt64(sequence_number), header and rest sealed
# Primitives are uninterpreted: cipher.encrypt = enc_f(data), MAC.sign = a fresh value logged with its arguments
# (its own contract - mac over UInt32(seq) || data resp. UMAC nonce - is proved on mac.py under C01).
enc_f = z3.Function('cipher_encrypt', BytesS, BytesS)


def cipher_encrypt_stub(cx):
    return [Out(ret=VBytes(enc_f(cx.args[0].z)), event=('encrypt', tuple(cx.args)))]


cipher_encrypt_stub.modifies = ()


def mac_sign_stub(cx):
    return [Out(ret=cx.fresh('bytes', 'mac_tag'), event=('sign', tuple(cx.args)))]


mac_sign_stub.modifies = ()


def aead_seal_stub(cx):
    return [Out(ret=cx.fresh('tuple[bytes,bytes]', 'sealed'), event=('seal', tuple(cx.args)))]


aead_seal_stub.modifies = ()

ENCP_CLASSES = {'BasicEncryption': {'_cipher': 'obj:Cipher', '_mac': 'obj:MAC'},
                'ETMEncryption': {'_cipher': 'obj:Cipher', '_mac': 'obj:MAC'},
                'GCMEncryption': {'_cipher': 'obj:Cipher'}, 'ChachaEncryption': {'_cipher': 'obj:Cipher'},
                'Cipher': {}, 'MAC': {}}
ENCP_PARAMS = dict(seq='int', header='bytes', packet='bytes')


def _one(c, name):
    e = c.events(name)
    return e[0][1] if len(e) == 1 else None


def basic_encrypt_post(c):
    """MAC-then-encrypt: tag over (seq, length || packet) in clear; the wire carries ENC(length || packet)"""
    s, e = _one(c, 'sign'), _one(c, 'encrypt')
    if s is None or e is None:
        return z3.BoolVal(False)
    whole = z3.Concat(c.arg('header'), c.arg('packet'))
    r = c.result_v
    return z3.And(s[0].z == c.arg('seq'), s[1].z == whole, e[0].z == whole,
                  r.items[0].z == enc_f(whole), r.items[1].z == c.calls('sign')[0]['ret'].z)


def etm_encrypt_post(c):
    """encrypt-then-MAC: only the body is encrypted, the tag is over (seq, length || ENC(body)), i.e. over exactly
    the bytes that go on the wire, and it is computed after the encryption"""
    s, e = _one(c, 'sign'), _one(c, 'encrypt')
    if s is None or e is None:
        return z3.BoolVal(False)
    wire = z3.Concat(c.arg('header'), enc_f(c.arg('packet')))
    keys = [x['key'].rsplit('.', 1)[-1] for x in c.calls()]
    r = c.result_v
    return z3.And(e[0].z == c.arg('packet'), s[0].z == c.arg('seq'), s[1].z == wire,
                  z3.BoolVal(keys.index('encrypt') < keys.index('sign')),
                  r.items[0].z == wire, r.items[1].z == c.calls('sign')[0]['ret'].z)


def gcm_encrypt_post(c):
    a = _one(c, 'seal')
    if a is None or len(a) != 2:
        return z3.BoolVal(False)
    return z3.And(a[0].z == c.arg('header'), a[1].z == c.arg('packet'),
                  c.eq(c.result_v, c.calls('encrypt_and_sign')[0]['ret']))


def chacha_encrypt_post(c):
    a = _one(c, 'seal')
    if a is None or len(a) != 3:
        return z3.BoolVal(False)
    return z3.And(a[0].z == c.arg('header'), a[1].z == c.arg('packet'),
                  a[2].z == be(z3.IntVal(8), c.arg('seq')),                 # nonce = UInt64(seq)
                  c.eq(c.result_v, c.calls('encrypt_and_sign')[0]['ret']))


def mk_encrypt_packet_specs(prop):
    """the four encrypt_packet contracts, registered under `prop` (C02: conformance of what is emitted; C01: the
    sending half of "tamper-evident in both directions")"""
    seq32 = lambda c: z3.And(c.arg('seq') >= 0, c.arg('seq') < 2 ** 32)        # noqa: E731
    out = []
    for cls, post, label, stubs in (
            ('BasicEncryption', basic_encrypt_post, 'rfc4253-6.4-mac-over-seq-and-unencrypted-packet',
             {'self._cipher.encrypt': cipher_encrypt_stub, 'self._mac.sign': mac_sign_stub}),
            ('ETMEncryption', etm_encrypt_post, 'etm-encrypt-then-mac-over-seq-length-and-ciphertext',
             {'self._cipher.encrypt': cipher_encrypt_stub, 'self._mac.sign': mac_sign_stub}),
            ('GCMEncryption', gcm_encrypt_post, 'rfc5647-aad-is-the-length-field',
             {'self._cipher.encrypt_and_sign': aead_seal_stub}),
            ('ChachaEncryption', chacha_encrypt_post, 'chacha20-poly1305-nonce-is-uint64-seq',
             {'self._cipher.encrypt_and_sign': aead_seal_stub})):
        out.append(Spec(prop, 'encryption', f'{cls}.encrypt_packet', self_class=cls, params=ENCP_PARAMS,
                        classes=ENCP_CLASSES, stubs=stubs, requires=seq32, ensures=[(label, post)],
                        returns='tuple[bytes,bytes]', raises={}))
    return out


encrypt_packet_specs = mk_encrypt_packet_specs('C02')


# ------------------------------------------------------------------ Kex.compute_key
H = z3.Function('H', BytesS, BytesS)                     # hash of an accumulated byte string
chain = z3.Function('rfc_chain', BytesS, BytesS, BytesS, BytesS, BytesS, BoolS)
# chain(k, h, x, sid, key): key == K1 || ... || Kn for some n >= 0 with
#   K1 = HASH(K || H || X || session_id),  Kn+1 = HASH(K || H || K1 || ... || Kn)          (RFC 4253 7.2)
# inductive definition: chain(empty); chain(key) => chain(key ++ H(k ++ h ++ (key if key else x ++ sid)))


def hash_ctor(cx):
    o = cx.fresh('obj:Hash', 'hash')
    cx.st.set_field(o, 'ghost_data', VBytes(b''))
    return [Out(ret=o)]


hash_ctor.modifies = ()


def hash_update(cx):
    cur = cx.ex.get_field(cx.st, cx.recv, 'ghost_data')
    arg = cx.args[0]
    return [Out(osets=[(cx.recv, 'ghost_data', VBytes(z3.Concat(cur.z, arg.z)))])]


hash_update.modifies = ()


def hash_digest(cx):
    cur = cx.ex.get_field(cx.st, cx.recv, 'ghost_data')
    d = H(cur.z)
    ds = cx.selff('ghost_digest_size').z
    return [Out(ret=VBytes(d), assume=[z3.Length(d) == ds])]


hash_digest.modifies = ()


def ck_args(c):
    return c.arg('k'), c.arg('h'), c.arg('x'), c.arg('session_id')


def ck_lemmas(c):
    """definitional instances of `chain` for the current key"""
    k, h, x, sid = ck_args(c)
    out = [chain(k, h, x, sid, z3.Empty(BytesS))]
    for key in ([c.head.env['key'].z] if getattr(c, 'head', None) is not None and 'key' in c.head.env else []):
        nxt = z3.If(z3.Length(key) > 0, key, z3.Concat(x, sid))
        out.append(z3.Implies(chain(k, h, x, sid, key),
                              chain(k, h, x, sid, z3.Concat(key, H(z3.Concat(k, h, nxt))))))
        out.append(z3.Implies(z3.Length(key) == 0, key == z3.Empty(BytesS)))
    return out


compute_key = Spec(
    'C02', 'kex', 'Kex.compute_key', self_class='Kex',
    params=dict(k='bytes', h='bytes', x='bytes', session_id='bytes', keylen='int'),
    classes={'Kex': {'ghost_digest_size': 'int'}, 'Hash': {'ghost_data': 'bytes'}},
    stubs={'self._hash_alg': hash_ctor, 'hash_obj.update': hash_update, 'hash_obj.digest': hash_digest},
    loops={1: LoopSpec(header='len(key) < keylen',
                       invariant=lambda c: z3.And(chain(*ck_args(c), c.local('key')),
                                                  z3.Or(z3.Length(c.local('key')) == 0,
                                                        z3.Length(c.local('key')) - c.old('ghost_digest_size')
                                                        < c.arg('keylen'))),
                       variant=lambda c: c.arg('keylen') - z3.Length(c.local('key')),
                       lemmas=ck_lemmas)},
    local_types={'hash_obj': 'obj:Hash'},
    requires=lambda c: z3.And(c.old('ghost_digest_size') >= 1, c.arg('keylen') >= 0),
    returns='bytes')
# the postcondition needs the final `key`; it is a local, so it is stated through the loop-exit state:
compute_key.ensures = [
    ('rfc4253-7.2-expansion-truncated',
     lambda c: z3.And(chain(*ck_args(c), c.local('key')),
                      c.result == z3.Extract(c.local('key'), 0, c.arg('keylen')),
                      z3.Length(c.result) == c.arg('keylen'),
                      # minimal: no extra block was appended
                      z3.Or(z3.Length(c.local('key')) == 0,
                            z3.Length(c.local('key')) - c.old('ghost_digest_size') < c.arg('keylen')))),
]


# ------------------------------------------------------------------ GCMCipher._update_iv
update_iv = Spec(
    'C02', 'crypto.cipher', 'GCMCipher._update_iv', self_class='GCMCipher',
    classes={'GCMCipher': {'_iv': 'bytes'}},
    requires=lambda c: z3.Length(c.old('_iv')) == 12,
    ensures=[('rfc5647-fixed-field-unchanged',
              lambda c: z3.Extract(c.new('_iv'), 0, 4) == z3.Extract(c.old('_iv'), 0, 4)),
             ('rfc5647-invocation-counter-plus-one-mod-2^64',
              lambda c: z3.And(z3.Length(c.new('_iv')) == 12,
                               unbe(z3.Extract(c.new('_iv'), 4, 8)) ==
                               (unbe(z3.Extract(c.old('_iv'), 4, 8)) + 1) % 2 ** 64))],
    raises={})


# ------------------------------------------------------------------ receive framing (chunk independence)
def hdr_requires(c):
    return z3.And(c.old('_recv_blocksize') >= 8, c.old('_recv_seq') >= 0, c.old('_recv_seq') < 2 ** 32)


def header_reads_only_its_block(c):
    """(ii) the step is a function of (state, the one block it consumes): the staged header is that block (or what
    decrypt_header made of exactly that block under the receive counter), the length is its first field"""
    bs = c.old('_recv_blocksize')
    block = z3.Extract(c.old('_inpbuf'), 0, bs)
    dh = c.calls('decrypt_header')
    if not dh:
        return z3.Implies(c.result, z3.And(c.is_none(c.oldv('_recv_encryption')), c.new('_packet') == block))
    a, r = dh[0]['args'], dh[0]['ret']
    return z3.And(z3.BoolVal(len(dh) == 1), z3.Not(c.is_none(c.oldv('_recv_encryption'))),
                  a[0].z == c.old('_recv_seq'), a[1].z == block, a[2].z == 4,
                  c.new('_packet') == r.items[0].z, c.new('_pktlen') == unbe(r.items[1].z))


recv_pkthdr = Spec(
    'C02', 'connection', 'SSHConnection._recv_pkthdr', self_class='SSHConnection', classes=CONN_CLASSES,
    stubs={'self._recv_encryption.decrypt_header': ret('tuple[bytes,bytes]', 'hdr',
                                                       assume=lambda cx, v: z3.Length(v.items[1].z) == 4)},
    requires=hdr_requires,
    ensures=[
        ('header-step-reads-only-its-own-block', header_reads_only_its_block),
        ('incomplete-header-consumes-nothing', lambda c: z3.Implies(
            z3.Length(c.old('_inpbuf')) < c.old('_recv_blocksize'),
            z3.And(z3.Not(c.result), c.new('_inpbuf') == c.old('_inpbuf'),
                   c.eq(c.newv('_recv_handler'), c.oldv('_recv_handler')),
                   c.new('_packet') == c.old('_packet'), c.new('_pktlen') == c.old('_pktlen')))),
        ('complete-header-consumes-exactly-one-block', lambda c: z3.Implies(
            z3.Length(c.old('_inpbuf')) >= c.old('_recv_blocksize'),
            z3.And(c.result,
                   c.new('_inpbuf') == z3.Extract(c.old('_inpbuf'), c.old('_recv_blocksize'),
                                                  z3.Length(c.old('_inpbuf')) - c.old('_recv_blocksize')),
                   c.eq(c.newv('_recv_handler'), VTag('method:SSHConnection._recv_packet')),
                   c.new('_pktlen') >= 0, c.new('_pktlen') < 2 ** 32))),
        ('plaintext-length-is-the-first-four-bytes', lambda c: z3.Implies(
            z3.And(c.is_none(c.oldv('_recv_encryption')),
                   z3.Length(c.old('_inpbuf')) >= c.old('_recv_blocksize')),
            c.new('_pktlen') == unbe(z3.Extract(z3.Extract(c.old('_inpbuf'), 0, c.old('_recv_blocksize')), 0, 4)))),
        # establishes the one fact about the staged block that _recv_packet requires (only without a cipher: with one
        # the staged block is whatever decrypt_header made of it and _recv_packet hands it on unread)
        ('plaintext-header-block-is-staged-whole', lambda c: z3.Implies(
            z3.And(c.result, c.is_none(c.oldv('_recv_encryption'))),
            z3.Length(c.new('_packet')) == c.old('_recv_blocksize'))),
    ],
    returns='bool')


def need(c):
    return 4 + c.old('_pktlen') + c.old('_recv_macsize') - c.old('_recv_blocksize')


def packet_reads_only_its_bytes(c):
    """(ii) the step is a function of (state, the `need` bytes it consumes): body and MAC handed to the cipher are
    slices of exactly those bytes - never of whatever else happens to be buffered behind them - and the payload that
    reaches a handler is derived from the staged header block and those bytes only"""
    buf, rem, msz = c.old('_inpbuf'), need(c), c.old('_recv_macsize')
    dec = [x for x in c.calls() if x['key'].endswith('decrypt_packet')]
    conj = []
    if dec:
        a = dec[0]['args']
        conj += [z3.BoolVal(len(dec) == 1), a[0].z == c.old('_recv_seq'), a[1].z == c.old('_packet'),
                 a[2].z == z3.Extract(buf, 0, rem - msz), a[3].z == 4, a[4].z == z3.Extract(buf, rem - msz, msz)]
    for _n, ev in c.events('process_packet'):
        packet = ev[-1]
        payload = c.new_state.rec(packet).fields['_packet']
        comp = [x for x in c.calls() if x['key'].endswith('.decompress')]
        src = comp[0]['args'][0] if comp else payload
        if comp:
            conj.append(to_z3(payload, 'bytes') == comp[0]['ret'].val.z)
        if dec:
            plain = dec[0]['ret'].val.z
        else:
            plain = z3.Concat(z3.Extract(c.old('_packet'), 4, z3.Length(c.old('_packet')) - 4),
                              z3.Extract(buf, 0, rem - msz))
        padlen = plain[0]
        # RFC 4253 6: payload = packet[1 : len - padding_length] (padding_length 0 is malformed; Python's [1:-0])
        conj.append(z3.If(padlen == 0, z3.Length(to_z3(src, 'bytes')) == 0,
                          to_z3(src, 'bytes') == z3.Extract(plain, 1, z3.Length(plain) - padlen - 1)))
    return z3.And(conj) if conj else z3.BoolVal(True)


def payload_decompressed_iff_in_effect(c):
    """receiving half of the compression rule: the payload handed to the dispatcher is decompress(payload field) iff
    compression is in effect for the RECEIVING direction at this moment (a (de)compressor is installed for it and, for
    delayed zlib@openssh.com, authentication has completed), else the payload field itself
    (`packet-step-reads-only-its-own-bytes` ties what is dispatched to the decompressor's output / the field)"""
    comp = [x for x in c.calls() if x['key'].endswith('.decompress')]
    eff = compression_in_effect(c, '_decompressor', '_decompress_after_auth')
    conj = [z3.BoolVal(len(comp) <= 1)]
    if comp:
        conj.append(eff)
    elif c.events('process_packet'):
        conj.append(z3.Not(eff))
    return z3.And(conj)


def is_parked(v):
    """v (a value of _recv_handler) is a step that reports "not ready" whatever is buffered and touches nothing:
    the argument-less constant function False"""
    import ast
    if not (isinstance(v, VTag) and v.tag == 'lambda' and isinstance(v.payload, ast.Lambda)):
        return False
    a, body = v.payload.args, v.payload.body
    return not (a.args or a.posonlyargs or a.kwonlyargs or a.vararg or a.kwarg) and \
        isinstance(body, ast.Constant) and body.value is False


def partial_stub(cx):
    """functools.partial(f, *args, **kw): a callable that remembers f, args, kw"""
    return [Out(ret=VTag('partial', payload=(tuple(cx.args), dict(cx.kwargs))))]


partial_stub.modifies = ()


def pending_handler_parks_the_pump(c):
    """schedules: a message handler may hand back an awaitable (the handler is still RUNNING when _recv_packet
    returns).  Until it completes no further packet is decoded - the step reports "not ready", the installed step
    is one that consumes nothing - and its completion re-enters the receive machine through
    _finish_recv_packet(pkttype, seq, is_async=True) (under contract below), exactly once; the packet is not also
    finished synchronously (its sequence number would be counted twice).  A handler that is done when it returns is
    finished synchronously and leaves the pump armed with whatever _finish_recv_packet installs (the header step)."""
    pp = [x for x in c.calls() if x['key'].endswith('process_packet') and x['exc'] is None]
    if not pp or not isinstance(pp[0]['ret'], VOpaque):
        return z3.BoolVal(True)
    r = pp[0]['ret']
    pending = z3.Function('isawaitable_' + r.sortname, r.z.sort(), BoolS)(r.z)
    h = c.newv('_recv_handler')
    cbs = c.events('done_callback')
    fins = c.calls('_finish_recv_packet')
    ok_cb = False
    if len(cbs) == 1 and len(cbs[0][1]) == 1 and isinstance(cbs[0][1][0], VTag) and cbs[0][1][0].tag == 'partial':
        pa, pk = cbs[0][1][0].payload
        tasks = c.calls('create_task')
        ok_cb = len(pa) == 3 and isinstance(pa[0], VTag) and pa[0].tag == 'method:SSHConnection._finish_recv_packet' \
            and set(pk) == {'is_async'} and concrete_bool(c.truthy(pk['is_async'])) is True \
            and len(tasks) == 1 and tasks[0]['args'][0] is r
    conj = [z3.Implies(pending, z3.BoolVal(c.raised is None and is_parked(h) and ok_cb and not fins)),
            z3.Implies(z3.Not(pending), z3.BoolVal(not is_parked(h) and not cbs))]
    if c.raised is None:
        conj.append(z3.Implies(pending, z3.Not(c.result)))
    if ok_cb:
        pa = cbs[0][1][0].payload[0]
        # the completion is reported for THIS packet: its type (first payload byte) and the sequence number it had
        conj.append(z3.Implies(pending, z3.And(c.ex.as_int(pa[1]) == pp[0]['args'][0].z,
                                               c.ex.as_int(pa[2]) == c.old('_recv_seq'))))
    return z3.And(conj)


RP_FIELDS = dict(CONN_FIELDS, ghost_rs='opaque:RecvState', ghost_out='seq[bytes]', ghost_failed='bool')

recv_packet_framing = Spec(
    'C02', 'connection', 'SSHConnection._recv_packet', self_class='SSHConnection',
    classes=dict(CONN_CLASSES, SSHConnection=RP_FIELDS, **PACKET_CLASSES), inline=dict(PACKET_INLINE),
    truthy=PACKET_TRUTHY,
    stubs={
        'self._recv_encryption.decrypt_packet': ret('opt[bytes]', 'decrypted'),
        'self._decompressor.decompress': ret('opt[bytes]', 'decompressed'),
        '*.log_received_packet': noop(),
        '*.process_packet': may_raise(ret('any', 'handler_result', event='process_packet'),
                                      'PacketDecodeError', 'ProtocolError'),
        'self.create_task': ret('obj:Task', 'task'),
        'task.add_done_callback': noop('done_callback'),
        'functools.partial': partial_stub,
        # send_packet(MSG_UNIMPLEMENTED, ...): its signals clause as verified above / under C11
        'self.send_packet': may_raise(noop('send_packet'), 'ProtocolError', 'CompressionError'),
        # the synchronous completion: C02's own verified contract (below), ProtocolError on sequence rollover included
        'self._finish_recv_packet': contract_stub(lambda: finish_recv_packet),
    },
    requires=lambda c: z3.And(c.old('_pktlen') >= 0, c.old('_recv_macsize') >= 0, c.old('_recv_blocksize') >= 8,
                              c.old('_recv_seq') >= 0, c.old('_recv_seq') < 2 ** 32,
                              # established by _recv_pkthdr (`plaintext-header-block-is-staged-whole`); with a cipher
                              # the staged block is only handed on to decrypt_packet
                              z3.Implies(c.is_none(c.oldv('_recv_encryption')),
                                         z3.Length(c.old('_packet')) == c.old('_recv_blocksize')),
                              need(c) >= c.old('_recv_macsize')),
    always=[
        ('incomplete-packet-consumes-nothing', lambda c: z3.Implies(
            z3.Length(c.old('_inpbuf')) < need(c),
            z3.And(z3.BoolVal(c.raised is None), c.new('_inpbuf') == c.old('_inpbuf'),
                   c.new('_packet') == c.old('_packet'),
                   z3.BoolVal(len(c.events('process_packet')) == 0)))),
        ('complete-packet-consumes-exactly-its-bytes', lambda c: z3.Implies(
            z3.And(z3.Length(c.old('_inpbuf')) >= need(c), z3.BoolVal(c.raised is None)),
            c.new('_inpbuf') == z3.Extract(c.old('_inpbuf'), need(c), z3.Length(c.old('_inpbuf')) - need(c)))),
        ('payload-delivered-at-most-once', lambda c: z3.BoolVal(len(c.events('process_packet')) <= 1)),
        ('packet-step-reads-only-its-own-bytes', packet_reads_only_its_bytes),
        ('payload-decompressed-iff-compression-is-in-effect-for-the-receiving-direction',
         payload_decompressed_iff_in_effect),
        ('pending-handler-parks-the-pump-and-its-completion-re-enters-it', pending_handler_parks_the_pump),
    ],
    raises={'MACError': True, 'CompressionError': True, 'ProtocolError': True, 'PacketDecodeError': True},
    returns='bool')


# ------------------------------------------------------------------ segmentation: the composition argument
# Abstract receive machine.  A receive state s (everything but the input buffer: handler, keys, counters, staged
# header ...) and a buffer x determine whether a step is READY; a ready step consumes one UNIT u = x[:need(s, x)] and
# moves to next(s, u), handing emit(s, u) (zero or one payload) to the dispatcher:
#   (i)  not ready(s, x): the step returns False and changes nothing                       [no partial consumption]
#   (ii) ready(s, x): 1 <= need(s, x) <= |x|; bytes behind the unit are irrelevant: ready(s, x ++ e) and
#        need(s, x ++ e) == need(s, x) for every e; the successor state and what is delivered are functions of
#        (s, u) only                                                                   [exactly its own bytes]
# Instances (each proved on the real handler, clauses named below):
#   _recv_version  ready = an LF among the first 8192 buffered bytes, need = its index + 1
#                  (`line-consumed-exactly` / `no-line-consumes-nothing`; the line recorded is the unit, C03)
#   _recv_pkthdr   ready = |x| >= _recv_blocksize, need = _recv_blocksize
#                  (`incomplete-header-consumes-nothing`, `complete-header-consumes-exactly-one-block`,
#                   `header-step-reads-only-its-own-block`)
#   _recv_packet   ready = |x| >= rem, need = rem = 4 + _pktlen + _recv_macsize - _recv_blocksize
#                  (`incomplete-packet-consumes-nothing`, `complete-packet-consumes-exactly-its-bytes`,
#                   `packet-step-reads-only-its-own-bytes`, `payload-delivered-at-most-once`)
# drain(s, x) = the result of running ready steps until none is ready - defined by well-founded recursion on |x|
# (need >= 1), represented by three uninterpreted functions used through definitional instances only.
#   _recv_data      proved: on an error-free run the pump computes drain(state, buffer)      (loop invariant)
#   data_received   proved: the chunk is APPENDED and the pump run once: state' = drain(s, buf ++ data)
#   lemma (extra_checks, induction on the number of steps, step case solver-checked):
#                   drain(s, a ++ b) == drain(drain_state(s, a), drain_rest(s, a) ++ b), outputs concatenated
# Hence data_received(a); data_received(b) and data_received(a ++ b) reach the same state and hand on the same
# payload sequence, for every split: each payload exactly once, in order.
RecvState = sort_of('opaque:RecvState')
PayloadsS = z3.SeqSort(BytesS)
step_ready = z3.Function('step_ready', RecvState, BytesS, BoolS)
step_need = z3.Function('step_need', RecvState, BytesS, IntS)
step_next = z3.Function('step_next', RecvState, BytesS, RecvState)
step_emit = z3.Function('step_emit', RecvState, BytesS, PayloadsS)
drain_state = z3.Function('drain_state', RecvState, BytesS, RecvState)
drain_rest = z3.Function('drain_rest', RecvState, BytesS, BytesS)
drain_out = z3.Function('drain_out', RecvState, BytesS, PayloadsS)


def _unit(s, x):
    return z3.Extract(x, 0, step_need(s, x))


def _after(s, x):
    return z3.Extract(x, step_need(s, x), z3.Length(x) - step_need(s, x))


def drain_def(s, x):
    """definitional instance of drain at (s, x)"""
    r, s2, x2 = step_ready(s, x), step_next(s, _unit(s, x)), _after(s, x)
    return [drain_state(s, x) == z3.If(r, drain_state(s2, x2), s),
            drain_rest(s, x) == z3.If(r, drain_rest(s2, x2), x),
            drain_out(s, x) == z3.If(r, z3.Concat(step_emit(s, _unit(s, x)), drain_out(s2, x2)), z3.Empty(PayloadsS))]


def step_contract(s, x, e=None):
    """(ii) for the buffer x (and the extension e)"""
    n = step_need(s, x)
    conj = [n >= 1, n <= z3.Length(x)]
    if e is not None:
        conj += [step_ready(s, z3.Concat(x, e)), step_need(s, z3.Concat(x, e)) == n]
    return z3.Implies(step_ready(s, x), z3.And(conj))


def abstract_step_stub(cx):
    """self._recv_handler(): the abstract step contract (i)/(ii) over the ghost receive state.  Besides, a handler may
    end the connection (returning False after _force_close, or raising): the ghost flag records it, nothing is
    claimed about such a run (C10 / C01: a closed connection delivers nothing more)"""
    s, x, out = cx.selff('ghost_rs').z, cx.selff('_inpbuf').z, cx.selff('ghost_out').z
    r, u = step_ready(s, x), _unit(s, x)
    took = Out(ret=VBool(z3.BoolVal(True)),
               sets={'ghost_rs': VOpaque(step_next(s, u), 'RecvState'), '_inpbuf': VBytes(_after(s, x)),
                     'ghost_out': VSeq(z3.Concat(out, step_emit(s, u)), 'bytes')},
               assume=[r, step_contract(s, x)], event=('step', ()))
    waits = Out(ret=VBool(z3.BoolVal(False)), assume=[z3.Not(r)], event=('wait', ()))

    def dead():
        return {'ghost_failed': VBool(z3.BoolVal(True)), '_inpbuf': cx.fresh('bytes', 'buf_after_error'),
                'ghost_rs': cx.fresh('opaque:RecvState', 'state_after_error')}
    code = cx.fresh('int', 'disc_code')
    disc = VExc('DisconnectError', attrs={'code': code, 'reason': cx.fresh('str', 'disc_reason'),
                                          'lang': cx.fresh('str', 'disc_lang')})
    return [took, waits, Out(ret=VBool(z3.BoolVal(False)), sets=dead(), event=('fatal', ())),
            Out(exc=disc, sets=dead(), event=('fatal', ())), Out(exc=VExc('Exception'), sets=dead(), event=('fatal', ()))]


abstract_step_stub.modifies = ('ghost_rs', '_inpbuf', 'ghost_out', 'ghost_failed')

PUMP_FIELDS = {'_inpbuf': 'bytes', '_recv_handler': 'tag', 'ghost_rs': 'opaque:RecvState',
               'ghost_out': 'seq[bytes]', 'ghost_failed': 'bool'}


def pump_inv(c):
    s0, x0, o0 = c.at_entry('ghost_rs'), c.at_entry('_inpbuf'), c.at_entry('ghost_out')
    s, x, o = c.new('ghost_rs'), c.new('_inpbuf'), c.new('ghost_out')
    return z3.Or(c.new('ghost_failed'),
                 z3.And(drain_state(s0, x0) == drain_state(s, x), drain_rest(s0, x0) == drain_rest(s, x),
                        z3.Concat(o0, drain_out(s0, x0)) == z3.Concat(o, drain_out(s, x))))


def drained(c, s0, x0):
    """the state after the call is drain(s0, x0); what was handed on is the old output followed by drain_out"""
    return z3.Or(c.new('ghost_failed'),
                 z3.And(c.new('ghost_rs') == drain_state(s0, x0), c.new('_inpbuf') == drain_rest(s0, x0),
                        c.new('ghost_out') == z3.Concat(c.old('ghost_out'), drain_out(s0, x0))))


recv_data = Spec(
    'C02', 'connection', 'SSHConnection._recv_data', self_class='SSHConnection',
    classes={'SSHConnection': PUMP_FIELDS},
    stubs={'self._reset_keepalive_timer': noop(), 'self._recv_handler': abstract_step_stub,
           'self._send_disconnect': noop('closed'), 'self._force_close': noop('closed'),
           'self.internal_error': noop('closed')},
    loops={1: LoopSpec(header='self._inpbuf and self._recv_handler()',
                       modifies=['_inpbuf', 'ghost_rs', 'ghost_out', 'ghost_failed'],
                       invariant=pump_inv,
                       lemmas=lambda c: drain_def(c.new('ghost_rs'), c.new('_inpbuf')))},
    modifies=['_inpbuf', 'ghost_rs', 'ghost_out', 'ghost_failed'],
    requires=lambda c: z3.Not(c.old('ghost_failed')),
    lemmas=lambda c: drain_def(c.new('ghost_rs'), c.new('_inpbuf')) + [step_contract(c.new('ghost_rs'),
                                                                                     c.new('_inpbuf'))],
    ensures=[('pump-runs-every-ready-step-in-order-and-stops-only-when-none-is-ready',
              lambda c: drained(c, c.old('ghost_rs'), c.old('_inpbuf')))],
    raises={})

data_received = Spec(
    'C02', 'connection', 'SSHConnection.data_received', self_class='SSHConnection',
    params=dict(data='bytes', datatype='none'), classes={'SSHConnection': PUMP_FIELDS},
    stubs={'self._recv_data': contract_stub(lambda: recv_data)},
    requires=lambda c: z3.Not(c.old('ghost_failed')),
    ensures=[('chunk-is-appended-then-drained',
              lambda c: drained(c, c.old('ghost_rs'), z3.Concat(c.old('_inpbuf'), c.arg('data'))))],
    raises={})


# ------------------------------------------------------------------ schedules: completion of a pending handler
# While a handler task is pending the pump is parked (`pending-handler-parks-the-pump...` on _recv_packet): chunks that
# arrive are appended by data_received and the parked step consumes nothing, so they wait in _inpbuf.  When the task
# completes, asyncio calls _finish_recv_packet(pkttype, seq, task, is_async=True).  In the abstract machine the
# connection's ghost state ghost_rs is the state the machine resumes in (the successor of the asynchronously handled
# packet); the completion has to make the concrete pump continue from there: re-arm the header step and run the pump on
# what is buffered - otherwise packets that were coalesced behind the asynchronously handled one are delivered only when
# (and if) further bytes arrive: the outcome would depend on how the byte stream was split.
def fin_async(c):
    if 'is_async' in c.args or 'is_async' in c.old_state.env:
        return c.arg('is_async')
    return z3.BoolVal(False)


def repump_stub(cx):
    """self._recv_data() inside _finish_recv_packet = the VERIFIED pump contract (`recv_data` above: the state after
    the call is drain(state, buffer)); it may be entered only with the header step armed (the parked step would make
    the pump a no-op); the concrete receive fields the real pump writes besides the buffer are havocked"""
    cx.require('pump-re-entered-with-the-header-step-armed',
               cx.ex.veq(cx.st, cx.selff('_recv_handler'), VTag('method:SSHConnection._recv_pkthdr')))
    snap = (cx.selff('_inpbuf'),)
    outs = contract_stub(lambda: recv_data)(cx)
    decl = cx.ex.spec.classes[cx.st.rec(cx.ex.self_ref).cls]
    for o in outs:
        for f in FIN_PUMP_WRITES:
            if f not in o.sets:
                o.sets[f] = cx.fresh(decl[f], 'after_pump' + f)
        o.event = ('repump', snap)
    return outs


repump_stub.modifies = ()
repump_stub.spec_getter = lambda: recv_data
FIN_PUMP_WRITES = ('_recv_handler', '_recv_seq', '_packet', '_pktlen', '_recv_blocksize', '_recv_macsize', '_auth_final',
                   '_send_seq')
FIN_FIELDS = dict(CONN_FIELDS, ghost_rs='opaque:RecvState', ghost_out='seq[bytes]', ghost_failed='bool')


def fin_rollover(c):
    return z3.And(z3.Not(c.is_none(c.oldv('_transport'))), c.old('_recv_seq') == 0xffffffff,
                  c.is_none(c.oldv('_recv_encryption')))


def completion_drains_what_is_buffered(c):
    """after the completion of a pending handler everything that was buffered meanwhile has been run through the
    receive machine: state, rest and delivered payloads are drain(resume state, buffered bytes) - the same result as if
    the bytes had arrived after the completion"""
    closed = z3.BoolVal(len(c.events('closed')) > 0)
    return z3.Implies(z3.And(fin_async(c), z3.Not(closed)),
                      drained(c, c.old('ghost_rs'), c.old('_inpbuf')))


def completion_repumps_once(c):
    """the same sentence at the call: a completion that finds bytes buffered runs the pump exactly once, on exactly those
    bytes (a synchronous completion never does: the pump that called _recv_packet is still running)"""
    ev = c.events('repump')
    closed = len(c.events('closed')) > 0
    if closed:
        return z3.BoolVal(not ev)
    return z3.And(z3.Implies(z3.Not(fin_async(c)), z3.BoolVal(not ev)),
                  z3.Implies(z3.And(fin_async(c), z3.Length(c.old('_inpbuf')) > 0),
                             z3.And(z3.BoolVal(len(ev) == 1), *[e[1][0].z == c.old('_inpbuf') for e in ev])))


finish_recv_packet = Spec(
    'C02', 'connection', 'SSHConnection._finish_recv_packet', self_class='SSHConnection',
    params=dict(pkttype='int', seq='int', _task='none', is_async='bool'),
    classes=dict(CONN_CLASSES, SSHConnection=FIN_FIELDS),
    stubs={'self._recv_data': repump_stub, 'self._send_disconnect': noop('closed'), 'self._force_close': noop('closed')},
    # misc.ProtocolError.__init__(reason, lang=DEFAULT_LANG) -> DisconnectError(DISC_PROTOCOL_ERROR = 2, reason, lang)
    exc_attrs={'ProtocolError': lambda args, kw: {'code': VInt(2), 'reason': args[0], 'lang': VStr('en-US')}},
    modifies=['_auth_final', '_recv_seq', '_recv_handler', '_inpbuf', 'ghost_rs', 'ghost_out', 'ghost_failed', '_packet',
              '_pktlen', '_recv_blocksize', '_recv_macsize', '_send_seq'],
    requires=lambda c: z3.And(c.arg('seq') >= 0, c.arg('seq') < 2 ** 32, c.old('_recv_seq') >= 0,
                              c.old('_recv_seq') < 2 ** 32,
                              # (the abstract machine makes no claim about a run that has already failed)
                              z3.Implies(fin_async(c), z3.Not(c.old('ghost_failed')))),
    lemmas=lambda c: drain_def(c.old('ghost_rs'), c.old('_inpbuf')) + [step_contract(c.old('ghost_rs'),
                                                                                      c.old('_inpbuf'))],
    ensures=[
        ('completion-of-a-pending-handler-drains-what-was-buffered-meanwhile', completion_drains_what_is_buffered),
        ('completion-re-enters-the-pump-exactly-once-on-the-buffered-bytes', completion_repumps_once),
        # log-free clauses (what _recv_packet relies on for the synchronous call)
        ('synchronous-completion-arms-the-header-step', lambda c: z3.Or(fin_async(c), c.eq(
            c.newv('_recv_handler'), VTag('method:SSHConnection._recv_pkthdr')))),
        # RFC 4253 6.4: the receive counter is the number of packets received, mod 2^32; OpenSSH PROTOCOL 1.10
        # (strict kex): it restarts at 0 after NEWKEYS
        ('receive-counter-counts-this-packet-once', lambda c: z3.Or(
            fin_async(c), c.is_none(c.oldv('_transport')),
            c.new('_recv_seq') == z3.If(z3.And(c.arg('pkttype') == 21, c.old('_strict_kex')), 0,
                                        (c.arg('seq') + 1) % 2 ** 32))),
    ],
    always=[('synchronous-completion-leaves-buffer-and-staging-alone', lambda c: z3.Or(fin_async(c), z3.And(
        [c.new('_inpbuf') == c.old('_inpbuf'), c.new('ghost_rs') == c.old('ghost_rs'),
         c.new('ghost_out') == c.old('ghost_out'), c.new('ghost_failed') == c.old('ghost_failed')] +
        [c.eq(c.newv(f), c.oldv(f)) for f in ('_packet', '_pktlen', '_recv_blocksize', '_recv_macsize',
                                              '_send_seq')])))],
    # as a task done-callback nothing could catch the error: only the synchronous call may raise it
    raises={'ProtocolError': lambda c: z3.And(z3.Not(fin_async(c)), fin_rollover(c))})


def segmentation_lemma():
    """drain(s, a ++ b) == drain(drain_state(s, a), drain_rest(s, a) ++ b) with outputs concatenated.
    Induction on the number of ready steps in a (well-founded: need >= 1 shortens the buffer).  Base (no step ready
    on a): drain(s, a) = (s, a, []) by definition, both sides are the same term.  Step: checked below from the
    definitional instances at (s, a), (s, a ++ b), the step contract (ii) for (s, a) with extension b and the
    induction hypothesis for (next(s, u), a[n:], b)."""
    from pyvc import solve
    s = z3.Const('lemma_s', RecvState)
    a, b = z3.Consts('lemma_a lemma_b', BytesS)
    ab = z3.Concat(a, b)

    def goal(s_, a_, b_):
        s1, r1 = drain_state(s_, a_), z3.Concat(drain_rest(s_, a_), b_)
        ab_ = z3.Concat(a_, b_)
        return z3.And(drain_state(s_, ab_) == drain_state(s1, r1), drain_rest(s_, ab_) == drain_rest(s1, r1),
                      drain_out(s_, ab_) == z3.Concat(drain_out(s_, a_), drain_out(s1, r1)))
    hyp = drain_def(s, a) + drain_def(s, ab) + [step_contract(s, a, b)]
    ih = z3.Implies(step_ready(s, a), goal(step_next(s, _unit(s, a)), _after(s, a), b))
    out = []
    for name, pc, g in (
            ('C02.lemma#segmentation(base: no ready step in a)', hyp + [z3.Not(step_ready(s, a))], goal(s, a, b)),
            ('C02.lemma#segmentation(step: one ready step then the induction hypothesis)',
             hyp + [step_ready(s, a), ih], goal(s, a, b))):
        smt2 = solve.to_smt2(pc, g)
        v, why = solve._z3_try(smt2, 5000)
        backend = 'z3'
        if v == 'unknown':
            v, why = solve._cvc5(smt2)
            backend = 'cvc5'
        # the hypotheses must be satisfiable (a vacuous lemma proves nothing)
        chk = z3.Solver()
        chk.set('timeout', 5000)
        chk.add(*pc)
        if v == 'proved' and chk.check() != z3.sat:
            v, why = 'unknown', 'hypotheses not shown satisfiable'
        out.append({'name': name, 'verdict': v, 'reason': why, 'backend': backend, 'replayed': True})
    return out


# ------------------------------------------------------------------ _recv_version as a step of that machine
_LF, _CR = z3.Unit(z3.IntVal(10)), z3.Unit(z3.IntVal(13))
_LINE_LIMIT = z3.Int('MAX_BANNER_LINE_LEN')


def _window(c):
    """the bytes bytes.find(b'\\n', 0, limit) looks at"""
    buf = c.old('_inpbuf')
    return z3.If(z3.Length(buf) <= _LINE_LIMIT, buf, z3.Extract(buf, 0, _LINE_LIMIT))


def version_no_line(c):
    """(i) no LF among the first 8192 buffered bytes: nothing is consumed, the step reports "not ready" """
    if c.raised is not None:
        return z3.BoolVal(True)
    return z3.Implies(z3.Not(z3.Contains(_window(c), _LF)),
                      z3.And(z3.Not(c.result), c.new('_inpbuf') == c.old('_inpbuf'),
                             c.eq(c.newv('_recv_handler'), c.oldv('_recv_handler')),
                             c.new('_client_version') == c.old('_client_version'),
                             c.new('_server_version') == c.old('_server_version'),
                             z3.BoolVal(len(c.events('send_kexinit')) == 0)))


def version_line_consumed(c):
    """(ii) otherwise exactly the first line and its LF are consumed - whatever follows stays, untouched"""
    old, new = c.old('_inpbuf'), c.new('_inpbuf')
    line = z3.Extract(old, 0, z3.Length(old) - z3.Length(new) - 1)
    return z3.Implies(z3.Contains(_window(c), _LF),
                      z3.And(z3.Length(new) < z3.Length(old), old == z3.Concat(line, _LF, new),
                             z3.Not(z3.Contains(line, _LF))))


recv_version = Spec(
    'C02', 'connection', 'SSHConnection._recv_version', self_class='SSHConnection',
    classes={'SSHConnection': {'_is_client': 'bool', '_inpbuf': 'bytes', '_client_version': 'bytes',
                               '_server_version': 'bytes', '_kexinit_sent': 'bool', '_recv_handler': 'tag',
                               '_banner_lines': 'int'}},
    stubs=dict(ROLE_STUBS, **{'self._force_close': noop('force_close'), 'self.set_extra_info': noop(),
                              'self._send_kexinit': noop('send_kexinit')}),
    tags=['find-qf', 'lit-slice'],     # quantifier-free model of bytes.find, x[:-1] -> len(x)-1 (solver help only)
    # as under C03: the limits are generalised to arbitrary positive values (replays patch the module constants)
    globals={'_MAX_BANNER_LINE_LEN': VInt(_LINE_LIMIT),
             '_MAX_VERSION_LINE_LEN': VInt(z3.Int('MAX_VERSION_LINE_LEN')),
             '_MAX_BANNER_LINES': VInt(z3.Int('MAX_BANNER_LINES'))},
    requires=lambda c: z3.And(_LINE_LIMIT >= 1, z3.Int('MAX_VERSION_LINE_LEN') >= 1, z3.Int('MAX_BANNER_LINES') >= 1),
    always=[('no-line-consumes-nothing', version_no_line), ('line-consumed-exactly', version_line_consumed)],
    raises={'UnicodeDecodeError': True}, returns='bool')
recv_version.patch_globals = ['_MAX_BANNER_LINE_LEN', '_MAX_VERSION_LINE_LEN', '_MAX_BANNER_LINES']
recv_version.feasible_timeout_ms = 150
recv_version.cvc5_first = True
recv_version.model_timeout_ms = 2500
recv_version.lazy_byte_ranges = True


# ------------------------------------------------------------------ cipher table is data: block sizes
def extra_checks(tier, seed):
    """The finite case split {8, 16} of the send block size rests on the registered cipher table (read as data);
    the segmentation lemma (see above)."""
    import ast
    from pyvc import extract
    mod = extract.get_module('crypto.cipher')
    sizes = set()
    for node in ast.walk(mod.tree):
        if isinstance(node, ast.Assign) and any(isinstance(t, ast.Name) and t.id == '_cipher_alg_list'
                                                for t in node.targets):
            for elt in node.value.elts:
                sizes.add(ast.literal_eval(elt.elts[-1]))
    ok = bool(sizes) and sizes <= {1, 8, 16}
    return {'lemmas': [{'name': 'C02.crypto.cipher._cipher_alg_list#block-sizes-in-{1,8,16}',
                        'verdict': 'proved' if ok else 'refuted', 'detail': sorted(sizes),
                        'backend': 'data (AST literal)', 'replayed': True}, suite_parameters_lemma()] +
            segmentation_lemma()}


# ------------------------------------------------------------------ send_newkeys: RFC 4253 7.2 letters / directions
kdf = z3.Function('kdf', BytesS, BytesS, BytesS, BytesS, IntS, BytesS)   # compute_key(k, h, letter, sid, size)

NK_FIELDS = dict(CONN_FIELDS, **{
    '_session_id': 'bytes', '_enc_alg_cs': 'bytes', '_enc_alg_sc': 'bytes', '_mac_alg_cs': 'bytes',
    '_mac_alg_sc': 'bytes', '_cmp_alg_cs': 'bytes', '_cmp_alg_sc': 'bytes',
    '_extensions_to_send': 'dict[bytes,bytes]', '_sig_algs': 'seq[bytes]', '_wait': 'opt[str]',
    '_waiter': 'opt[obj:Future]', '_can_send_ext_info': 'bool', '_next_service': 'opt[bytes]',
    '_next_recv_blocksize': 'int', '_next_recv_macsize': 'int', '_next_decompressor': 'opt[obj:Decompressor]',
    '_next_decompress_after_auth': 'bool',
})
ENC_GHOST = {'ghost_alg': 'bytes', 'ghost_key': 'bytes', 'ghost_iv': 'bytes', 'ghost_macalg': 'bytes',
             'ghost_mackey': 'bytes', 'ghost_etm': 'bool'}


def compute_key_stub(cx):
    k, h, x, sid, n = cx.args
    return [Out(ret=VBytes(kdf(k.z, h.z, x.z, sid.z, n.z)), event=('compute_key', tuple(cx.args)))]


compute_key_stub.modifies = ()


def get_encryption_stub(cx):
    o = cx.fresh('obj:Encryption', 'enc')
    a = cx.args
    for f, v in zip(('ghost_alg', 'ghost_key', 'ghost_iv', 'ghost_macalg', 'ghost_mackey'), a[:5]):
        cx.st.set_field(o, f, v)
    cx.st.set_field(o, 'ghost_etm', VBool(cx.ex.truthy(cx.st, a[5])))
    return [Out(ret=o)]


get_encryption_stub.modifies = ()

enc_params = z3.Function('enc_param', BytesS, BytesS, IntS, IntS)        # (enc_alg, mac_alg, index) -> value
etm_param = z3.Function('etm_param', BytesS, BytesS, BoolS)


def enc_params_stub(cx):
    e, m = cx.args[0].z, cx.args[1].z
    vals = [VInt(enc_params(e, m, z3.IntVal(i))) for i in range(5)] + [VBool(etm_param(e, m))]
    return [Out(ret=VTuple(vals), assume=[v.z >= 0 for v in vals[:5]])]


enc_params_stub.modifies = ()


def letter(ch):
    return bytes_const(ch)


def newkeys_keys(c):
    """client->server keys use A (IV), C (cipher key), E (MAC key); server->client B, D, F; the client sends with
    the c->s set and receives with the s->c set, the server the other way round (RFC 4253 7.2)"""
    if c.raised is not None:
        return z3.BoolVal(True)
    st = c.new_state
    send = c.newv('_send_encryption')
    recv = c.newv('_next_recv_encryption')
    isc = c.old('_is_client')
    k, h = c.arg('k'), c.arg('h')
    sid = z3.If(z3.Length(c.old('_session_id')) > 0, c.old('_session_id'), h)
    conj = [z3.Not(c.is_none(send)), z3.Not(c.is_none(recv)), c.new('_session_id') == sid]
    send = send if isinstance(send, VOpt) else VOpt(z3.BoolVal(False), send)
    recv = recv if isinstance(recv, VOpt) else VOpt(z3.BoolVal(False), recv)
    if isinstance(send.val, VRef) and isinstance(recv.val, VRef):
        def g(ref, f):
            return st.rec(ref).fields[f].z

        def expect(ref, cs):
            e = c.old('_enc_alg_cs') if cs else c.old('_enc_alg_sc')
            m = c.old('_mac_alg_cs') if cs else c.old('_mac_alg_sc')
            L = (b'A', b'C', b'E') if cs else (b'B', b'D', b'F')
            return z3.And(g(ref, 'ghost_alg') == e, g(ref, 'ghost_macalg') == m,
                          g(ref, 'ghost_iv') == kdf(k, h, letter(L[0]), sid, enc_params(e, m, z3.IntVal(1))),
                          g(ref, 'ghost_key') == kdf(k, h, letter(L[1]), sid, enc_params(e, m, z3.IntVal(0))),
                          g(ref, 'ghost_mackey') == kdf(k, h, letter(L[2]), sid, enc_params(e, m, z3.IntVal(3))),
                          g(ref, 'ghost_etm') == etm_param(e, m))
        conj.append(z3.If(isc, z3.And(expect(send.val, True), expect(recv.val, False)),
                          z3.And(expect(send.val, False), expect(recv.val, True))))
    return z3.And(conj)


def newkeys_framing(c):
    """send side framing parameters follow the negotiated algorithm of the sending direction"""
    if c.raised is not None:
        return z3.BoolVal(True)
    isc = c.old('_is_client')
    e = z3.If(isc, c.old('_enc_alg_cs'), c.old('_enc_alg_sc'))
    m = z3.If(isc, c.old('_mac_alg_cs'), c.old('_mac_alg_sc'))
    bs = enc_params(e, m, z3.IntVal(2))
    return z3.And(c.new('_send_blocksize') == z3.If(bs > 8, bs, 8),
                  c.new('_send_enchdrlen') == z3.If(etm_param(e, m), 1, 5))


def newkeys_recv_framing(c):
    """the framing staged for the peer's NEWKEYS (block size, MAC / tag size) follows the negotiated algorithms of
    the RECEIVING direction: server->client on a client, client->server on a server"""
    if c.raised is not None:
        return z3.BoolVal(True)
    isc = c.old('_is_client')
    e = z3.If(isc, c.old('_enc_alg_sc'), c.old('_enc_alg_cs'))
    m = z3.If(isc, c.old('_mac_alg_sc'), c.old('_mac_alg_cs'))
    bs = enc_params(e, m, z3.IntVal(2))
    return z3.And(c.new('_next_recv_blocksize') == z3.If(bs > 8, bs, 8),
                  c.new('_next_recv_macsize') == enc_params(e, m, z3.IntVal(4)))


# ---- compression (RFC 4253 6.2; OpenSSH PROTOCOL: zlib@openssh.com = zlib that starts after authentication)
NONE_ALG = bytes_const(b'none')
cmp_delayed = z3.Function('cmp_delayed', BytesS, BoolS)     # the algorithm's compression starts only after authentication
CODEC_GHOST = {'ghost_alg': 'bytes'}


def _codec_stub(cls):
    """compression.get_compressor(alg) / get_decompressor(alg): None exactly for "none", otherwise a fresh codec object
    of that algorithm (ghost tag).  That the real table behaves so is the data lemma `suite-parameters` (native,
    exhaustive over the registered compression algorithms)."""
    def stub(cx):
        alg = cx.args[0]
        o = cx.fresh('obj:' + cls, cls.lower())
        cx.st.set_field(o, 'ghost_alg', alg)
        return [Out(ret=VOpt(alg.z == NONE_ALG, o))]
    stub.modifies = ()
    return stub


def compression_params_stub(cx):
    """compression.get_compression_params(alg) -> delayed flag of the algorithm (table: same data lemma)"""
    return [Out(ret=VBool(cmp_delayed(cx.args[0].z)))]


compression_params_stub.modifies = ()


def codec_for(c, v, alg):
    """the field value v is the codec of algorithm `alg`: None iff alg is "none", else an object tagged with alg"""
    st = c.new_state
    if v is VNone:
        return alg == NONE_ALG
    if isinstance(v, VRef):
        return z3.And(alg != NONE_ALG, st.rec(v).fields['ghost_alg'].z == alg)
    if isinstance(v, VOpt) and isinstance(v.val, VRef):
        return z3.And(v.isnone == (alg == NONE_ALG),
                      z3.Implies(z3.Not(v.isnone), st.rec(v.val).fields['ghost_alg'].z == alg))
    return z3.BoolVal(False)


def newkeys_compression(c):
    """compression is negotiated per direction (RFC 4253 7.1: compression_algorithms_client_to_server /
    _server_to_client): what this side SENDS is compressed with the algorithm of its sending direction (c->s on a
    client, s->c on a server), what it will RECEIVE after the peer's NEWKEYS with that of the other direction; the
    delayed-start flag travels with the algorithm"""
    if c.raised is not None:
        return z3.BoolVal(True)
    isc = c.old('_is_client')
    cs, sc = c.old('_cmp_alg_cs'), c.old('_cmp_alg_sc')
    snd, rcv = z3.If(isc, cs, sc), z3.If(isc, sc, cs)
    return z3.And(codec_for(c, c.newv('_compressor'), snd), c.new('_compress_after_auth') == cmp_delayed(snd),
                  codec_for(c, c.newv('_next_decompressor'), rcv),
                  c.new('_next_decompress_after_auth') == cmp_delayed(rcv))


NK_SNAPSHOT = ('_send_encryption', '_send_blocksize', '_send_enchdrlen', '_compressor', '_kex_complete')


def newkeys_send_stub(cx):
    """self.send_packet(...) inside send_newkeys; the ghost event snapshots the send-direction state at the call"""
    snap = tuple(cx.selff(f) for f in NK_SNAPSHOT)
    return [Out(ret=VNone, event=('send_packet', tuple(cx.args) + (snap,)))]


newkeys_send_stub.modifies = ()


def newkeys_order(c):
    """NEWKEYS goes out before the new send keys are installed and before _kex_complete is raised"""
    sends = [x for x in c.calls() if x['key'] == 'self.send_packet']
    ok = [z3.BoolVal(len(sends) >= 1)]
    if sends:
        ok.append(sends[0]['args'][0].z == 21)
        # RFC 4253 7.3: NEWKEYS "is sent with the old keys and algorithms": at the call nothing of the sending
        # direction has been switched yet and _kex_complete has not been raised
        snap = c.events('send_packet')[0][1][-1]
        for f, v in zip(NK_SNAPSHOT, snap):
            ok.append(c.eq(v, c.oldv(f)))
    if c.raised is None:
        ok.append(c.is_none(c.newv('_kex')))
    return z3.And(ok)


send_newkeys = Spec(
    'C02', 'connection', 'SSHConnection.send_newkeys', self_class='SSHConnection',
    params=dict(k='bytes', h='bytes'),
    classes=dict(CONN_CLASSES, SSHConnection=NK_FIELDS, Encryption=ENC_GHOST, Future={}, Compressor=CODEC_GHOST,
                 Decompressor=CODEC_GHOST),
    stubs=dict(ROLE_STUBS, **{
        'get_encryption_params': enc_params_stub,
        'get_compression_params': compression_params_stub,
        'self._kex.compute_key': compute_key_stub,
        'get_encryption': get_encryption_stub,
        'get_compressor': _codec_stub('Compressor'),
        'get_decompressor': _codec_stub('Decompressor'),
        'self.send_packet': newkeys_send_stub,
        'self.set_extra_info': noop(),
        'self._waiter.cancelled': ret('bool', 'cancelled'),
        'self._waiter.set_result': noop('waiter_set'),
        'self._send_ext_info': noop('ext_info'),
        'self.send_service_request': noop('service_request'),
        'self._send_deferred_packets': noop('flush_deferred'),
    }),
    requires=lambda c: z3.And(z3.Not(c.is_none(c.oldv('_kex'))), z3.Length(c.arg('h')) > 0, cleartext_framing(c)),
    ensures=[('rfc4253-7.2-letters-and-directions', newkeys_keys),
             ('send-framing-follows-sending-direction', newkeys_framing),
             ('staged-receive-framing-follows-receiving-direction', newkeys_recv_framing),
             ('compression-follows-the-direction(send-installed,receive-staged,delayed-flag-of-that-algorithm)',
              newkeys_compression),
             ('kex-complete-after-newkeys', lambda c: z3.Or(
                 c.new('_kex_complete'),
                 # the early return for a connect() waiting only for the key exchange
                 z3.BoolVal(len(c.events('waiter_set')) == 1))),
             # "every payload sent is received": what send_packet queued during the exchange goes out once the new
             # keys are in place - exactly one flush, after NEWKEYS and after _kex_complete is raised
             ('deferred-packets-flushed-once-the-exchange-is-complete', lambda c: z3.Implies(
                 z3.BoolVal(len(c.events('waiter_set')) == 0), z3.BoolVal(
                     len(c.events('flush_deferred')) == 1 and
                     [e[0] for e in c.events() if e[0] in ('send_packet', 'flush_deferred')][-1] == 'flush_deferred')))],
    always=[('newkeys-first', newkeys_order),
            # writer side of the class invariant `cleartext_framing` (send_packet requires it)
            ('class-inv:no-cipher-means-initial-framing', lambda c: cleartext_framing(c, old=False))],
    raises={'UnicodeDecodeError': True, 'AssertionError': lambda c: z3.BoolVal(False)})
send_newkeys.model_timeout_ms = 2500    # per-path cross-check witness search budget (sampling only, not a proof step)
send_newkeys.confirm_attempts = 24      # 200 paths: cap the counter-model searches when a change refutes many of them


# ====================================================================== "under the negotiated algorithms"
# send_newkeys above says: keys, IVs, framing and compression follow enc_param(alg, mac, i) / etm_param / cmp_delayed of
# the negotiated algorithm of the right direction, and get_encryption(alg, key, iv, mac_alg, mac_key, etm) builds the
# cipher.  What those parameters ARE for each suite, and that the object built is the one the documents describe, is
# this section:
#   data lemma  C02.data#suite-parameters   every registered cipher x MAC (and compression algorithm) evaluated with the
#               real get_encryption_params / encryption_needs_mac / get_encryption / get_compressor ... and compared with
#               the table in specs/c02_suites.py, written from RFC 4253 / 4344 / 4345 / 5647 / 6668 and OpenSSH PROTOCOL*
#               (a DATA lemma: exhaustive over the finite registered tables, evaluated natively - not an SMT proof)
#   initial framing (SSHConnection.__init__), get_encryption, the three `new` constructors (etm dispatch),
#   ChachaCipher.__init__ (key halves), chacha20() (block counter), GCMCipher.__init__ (nonce), _process_newkeys (all
#   receive-side parameters switch together), packet.UInt32 / UInt64 (the wire encoders the clauses above talk about)
def suite_parameters_lemma():
    import json
    import os
    import subprocess
    from pyvc import extract
    name = 'C02.data#suite-parameters(cipher x MAC x compression tables == RFC 4253/4344/4345/5647/6668, OpenSSH PROTOCOL)'
    script = os.path.join(os.path.dirname(os.path.dirname(os.path.abspath(__file__))), 'specs', 'c02_suites.py')
    try:
        p = subprocess.run(['/venv/bin/python', script], capture_output=True, text=True,
                           env=dict(os.environ, PYTHONPATH=extract.REPO), timeout=180, cwd='/tmp')
        out = json.loads(p.stdout)
    except Exception as e:      # noqa      harness trouble is never a verdict
        return {'name': name, 'verdict': 'unknown', 'reason': repr(e), 'backend': 'data (native evaluation)'}
    ok = out['rows'] >= 1 and not out['bad']
    return {'name': name, 'verdict': 'proved' if ok else 'refuted', 'detail': {'rows': out['rows'], 'bad': out['bad'][:8]},
            'backend': 'data (native evaluation, exhaustive over the registered tables)', 'replayed': True}


# ---------------------------------------------------------------- initial framing (RFC 4253 6, 6.4, 4.2)
INIT_FIELDS = ('_inpbuf', '_packet', '_send_seq', '_send_encryption', '_send_enchdrlen', '_send_blocksize', '_compressor',
               '_compress_after_auth', '_recv_handler', '_recv_seq', '_recv_encryption', '_recv_blocksize',
               '_recv_macsize', '_decompressor', '_decompress_after_auth', '_next_recv_encryption')


def init_region(fn):
    """the statements of __init__ that write the transport-layer framing state (everything else in the constructor
    is configuration)"""
    import ast
    out = []
    for st_ in fn.body:
        tgts = st_.targets if isinstance(st_, ast.Assign) else [st_.target] if isinstance(st_, (ast.AnnAssign,
                                                                                            ast.AugAssign)) else []
        if any(isinstance(t, ast.Attribute) and isinstance(t.value, ast.Name) and t.value.id == 'self' and
               t.attr in INIT_FIELDS for t in tgts):
            out.append(st_)
    return out


def initial_state_is_rfc(c):
    """a connection starts with no cipher, no MAC, no compression in either direction ("none"), both sequence numbers
    at zero (RFC 4253 6.4), alignment unit 8 with the length field counted (RFC 4253 6), nothing buffered, and the
    version-line step armed (RFC 4253 4.2)"""
    none = lambda f: c.is_none(c.newv(f))       # noqa: E731
    return z3.And(none('_send_encryption'), none('_recv_encryption'), none('_next_recv_encryption'),
                  none('_compressor'), none('_decompressor'),
                  c.new('_send_seq') == 0, c.new('_recv_seq') == 0,
                  c.new('_send_enchdrlen') == 5, c.new('_send_blocksize') == 8,
                  c.new('_recv_blocksize') == 8, c.new('_recv_macsize') == 0,
                  z3.Length(c.new('_inpbuf')) == 0, z3.Length(c.new('_packet')) == 0,
                  c.eq(c.newv('_recv_handler'), VTag('method:SSHConnection._recv_version')),
                  cleartext_framing(c, old=False))


initial_framing = Spec(
    'C02', 'connection', 'SSHConnection.__init__', self_class='SSHConnection',
    params=dict(loop='any', options='any', acceptor='any', error_handler='any', wait='opt[str]', server='bool'),
    classes=CONN_CLASSES, region=init_region,
    ensures=[('initial-framing:no-cipher-no-mac-no-compression-seq-0-unit-8-length-counted', initial_state_is_rfc)],
    raises={})
initial_framing.no_replay = True        # a region of the constructor cannot be started natively


# ---------------------------------------------------------------- encryption.py: get_encryption and the constructors
def _ctor(cls, fields, event=None):
    """constructor / factory stub: a new object of class `cls` whose (ghost) fields record the arguments in order"""
    def stub(cx):
        o = cx.fresh('obj:' + cls, cls.lower())
        for f, v in zip(fields, cx.args):
            cx.st.set_field(o, f, v)
        return [Out(ret=o, event=(event or 'new:' + cls, tuple(cx.args)))]
    stub.modifies = ()
    return stub


CIPHER_GHOST = {'ghost_name': 'str', 'ghost_key': 'bytes', 'ghost_iv': 'bytes'}
NEW_PARAMS = dict(cls='any', cipher_name='str', key='bytes', iv='bytes', mac_alg='bytes', mac_key='bytes', etm='bool')
NEW_CLASSES = {'BasicEncryption': {'_cipher': 'obj:BasicCipher', '_mac': 'obj:MAC'},
               'ETMEncryption': {'_cipher': 'obj:BasicCipher', '_mac': 'obj:MAC'},
               'GCMEncryption': {'_cipher': 'obj:GCMCipher'}, 'ChachaEncryption': {'_cipher': 'obj:ChachaCipher'},
               'BasicCipher': CIPHER_GHOST, 'GCMCipher': CIPHER_GHOST, 'ChachaCipher': {'ghost_key': 'bytes'},
               'MAC': {'ghost_alg': 'bytes', 'ghost_key': 'bytes'}}


def _obj_fields(c, v):
    return c.new_state.rec(v).fields if isinstance(v, VRef) else None


def _cipher_is(c, enc, cls, name=True):
    """enc._cipher is an object of class cls built from exactly (cipher_name, key, iv) resp. (key)"""
    f = _obj_fields(c, enc)
    if f is None or not isinstance(f.get('_cipher'), VRef) or c.new_state.rec(f['_cipher']).cls != cls:
        return z3.BoolVal(False)
    g = c.new_state.rec(f['_cipher']).fields
    conj = [g['ghost_key'].z == c.arg('key')]
    if name:
        conj += [g['ghost_name'].z == c.arg('cipher_name'), g['ghost_iv'].z == c.arg('iv')]
    return z3.And(conj)


def basic_new_post(c):
    """OpenSSH PROTOCOL 1.6: a *-etm@openssh.com MAC turns the suite into encrypt-then-MAC (ETMEncryption: length in
    clear, MAC over the ciphertext, see `etm-encrypt-then-mac-...`); every other MAC is RFC 4253 MAC-then-encrypt.
    Cipher and MAC are built from the derived key / IV / MAC key they were given, unpermuted."""
    r = c.result_v
    f = _obj_fields(c, r)
    if f is None:
        return z3.BoolVal(False)
    cls = c.new_state.rec(r).cls
    mac = f.get('_mac')
    if not isinstance(mac, VRef):
        return z3.BoolVal(False)
    m = c.new_state.rec(mac).fields
    return z3.And(z3.If(c.arg('etm'), z3.BoolVal(cls == 'ETMEncryption'), z3.BoolVal(cls == 'BasicEncryption')),
                  _cipher_is(c, r, 'BasicCipher'), m['ghost_alg'].z == c.arg('mac_alg'),
                  m['ghost_key'].z == c.arg('mac_key'))


NEW_STUBS = {'BasicCipher': _ctor('BasicCipher', ('ghost_name', 'ghost_key', 'ghost_iv')),
             'GCMCipher': _ctor('GCMCipher', ('ghost_name', 'ghost_key', 'ghost_iv')),
             'ChachaCipher': _ctor('ChachaCipher', ('ghost_key',)),
             'get_mac': _ctor('MAC', ('ghost_alg', 'ghost_key')),
             'ETMEncryption': _ctor('ETMEncryption', ('_cipher', '_mac'))}

basic_new = Spec(
    'C02', 'encryption', 'BasicEncryption.new', params=NEW_PARAMS, classes=NEW_CLASSES,
    stubs=dict(NEW_STUBS, cls=_ctor('BasicEncryption', ('_cipher', '_mac'))),
    ensures=[('etm-mac-selects-encrypt-then-mac;cipher-and-mac-built-from-their-own-key-material', basic_new_post)],
    raises={})
gcm_new = Spec(
    'C02', 'encryption', 'GCMEncryption.new', params=NEW_PARAMS, classes=NEW_CLASSES,
    stubs=dict(NEW_STUBS, cls=_ctor('GCMEncryption', ('_cipher',))),
    ensures=[('rfc5647-cipher-built-from-key-and-nonce', lambda c: z3.And(
        z3.BoolVal(isinstance(c.result_v, VRef) and c.new_state.rec(c.result_v).cls == 'GCMEncryption'),
        _cipher_is(c, c.result_v, 'GCMCipher')))],
    raises={})
chacha_new = Spec(
    'C02', 'encryption', 'ChachaEncryption.new', params=NEW_PARAMS, classes=NEW_CLASSES,
    stubs=dict(NEW_STUBS, cls=_ctor('ChachaEncryption', ('_cipher',))),
    ensures=[('chacha20-poly1305-cipher-built-from-the-64-byte-key', lambda c: z3.And(
        z3.BoolVal(isinstance(c.result_v, VRef) and c.new_state.rec(c.result_v).cls == 'ChachaEncryption'),
        _cipher_is(c, c.result_v, 'ChachaCipher', name=False)))],
    raises={})
for _sp in (basic_new, gcm_new, chacha_new):
    _sp.no_replay = True        # classmethods returning library-backed objects: nothing to compare natively


def get_encryption_setup(ex, st):
    """_enc_params: the registration table {enc_alg: (Encryption class, cipher name)} (its CONTENT is the data lemma)"""
    st.env['_enc_params'] = ex.fresh(st, 'dict[bytes,tuple[any,str]]', 'enc_params')


def get_encryption_post(c):
    """the class registered for enc_alg builds the cipher, from the registered cipher name and exactly the key material
    handed in: (key, iv, mac_alg, mac_key, etm) in the order of Encryption.new"""
    calls = [x for x in c.calls() if x['key'].endswith('.new')]
    if len(calls) != 1:
        return z3.BoolVal(False)
    a = calls[0]['args']
    names = ('key', 'iv', 'mac_alg', 'mac_key')
    if len(a) != 6:
        return z3.BoolVal(False)
    return z3.And([a[i + 1].z == c.arg(n) for i, n in enumerate(names)] +
                  [c.truthy(a[5]) == c.arg('etm'), c.eq(c.result_v, calls[0]['ret'])])


get_encryption_spec = Spec(
    'C02', 'encryption', 'get_encryption',
    params=dict(enc_alg='bytes', key='bytes', iv='bytes', mac_alg='bytes', mac_key='bytes', etm='bool'),
    setup=get_encryption_setup, stubs={'encryption.new': ret('any', 'enc_obj')},
    ensures=[('key-material-reaches-the-registered-class-unpermuted', get_encryption_post)],
    raises={'KeyError': True})
get_encryption_spec.no_replay = True


# ---------------------------------------------------------------- crypto/chacha.py (OpenSSH PROTOCOL.chacha20poly1305)
# "The chacha20-poly1305@openssh.com cipher requires 512 bits of key material as output from the SSH key exchange.
#  This forms two 256 bit keys (K_1 and K_2) ... the first 256 bits constitute K_2 and the second 256 bits become K_1."
# K_1 encrypts only the packet length, K_2 the payload (block counter 1) and generates the Poly1305 key (block counter
# 0).  "The ChaCha20 block counter is ... LSB first", 64 bits; the nonce is the packet sequence number as uint64.
chacha_init = Spec(
    'C02', 'crypto.chacha', 'ChachaCipher.__init__', self_class='ChachaCipher', params=dict(key='bytes'),
    classes={'ChachaCipher': {'_key': 'bytes', '_adkey': 'bytes'}},
    # 64 bytes: `suite-parameters` (key size of the suite) + `rfc4253-7.2-expansion-truncated` (len == size asked for)
    requires=lambda c: z3.Length(c.arg('key')) == 64,
    ensures=[('K_2-main-key-is-the-first-256-bits;K_1-header-key-the-second', lambda c: z3.And(
        c.new('_key') == z3.Extract(c.arg('key'), 0, 32), c.new('_adkey') == z3.Extract(c.arg('key'), 32, 32)))],
    raises={})

CHA_CLASSES = {'ChaAlg': {'ghost_key': 'bytes', 'ghost_nonce': 'bytes'}, 'ChaCipher': {'ghost_alg': 'obj:ChaAlg'},
               'ChaCtx': {'ghost_alg': 'obj:ChaAlg'}}
chacha_lib = z3.Function('lib_chacha20_xor', BytesS, BytesS, BytesS, BytesS)   # cryptography ChaCha20(key, nonce16).update


def _cha_cipher(cx):
    o = cx.fresh('obj:ChaCipher', 'cipher')
    cx.st.set_field(o, 'ghost_alg', cx.args[0])
    return [Out(ret=o)]


def _cha_encryptor(cx):
    o = cx.fresh('obj:ChaCtx', 'ctx')
    cx.st.set_field(o, 'ghost_alg', cx.ex.get_field(cx.st, cx.recv, 'ghost_alg'))
    return [Out(ret=o)]


def _cha_update(cx):
    alg = cx.ex.get_field(cx.st, cx.recv, 'ghost_alg')
    g = cx.st.rec(alg).fields
    return [Out(ret=VBytes(chacha_lib(g['ghost_key'].z, g['ghost_nonce'].z, cx.args[0].z)),
                event=('chacha_update', (g['ghost_key'], g['ghost_nonce'], cx.args[0])))]


for _f in (_cha_cipher, _cha_encryptor, _cha_update):
    _f.modifies = ()


def chacha20_post(c):
    """library contract (cryptography): ChaCha20(key, nonce16) takes the 16-byte initial block words 12..15 = 64-bit
    block counter, little-endian, followed by the 64-bit nonce.  PROTOCOL.chacha20poly1305: counter LSB first."""
    ev = c.events('chacha_update')
    if len(ev) != 1:
        return z3.BoolVal(False)
    k, n16, d = ev[0][1]
    ctr_le64 = z3.If(c.arg('ctr') == 1, bytes_const((1).to_bytes(8, 'little')), bytes_const(bytes(8)))
    return z3.And(k.z == c.arg('key'), d.z == c.arg('data'), n16.z == z3.Concat(ctr_le64, c.arg('nonce')),
                  c.result == chacha_lib(c.arg('key'), z3.Concat(ctr_le64, c.arg('nonce')), c.arg('data')))


chacha20_spec = Spec(
    'C02', 'crypto.chacha', 'chacha20', params=dict(key='bytes', data='bytes', nonce='bytes', ctr='int'),
    classes=CHA_CLASSES,
    stubs={'ChaCha20': _ctor('ChaAlg', ('ghost_key', 'ghost_nonce')), 'Cipher': _cha_cipher,
           'ChaCipher.encryptor': _cha_encryptor, 'ChaCtx.update': _cha_update},
    requires=lambda c: z3.And(z3.Or(c.arg('ctr') == 0, c.arg('ctr') == 1), z3.Length(c.arg('nonce')) == 8),
    ensures=[('block-counter-is-64-bit-little-endian-followed-by-the-nonce', chacha20_post)],
    returns='bytes', raises={})
chacha20_spec.no_replay = True          # the library objects are stubbed by class: nothing to patch natively


# ---------------------------------------------------------------- crypto/cipher.py: GCMCipher.__init__ (RFC 5647 7.1)
def gcm_init_setup(ex, st):
    st.env['_cipher_algs'] = ex.fresh(st, 'dict[str,tuple[any,any,int]]', 'cipher_algs')


gcm_init = Spec(
    'C02', 'crypto.cipher', 'GCMCipher.__init__', self_class='GCMCipher',
    params=dict(cipher_name='str', key='bytes', iv='bytes'), classes={'GCMCipher': {'_iv': 'bytes', '_key': 'bytes',
                                                                                    '_cipher': 'any'}},
    setup=gcm_init_setup,
    # 12 bytes: `suite-parameters` (IV size of the two GCM suites) + `rfc4253-7.2-expansion-truncated`
    requires=lambda c: z3.Length(c.arg('iv')) == 12,
    ensures=[('initial-nonce-is-the-derived-IV(12 bytes: writer of the invariant _update_iv requires)',
              lambda c: z3.And(c.new('_iv') == c.arg('iv'), z3.Length(c.new('_iv')) == 12,
                               c.new('_key') == c.arg('key')))],
    raises={'KeyError': True})
gcm_init.no_replay = True


# ---------------------------------------------------------------- contracts proved under their home property, registered
# under C02 as well (same Spec object, property id C02): `./check C02` alone then notices a change there that breaks
# THIS property.  Cross-check samples are kept small: every path is cross-checked under the home property.
def _share(modname, attr, tag=None, limit=2):
    import copy
    import importlib
    try:
        sp = getattr(importlib.import_module('contracts.' + modname), attr, None)
    except Exception:       # noqa      (import cycle while another property's sidecar is being loaded)
        sp = None
    if sp is None:
        return None
    cp = copy.copy(sp)
    cp.prop = 'C02'
    if tag is not None:
        cp.tag = tag
    cp.crosscheck_limit = limit
    Spec.registry.append(cp)
    return cp


# C11: NEWKEYS received -> cipher, block size, MAC size, decompressor and its delayed flag ALL switch to the staged
# values of the receiving direction (what send_newkeys staged, see above), and the stage is cleared
shared_process_newkeys = _share('c11_kexinit', 'process_newkeys_c11')
# C15: packet.UInt32 / UInt64 are fixed-width big-endian (RFC 4251 5) - the encoders behind the length field, the
# chacha20-poly1305 nonce UInt64(seq) and the sequence number in the MAC input; the engine's built-in model of these
# two functions is thereby compared with their source under this property too
shared_uint32 = _share('c15', 'enc_uint32')
shared_uint64 = _share('c15', 'enc_uint64')
# C01: ChachaCipher.encrypt_and_sign - header under K_1 (_adkey) with block counter 0, payload under K_2 (_key) with
# block counter 1, tag over both ciphertexts under K_2's per-packet Poly1305 key (connects `chacha_init` to the wire)
shared_chacha_seal = _share('c01', 'chacha_encrypt_and_sign')
# C01: GCMCipher.encrypt_and_sign - one AEAD seal under the current nonce, AAD = the length field, nonce advanced once
shared_gcm_seal = _share('c01', 'gcm_encrypt_and_sign')
