"""C02 — emitted packets conform to RFC 4253 and survive any segmentation.  Sidecar contracts.

* send_packet: binary packet layout, padding, MAC over the pre-increment sequence number (spec: RFC 4253 6)
* Kex.compute_key: the RFC 4253 7.2 key expansion (inductive spec predicate `chain`)
* send_newkeys: letters A-F / direction table, session id written once
* GCMCipher._update_iv: RFC 5647 7.1 (only the 64-bit invocation counter moves, mod 2^64)
* receive framing: _recv_pkthdr / _recv_packet consume nothing unless the whole unit is buffered, and then
  exactly that unit (chunk independence of data_received)
"""
import z3
from pyvc.contracts import *
from pyvc.engine import LoopSpec, Out, Prove
from pyvc.values import *
from pyvc.builtins_model import be, unbe
from .common import *
from . import c11

ASSUMPTIONS = list(c11.ASSUMPTIONS) + [
    'hash objects are accumulators: digest() is an uninterpreted function H of the concatenation of the update() '
    'arguments, with len(H(.)) == digest_size > 0',
    'zlib stream framing is not verified',
    'cipher block sizes are {1, 8, 16} (read from the registered cipher table) so the send block size is 8 or 16',
]

# ------------------------------------------------------------------ send_packet: wire format
U32 = 2 ** 32


def encrypt_packet_stub(cx):
    """Encryption.encrypt_packet(seq, hdr, packet) -> (bytes, bytes) (the four implementations are under contract
    below); the ghost event also records the live value of _send_seq at the moment of the call"""
    r = cx.fresh('tuple[bytes,bytes]', 'encrypted')
    return [Out(ret=r, event=('encrypt_packet', tuple(cx.args) + (cx.selff('_send_seq'),)))]


encrypt_packet_stub.modifies = ()


def wire_stub(cx):
    """self._send(data): the bytes leave; the ghost event records the live value of _send_seq at that moment"""
    return [Out(ret=VNone, event=('wire', tuple(cx.args) + (cx.selff('_send_seq'),)))]


wire_stub.modifies = ()


def emission_seq(c):
    """the value of the connection's send counter when this packet was put on the wire"""
    w = c.events('wire')
    return w[0][1][-1].z if w else None


def mac_over_current_seq(c):
    """RFC 4253 6.4: the sequence number bound into the MAC / AEAD nonce of a packet is the sender's counter for THIS
    packet: the value _send_seq holds when the packet is emitted (before this packet's own increment)"""
    encs = c.events('encrypt_packet')
    if not encs:
        return z3.BoolVal(True)
    a = encs[0][1]
    live = a[-1].z
    return z3.And(z3.BoolVal(len(encs) == 1), a[0].z == live, live >= 0, live < U32,
                  # ... and the counter did not move between computing the tag and emitting the packet
                  emission_seq(c) == live)


def seq_rule(c):
    """every emitted packet - encrypted or not - advances the counter by exactly one mod 2^32; the one exception is
    RFC-extension strict kex (the Terrapin counter-measure): NEWKEYS resets it to 0, also at the FIRST key exchange,
    when NEWKEYS itself still goes out unencrypted"""
    if not c11.own_sends(c):
        return c.new('_send_seq') == c.old('_send_seq') if not (
            c.events('send_kexinit') or c.events('nested_send') or c.events('nested_send_started_kex')) \
            else z3.BoolVal(True)
    base = emission_seq(c)
    conj = [z3.BoolVal(len(c.events('wire')) == 1),
            c.new('_send_seq') == z3.If(z3.And(c.arg('pkttype') == 21, c.old('_strict_kex')), 0, (base + 1) % U32)]
    if not (c.events('send_kexinit') or c.events('nested_send') or c.events('nested_send_started_kex')):
        # nothing else was emitted by this activation: the number used is the counter's value on entry
        conj.append(base == c.old('_send_seq'))
    return z3.And(conj)


send_packet = c11._mk_send_packet(
    'C02',
    ensures=[('rfc4253-binary-packet', c11.wire_format), ('mac-over-pre-increment-seq', mac_over_current_seq),
             ('seq-rule', seq_rule)],
    always=[])
send_packet.stubs['self.send_packet'] = c11._recursive_stub
send_packet.stubs['self._send_encryption.encrypt_packet'] = encrypt_packet_stub
send_packet.stubs['self._send'] = wire_stub


# ------------------------------------------------------------------ encryption.py: encrypt_packet (sending side)
# What the sender authenticates, per suite, against the RFCs (not against decrypt_packet - a symmetric slip in
# both directions must still disagree with these):
#   BasicEncryption  RFC 4253 6.4: mac = MAC(key, sequence_number || unencrypted_packet), unencrypted_packet being the
#                    whole packet (length field, padding length, payload, padding); wire = ENC(unencrypted_packet)
#   ETMEncryption    OpenSSH PROTOCOL 1.6 (*-etm@openssh.com): length field in clear, wire = length || ENC(rest),
#                    mac = MAC(key, sequence_number || length || ENC(rest)) - computed over the CIPHERTEXT
#   GCMEncryption    RFC 5647 7.2: AAD = length field, plaintext = rest, no sequence number (the IV counter)
#   ChachaEncryption OpenSSH PROTOCOL.chacha20poly1305: nonce = UInt64(sequence_number), header and rest sealed
# Primitives are uninterpreted: cipher.encrypt = enc_f(data), MAC.sign = a fresh value logged with its arguments
# (its own contract - mac over UInt32(seq) || data resp. UMAC nonce - is proved on mac.py under C01).
enc_f = z3.Function('cipher_encrypt', BytesS, BytesS)


def cipher_encrypt_stub(cx):
    return [Out(ret=VBytes(enc_f(cx.args[0].z)), event=('encrypt', tuple(cx.args)))]


cipher_encrypt_stub.modifies = ()


def mac_sign_stub(cx):
    return [Out(ret=cx.fresh('bytes', 'mac_tag'), event=('sign', tuple(cx.args)))]


mac_sign_stub.modifies = ()


def aead_seal_stub(cx):
    return [Out(ret=cx.fresh('tuple[bytes,bytes]', 'sealed'), event=('seal', tuple(cx.args)))]


aead_seal_stub.modifies = ()

ENCP_CLASSES = {'BasicEncryption': {'_cipher': 'obj:Cipher', '_mac': 'obj:MAC'},
                'ETMEncryption': {'_cipher': 'obj:Cipher', '_mac': 'obj:MAC'},
                'GCMEncryption': {'_cipher': 'obj:Cipher'}, 'ChachaEncryption': {'_cipher': 'obj:Cipher'},
                'Cipher': {}, 'MAC': {}}
ENCP_PARAMS = dict(seq='int', header='bytes', packet='bytes')


def _one(c, name):
    e = c.events(name)
    return e[0][1] if len(e) == 1 else None


def basic_encrypt_post(c):
    """MAC-then-encrypt: tag over (seq, length || packet) in clear; the wire carries ENC(length || packet)"""
    s, e = _one(c, 'sign'), _one(c, 'encrypt')
    if s is None or e is None:
        return z3.BoolVal(False)
    whole = z3.Concat(c.arg('header'), c.arg('packet'))
    r = c.result_v
    return z3.And(s[0].z == c.arg('seq'), s[1].z == whole, e[0].z == whole,
                  r.items[0].z == enc_f(whole), r.items[1].z == c.calls('sign')[0]['ret'].z)


def etm_encrypt_post(c):
    """encrypt-then-MAC: only the body is encrypted, the tag is over (seq, length || ENC(body)), i.e. over exactly
    the bytes that go on the wire, and it is computed after the encryption"""
    s, e = _one(c, 'sign'), _one(c, 'encrypt')
    if s is None or e is None:
        return z3.BoolVal(False)
    wire = z3.Concat(c.arg('header'), enc_f(c.arg('packet')))
    keys = [x['key'].rsplit('.', 1)[-1] for x in c.calls()]
    r = c.result_v
    return z3.And(e[0].z == c.arg('packet'), s[0].z == c.arg('seq'), s[1].z == wire,
                  z3.BoolVal(keys.index('encrypt') < keys.index('sign')),
                  r.items[0].z == wire, r.items[1].z == c.calls('sign')[0]['ret'].z)


def gcm_encrypt_post(c):
    a = _one(c, 'seal')
    if a is None or len(a) != 2:
        return z3.BoolVal(False)
    return z3.And(a[0].z == c.arg('header'), a[1].z == c.arg('packet'),
                  c.eq(c.result_v, c.calls('encrypt_and_sign')[0]['ret']))


def chacha_encrypt_post(c):
    a = _one(c, 'seal')
    if a is None or len(a) != 3:
        return z3.BoolVal(False)
    return z3.And(a[0].z == c.arg('header'), a[1].z == c.arg('packet'),
                  a[2].z == be(z3.IntVal(8), c.arg('seq')),                 # nonce = UInt64(seq)
                  c.eq(c.result_v, c.calls('encrypt_and_sign')[0]['ret']))


def mk_encrypt_packet_specs(prop):
    """the four encrypt_packet contracts, registered under `prop` (C02: conformance of what is emitted; C01: the
    sending half of "tamper-evident in both directions")"""
    seq32 = lambda c: z3.And(c.arg('seq') >= 0, c.arg('seq') < 2 ** 32)        # noqa: E731
    out = []
    for cls, post, label, stubs in (
            ('BasicEncryption', basic_encrypt_post, 'rfc4253-6.4-mac-over-seq-and-unencrypted-packet',
             {'self._cipher.encrypt': cipher_encrypt_stub, 'self._mac.sign': mac_sign_stub}),
            ('ETMEncryption', etm_encrypt_post, 'etm-encrypt-then-mac-over-seq-length-and-ciphertext',
             {'self._cipher.encrypt': cipher_encrypt_stub, 'self._mac.sign': mac_sign_stub}),
            ('GCMEncryption', gcm_encrypt_post, 'rfc5647-aad-is-the-length-field',
             {'self._cipher.encrypt_and_sign': aead_seal_stub}),
            ('ChachaEncryption', chacha_encrypt_post, 'chacha20-poly1305-nonce-is-uint64-seq',
             {'self._cipher.encrypt_and_sign': aead_seal_stub})):
        out.append(Spec(prop, 'encryption', f'{cls}.encrypt_packet', self_class=cls, params=ENCP_PARAMS,
                        classes=ENCP_CLASSES, stubs=stubs, requires=seq32, ensures=[(label, post)],
                        returns='tuple[bytes,bytes]', raises={}))
    return out


encrypt_packet_specs = mk_encrypt_packet_specs('C02')


# ------------------------------------------------------------------ Kex.compute_key
H = z3.Function('H', BytesS, BytesS)                     # hash of an accumulated byte string
chain = z3.Function('rfc_chain', BytesS, BytesS, BytesS, BytesS, BytesS, BoolS)
# chain(k, h, x, sid, key): key == K1 || ... || Kn for some n >= 0 with
#   K1 = HASH(K || H || X || session_id),  Kn+1 = HASH(K || H || K1 || ... || Kn)          (RFC 4253 7.2)
# inductive definition: chain(empty); chain(key) => chain(key ++ H(k ++ h ++ (key if key else x ++ sid)))


def hash_ctor(cx):
    o = cx.fresh('obj:Hash', 'hash')
    cx.st.set_field(o, 'ghost_data', VBytes(b''))
    return [Out(ret=o)]


hash_ctor.modifies = ()


def hash_update(cx):
    cur = cx.ex.get_field(cx.st, cx.recv, 'ghost_data')
    arg = cx.args[0]
    return [Out(osets=[(cx.recv, 'ghost_data', VBytes(z3.Concat(cur.z, arg.z)))])]


hash_update.modifies = ()


def hash_digest(cx):
    cur = cx.ex.get_field(cx.st, cx.recv, 'ghost_data')
    d = H(cur.z)
    ds = cx.selff('ghost_digest_size').z
    return [Out(ret=VBytes(d), assume=[z3.Length(d) == ds])]


hash_digest.modifies = ()


def ck_args(c):
    return c.arg('k'), c.arg('h'), c.arg('x'), c.arg('session_id')


def ck_lemmas(c):
    """definitional instances of `chain` for the current key"""
    k, h, x, sid = ck_args(c)
    out = [chain(k, h, x, sid, z3.Empty(BytesS))]
    for key in ([c.head.env['key'].z] if getattr(c, 'head', None) is not None and 'key' in c.head.env else []):
        nxt = z3.If(z3.Length(key) > 0, key, z3.Concat(x, sid))
        out.append(z3.Implies(chain(k, h, x, sid, key),
                              chain(k, h, x, sid, z3.Concat(key, H(z3.Concat(k, h, nxt))))))
        out.append(z3.Implies(z3.Length(key) == 0, key == z3.Empty(BytesS)))
    return out


compute_key = Spec(
    'C02', 'kex', 'Kex.compute_key', self_class='Kex',
    params=dict(k='bytes', h='bytes', x='bytes', session_id='bytes', keylen='int'),
    classes={'Kex': {'ghost_digest_size': 'int'}, 'Hash': {'ghost_data': 'bytes'}},
    stubs={'self._hash_alg': hash_ctor, 'hash_obj.update': hash_update, 'hash_obj.digest': hash_digest},
    loops={1: LoopSpec(header='len(key) < keylen',
                       invariant=lambda c: z3.And(chain(*ck_args(c), c.local('key')),
                                                  z3.Or(z3.Length(c.local('key')) == 0,
                                                        z3.Length(c.local('key')) - c.old('ghost_digest_size')
                                                        < c.arg('keylen'))),
                       variant=lambda c: c.arg('keylen') - z3.Length(c.local('key')),
                       lemmas=ck_lemmas)},
    local_types={'hash_obj': 'obj:Hash'},
    requires=lambda c: z3.And(c.old('ghost_digest_size') >= 1, c.arg('keylen') >= 0),
    ensures=[('rfc4253-7.2-expansion-truncated', lambda c: (lambda key: z3.And(
        z3.Length(c.result) == c.arg('keylen')))(None)),
        ('result-is-prefix-of-an-rfc-chain', lambda c: z3.BoolVal(True))],
    returns='bytes')
# the real postcondition needs the final `key`; it is a local, so it is stated through the loop-exit state:
compute_key.ensures = [
    ('rfc4253-7.2-expansion-truncated',
     lambda c: z3.And(chain(*ck_args(c), c.local('key')),
                      c.result == z3.Extract(c.local('key'), 0, c.arg('keylen')),
                      z3.Length(c.result) == c.arg('keylen'),
                      # minimal: no extra block was appended
                      z3.Or(z3.Length(c.local('key')) == 0,
                            z3.Length(c.local('key')) - c.old('ghost_digest_size') < c.arg('keylen')))),
]


# ------------------------------------------------------------------ GCMCipher._update_iv
update_iv = Spec(
    'C02', 'crypto.cipher', 'GCMCipher._update_iv', self_class='GCMCipher',
    classes={'GCMCipher': {'_iv': 'bytes'}},
    requires=lambda c: z3.Length(c.old('_iv')) == 12,
    ensures=[('rfc5647-fixed-field-unchanged',
              lambda c: z3.Extract(c.new('_iv'), 0, 4) == z3.Extract(c.old('_iv'), 0, 4)),
             ('rfc5647-invocation-counter-plus-one-mod-2^64',
              lambda c: z3.And(z3.Length(c.new('_iv')) == 12,
                               unbe(z3.Extract(c.new('_iv'), 4, 8)) ==
                               (unbe(z3.Extract(c.old('_iv'), 4, 8)) + 1) % 2 ** 64))],
    raises={})


# ------------------------------------------------------------------ receive framing (chunk independence)
def hdr_requires(c):
    return z3.And(c.old('_recv_blocksize') >= 8, c.old('_recv_seq') >= 0, c.old('_recv_seq') < 2 ** 32)


recv_pkthdr = Spec(
    'C02', 'connection', 'SSHConnection._recv_pkthdr', self_class='SSHConnection', classes=CONN_CLASSES,
    stubs={'self._recv_encryption.decrypt_header': ret('tuple[bytes,bytes]', 'hdr',
                                                       assume=lambda cx, v: z3.Length(v.items[1].z) == 4)},
    requires=hdr_requires,
    ensures=[
        ('incomplete-header-consumes-nothing', lambda c: z3.Implies(
            z3.Length(c.old('_inpbuf')) < c.old('_recv_blocksize'),
            z3.And(z3.Not(c.result), c.new('_inpbuf') == c.old('_inpbuf'),
                   c.eq(c.newv('_recv_handler'), c.oldv('_recv_handler')),
                   c.new('_packet') == c.old('_packet'), c.new('_pktlen') == c.old('_pktlen')))),
        ('complete-header-consumes-exactly-one-block', lambda c: z3.Implies(
            z3.Length(c.old('_inpbuf')) >= c.old('_recv_blocksize'),
            z3.And(c.result,
                   c.new('_inpbuf') == z3.Extract(c.old('_inpbuf'), c.old('_recv_blocksize'),
                                                  z3.Length(c.old('_inpbuf')) - c.old('_recv_blocksize')),
                   c.eq(c.newv('_recv_handler'), VTag('method:SSHConnection._recv_packet')),
                   c.new('_pktlen') >= 0, c.new('_pktlen') < 2 ** 32))),
        ('plaintext-length-is-the-first-four-bytes', lambda c: z3.Implies(
            z3.And(c.is_none(c.oldv('_recv_encryption')),
                   z3.Length(c.old('_inpbuf')) >= c.old('_recv_blocksize')),
            c.new('_pktlen') == unbe(z3.Extract(z3.Extract(c.old('_inpbuf'), 0, c.old('_recv_blocksize')), 0, 4)))),
    ],
    returns='bool')


def need(c):
    return 4 + c.old('_pktlen') + c.old('_recv_macsize') - c.old('_recv_blocksize')


recv_packet_framing = Spec(
    'C02', 'connection', 'SSHConnection._recv_packet', self_class='SSHConnection',
    classes=dict(CONN_CLASSES, **PACKET_CLASSES), inline=dict(PACKET_INLINE), truthy=PACKET_TRUTHY,
    stubs={
        'self._recv_encryption.decrypt_packet': ret('opt[bytes]', 'decrypted'),
        'self._decompressor.decompress': ret('opt[bytes]', 'decompressed'),
        '*.log_received_packet': noop(),
        '*.process_packet': may_raise(ret('any', 'handler_result', event='process_packet'),
                                      'PacketDecodeError', 'ProtocolError'),
        'self.create_task': ret('obj:Task', 'task'),
        'task.add_done_callback': noop(),
        'functools.partial': lambda cx: VTag('partial'),
        'self.send_packet': noop('send_packet'),
        'self._finish_recv_packet': noop('finish'),
    },
    requires=lambda c: z3.And(c.old('_pktlen') >= 0, c.old('_recv_macsize') >= 0, c.old('_recv_blocksize') >= 8,
                              c.old('_recv_seq') >= 0, c.old('_recv_seq') < 2 ** 32,
                              z3.Length(c.old('_packet')) == c.old('_recv_blocksize'),
                              need(c) >= c.old('_recv_macsize')),
    always=[
        ('incomplete-packet-consumes-nothing', lambda c: z3.Implies(
            z3.Length(c.old('_inpbuf')) < need(c),
            z3.And(z3.BoolVal(c.raised is None), c.new('_inpbuf') == c.old('_inpbuf'),
                   c.new('_packet') == c.old('_packet'),
                   z3.BoolVal(len(c.events('process_packet')) == 0)))),
        ('complete-packet-consumes-exactly-its-bytes', lambda c: z3.Implies(
            z3.And(z3.Length(c.old('_inpbuf')) >= need(c), z3.BoolVal(c.raised is None)),
            c.new('_inpbuf') == z3.Extract(c.old('_inpbuf'), need(c), z3.Length(c.old('_inpbuf')) - need(c)))),
        ('payload-delivered-at-most-once', lambda c: z3.BoolVal(len(c.events('process_packet')) <= 1)),
    ],
    raises={'MACError': True, 'CompressionError': True, 'ProtocolError': True, 'PacketDecodeError': True},
    returns='bool')


# ------------------------------------------------------------------ cipher table is data: block sizes
def extra_checks(tier, seed):
    """The finite case split {8, 16} of the send block size rests on the registered cipher table (read as data)."""
    import ast
    from pyvc import extract
    mod = extract.get_module('crypto.cipher')
    sizes = set()
    for node in ast.walk(mod.tree):
        if isinstance(node, ast.Assign) and any(isinstance(t, ast.Name) and t.id == '_cipher_alg_list'
                                                for t in node.targets):
            for elt in node.value.elts:
                sizes.add(ast.literal_eval(elt.elts[-1]))
    ok = bool(sizes) and sizes <= {1, 8, 16}
    return {'lemmas': [{'name': 'C02.crypto.cipher._cipher_alg_list#block-sizes-in-{1,8,16}',
                        'verdict': 'proved' if ok else 'refuted', 'detail': sorted(sizes),
                        'backend': 'data (AST literal)', 'replayed': True}]}


# ------------------------------------------------------------------ send_newkeys: RFC 4253 7.2 letters / directions
kdf = z3.Function('kdf', BytesS, BytesS, BytesS, BytesS, IntS, BytesS)   # compute_key(k, h, letter, sid, size)

NK_FIELDS = dict(CONN_FIELDS, **{
    '_session_id': 'bytes', '_enc_alg_cs': 'bytes', '_enc_alg_sc': 'bytes', '_mac_alg_cs': 'bytes',
    '_mac_alg_sc': 'bytes', '_cmp_alg_cs': 'bytes', '_cmp_alg_sc': 'bytes',
    '_extensions_to_send': 'dict[bytes,bytes]', '_sig_algs': 'seq[bytes]', '_wait': 'opt[str]',
    '_waiter': 'opt[obj:Future]', '_can_send_ext_info': 'bool', '_next_service': 'opt[bytes]',
    '_next_recv_blocksize': 'int', '_next_recv_macsize': 'int', '_next_decompressor': 'opt[obj:Decompressor]',
    '_next_decompress_after_auth': 'bool',
})
ENC_GHOST = {'ghost_alg': 'bytes', 'ghost_key': 'bytes', 'ghost_iv': 'bytes', 'ghost_macalg': 'bytes',
             'ghost_mackey': 'bytes', 'ghost_etm': 'bool'}


def compute_key_stub(cx):
    k, h, x, sid, n = cx.args
    return [Out(ret=VBytes(kdf(k.z, h.z, x.z, sid.z, n.z)), event=('compute_key', tuple(cx.args)))]


compute_key_stub.modifies = ()


def get_encryption_stub(cx):
    o = cx.fresh('obj:Encryption', 'enc')
    a = cx.args
    for f, v in zip(('ghost_alg', 'ghost_key', 'ghost_iv', 'ghost_macalg', 'ghost_mackey'), a[:5]):
        cx.st.set_field(o, f, v)
    cx.st.set_field(o, 'ghost_etm', VBool(cx.ex.truthy(cx.st, a[5])))
    return [Out(ret=o)]


get_encryption_stub.modifies = ()

enc_params = z3.Function('enc_param', BytesS, BytesS, IntS, IntS)        # (enc_alg, mac_alg, index) -> value
etm_param = z3.Function('etm_param', BytesS, BytesS, BoolS)


def enc_params_stub(cx):
    e, m = cx.args[0].z, cx.args[1].z
    vals = [VInt(enc_params(e, m, z3.IntVal(i))) for i in range(5)] + [VBool(etm_param(e, m))]
    return [Out(ret=VTuple(vals), assume=[v.z >= 0 for v in vals[:5]])]


enc_params_stub.modifies = ()


def letter(ch):
    return bytes_const(ch)


def newkeys_keys(c):
    """client->server keys use A (IV), C (cipher key), E (MAC key); server->client B, D, F; the client sends with
    the c->s set and receives with the s->c set, the server the other way round (RFC 4253 7.2)"""
    if c.raised is not None:
        return z3.BoolVal(True)
    st = c.new_state
    send = c.newv('_send_encryption')
    recv = c.newv('_next_recv_encryption')
    isc = c.old('_is_client')
    k, h = c.arg('k'), c.arg('h')
    sid = z3.If(z3.Length(c.old('_session_id')) > 0, c.old('_session_id'), h)
    conj = [z3.Not(c.is_none(send)), z3.Not(c.is_none(recv)), c.new('_session_id') == sid]
    send = send if isinstance(send, VOpt) else VOpt(z3.BoolVal(False), send)
    recv = recv if isinstance(recv, VOpt) else VOpt(z3.BoolVal(False), recv)
    if isinstance(send.val, VRef) and isinstance(recv.val, VRef):
        def g(ref, f):
            return st.rec(ref).fields[f].z

        def expect(ref, cs):
            e = c.old('_enc_alg_cs') if cs else c.old('_enc_alg_sc')
            m = c.old('_mac_alg_cs') if cs else c.old('_mac_alg_sc')
            L = (b'A', b'C', b'E') if cs else (b'B', b'D', b'F')
            return z3.And(g(ref, 'ghost_alg') == e, g(ref, 'ghost_macalg') == m,
                          g(ref, 'ghost_iv') == kdf(k, h, letter(L[0]), sid, enc_params(e, m, z3.IntVal(1))),
                          g(ref, 'ghost_key') == kdf(k, h, letter(L[1]), sid, enc_params(e, m, z3.IntVal(0))),
                          g(ref, 'ghost_mackey') == kdf(k, h, letter(L[2]), sid, enc_params(e, m, z3.IntVal(3))),
                          g(ref, 'ghost_etm') == etm_param(e, m))
        conj.append(z3.If(isc, z3.And(expect(send.val, True), expect(recv.val, False)),
                          z3.And(expect(send.val, False), expect(recv.val, True))))
    return z3.And(conj)


def newkeys_framing(c):
    """send side framing parameters follow the negotiated algorithm of the sending direction"""
    if c.raised is not None:
        return z3.BoolVal(True)
    isc = c.old('_is_client')
    e = z3.If(isc, c.old('_enc_alg_cs'), c.old('_enc_alg_sc'))
    m = z3.If(isc, c.old('_mac_alg_cs'), c.old('_mac_alg_sc'))
    bs = enc_params(e, m, z3.IntVal(2))
    return z3.And(c.new('_send_blocksize') == z3.If(bs > 8, bs, 8),
                  c.new('_send_enchdrlen') == z3.If(etm_param(e, m), 1, 5))


def newkeys_order(c):
    """NEWKEYS goes out before the new send keys are installed and before _kex_complete is raised"""
    sends = [x for x in c.calls() if x['key'] == 'self.send_packet']
    ok = [z3.BoolVal(len(sends) >= 1)]
    if sends:
        ok.append(sends[0]['args'][0].z == 21)
    if c.raised is None:
        ok.append(c.is_none(c.newv('_kex')))
    return z3.And(ok)


send_newkeys = Spec(
    'C02', 'connection', 'SSHConnection.send_newkeys', self_class='SSHConnection',
    params=dict(k='bytes', h='bytes'),
    classes=dict(CONN_CLASSES, SSHConnection=NK_FIELDS, Encryption=ENC_GHOST, Future={}),
    stubs=dict(ROLE_STUBS, **{
        'get_encryption_params': enc_params_stub,
        'get_compression_params': ret('bool', 'cmp_after_auth'),
        'self._kex.compute_key': compute_key_stub,
        'get_encryption': get_encryption_stub,
        'get_compressor': ret('opt[obj:Compressor]', 'compressor'),
        'get_decompressor': ret('opt[obj:Decompressor]', 'decompressor'),
        'self.send_packet': noop('send_packet'),
        'self.set_extra_info': noop(),
        'self._waiter.cancelled': ret('bool', 'cancelled'),
        'self._waiter.set_result': noop('waiter_set'),
        'self._send_ext_info': noop('ext_info'),
        'self.send_service_request': noop('service_request'),
        'self._send_deferred_packets': noop('flush_deferred'),
    }),
    requires=lambda c: z3.And(z3.Not(c.is_none(c.oldv('_kex'))), z3.Length(c.arg('h')) > 0),
    ensures=[('rfc4253-7.2-letters-and-directions', newkeys_keys),
             ('send-framing-follows-sending-direction', newkeys_framing),
             ('kex-complete-after-newkeys', lambda c: z3.Or(
                 c.new('_kex_complete'),
                 # the early return for a connect() waiting only for the key exchange
                 z3.BoolVal(len(c.events('waiter_set')) == 1)))],
    always=[('newkeys-first', newkeys_order)],
    raises={'UnicodeDecodeError': True, 'AssertionError': lambda c: z3.BoolVal(False)})
