"""C04 - the client only talks to a server whose host key it trusts.  Sidecar contracts.

Decision contracts, pure over (trust sets, key / certificate fields, now):

  accept(host, addr, port, key_data) = the key the exchange signature is checked against, if any:
    * key_data decodes to a plain public key K:    K, provided checking is disabled (known_hosts=None) or
          K not in revoked  and  (K in trusted  or  the application's validate_host_public_key said yes)
    * key_data decodes to an OpenSSH certificate:  cert.key, provided CA checking is disabled or
          CA not in revoked  and  (CA in trusted_ca  or  validate_host_ca_key said yes)
          and cert type is HOST, valid_after <= now < valid_before, principals empty or host listed
    * otherwise no key: ValueError -> HostKeyNotVerifiable (never another exception, never a key)

plus the producers of the trust sets: SSHConnection._match_known_hosts (the sets are exactly what the matcher
returned) and SSHKnownHosts._match / match (classification of the matching lines by marker; a lookup does not
change the stored entries).
"""
import z3
from pyvc.contracts import *
from pyvc.engine import LoopSpec, Out
from pyvc.values import *
from pyvc.builtins_model import set_of_fn
from .common import *

PROP = 'C04'

ASSUMPTIONS = [
    'host keys, CA keys, X.509 certificates and subject patterns are opaque values; == on the opaque sort is the '
    'per-type key comparison (RSAKey / _DSAKey / _ECKey / _EdKey / _SKECDSAKey / _SKEd25519Key .__eq__ over the key '
    'parameters; there is no SSHKey.__eq__).  Those six __eq__ are under contract (C16 Specs adopted here: equal only '
    'if all public parameters are equal, never equal to a key of another type).  Trusted, not under contract: the '
    'matching __hash__ methods are functions of the same parameters (set membership = hash then ==), '
    'SSHCertificate.__eq__/__hash__ (public_data) for X.509 certificates',
    'inside _validate_host_key the decoders decode_ssh_certificate / decode_ssh_public_key are deterministic '
    'abstractions of the key blob (they may also raise ValueError for malformed key parameters: fail-safe, becomes '
    'HostKeyNotVerifiable).  That an OpenSSH certificate object exists only if its CA signature verified - over exactly '
    'the to-be-signed bytes, with the CA key embedded in the certificate - and that its fields are the signed ones is '
    'NOT assumed: SSHOpenSSHCertificate.construct and decode_ssh_certificate are under contract (the Specs written for '
    'C16, adopted here and discharged by ./check C04 too); what remains assumed is the primitive (unforgeability)',
    'the application callbacks validate_host_public_key / validate_host_ca_key are oracles (uninterpreted '
    'predicates of their arguments) returning a bool; the defaults in SSHClient are under contract (they answer False), '
    'an application that overrides them takes the decision for unlisted keys upon itself',
    'whether checking exists at all: SSHClientConnectionOptions.prepare (the statements storing known_hosts and '
    'host_key_alias, region) is under contract - known_hosts is None only for an explicit None or '
    '"UserKnownHostsFile none", otherwise the argument or all configured user files followed by all global files; '
    'that the config holds string lists under the two options is the C18 contract of config.py (precondition here); the '
    'copy from the options object into SSHClientConnection.__init__ (_known_hosts, _host_key_alias) is not under contract',
    'read_known_hosts is under contract up to file access (read_file is a deterministic oracle): every file of the list '
    'is loaded, in order, into the one returned object; that a later load() keeps the lines of earlier files (so '
    '@revoked lines of any file survive) is the adopted C17 contract of load / _add_exact / _add_pattern',
    'SSHConnection.connection_made: only the statements about peername are analysed (region): _peer_addr/_peer_port are '
    'the first two components of transport.get_extra_info("peername")',
    'GSS key exchange (gss-* kex, kex_dh._KexGSSBase) is an exception to the property BY DESIGN: the server is '
    'authenticated by the GSS MIC, validate_server_host_key is never called and the host key the server sent is '
    'stored unchecked; C03 declares GSS out of scope as well.  The statement proved here is about the non-GSS '
    'exchanges, whose two client call sites of validate_server_host_key are kex_dh _process_reply and kex_rsa '
    '_process_done (both under contract in C03)',
    'X.509 certificate chains are outside the property text: _validate_x509_host_certificate_chain is an assumed '
    'contract (returns a key or raises ValueError); only its call site is checked',
    '"now" is a ghost input (ghost_now): the one reading of time.time() made by SSHOpenSSHCertificate.validate',
    'inside SSHKnownHosts._match, ip_address() and pattern .matches() are deterministic functions of their arguments '
    '(pattern_matches); what .matches computes for plain / wildcard / negated / CIDR / hashed patterns is proved by '
    'the C17 Specs adopted here (_PlainHost, _HashedHost, HostPatternList, _PatternList, Wildcard*/CIDRHostPattern), '
    'and which (marker, key) is stored under which pattern by load / _add_exact / _add_pattern likewise; the link is by '
    'identification (see the C17 layering note below), not a solver step',
    'writers of the trust sets covered: _match_known_hosts (each set is REPLACED by what the matcher returned for this '
    'host/addr/port) and the known_hosts statement of _connection_made (None exactly when known_hosts is None); '
    '__init__ (not-None sets) is the precondition of _connection_made and is not itself under contract.  Only that '
    'statement of _connection_made is analysed (region): the lines before it, which set _host/_port from the peer name '
    'when no host was given, and the lines after it (keysign keys, algorithm lists) are not; the AST scans '
    'C04.scan#frame(...) check that the trust sets and the selecting fields (_host, _port, _peer_addr, '
    '_host_key_alias, _known_hosts) have no other writers and are not written at/after that statement',
    'inside _match_known_hosts the module-level match_known_hosts() is a deterministic abstraction of (known_hosts, '
    'host, addr, port).  match_known_hosts itself is under contract for the SSHKnownHosts-object, file-name and bytes '
    'forms (exactly one SSHKnownHosts.match(host, addr, port) with the same three arguments, answer returned '
    'unchanged); the callable and tuple-of-lists forms (user-supplied matcher / preloaded keys) and file access '
    '(read_known_hosts) are not',
    'Python float clock readings are modelled as exact reals',
    '"before any credentials are sent" is not re-proved here; relied-upon contracts: C03 '
    '_process_reply#post(verified-key-is-the-validated-one-for-the-hashed-blob) and its pre-at-call on send_newkeys '
    '(send_newkeys_after_verify: NEWKEYS only after validate_server_host_key returned and the signature verified), '
    'C06 rule A1 (try_next_auth_stub: every call site of try_next_auth already has receive keys).  C03 stubs '
    'validate_server_host_key with a wider exception set (also KeyImportError) than the contract proved here '
    '(HostKeyNotVerifiable only): C03 assumes less than C04 proves',
    'repaired on the way (known_findings.json "fixed"): af06bcd port-specific @revoked lines survive the port fallback '
    'of SSHKnownHosts.match; 588bddd trusted host keys no longer accumulate across _match_known_hosts calls',
]

KEY = 'opaque:Key'
KS = sort_of(KEY)
KSET = 'set[opaque:Key]'
CERT_TYPE_ANY, CERT_TYPE_HOST = 0, 2          # PROTOCOL.certkeys: SSH2_CERT_TYPE_HOST = 2 (public_key.py:145-147)

CERT_FIELDS = {
    'is_x509_chain': 'bool', 'signing_key': KEY, 'key': KEY,
    '_cert_type': 'int', '_valid_after': 'int', '_valid_before': 'int', 'principals': 'seq[str]',
    'ghost_now': 'float',          # the clock reading used by validate()
    'ghost_data': 'bytes',         # the blob this certificate was decoded from
}
CONN_TRUST = {
    '_trusted_host_keys': 'opt[' + KSET + ']', '_trusted_ca_keys': 'opt[' + KSET + ']',
    '_revoked_host_keys': KSET, '_owner': 'opt[obj:Owner]', 'ghost_now': 'float',
    '_host': 'str', '_host_key_alias': 'opt[str]', '_peer_addr': 'str', '_port': 'int',
    '_server_host_key': 'opt[' + KEY + ']',
}
CLASSES = {'SSHConnection': CONN_TRUST, 'SSHOpenSSHCertificate': CERT_FIELDS, 'Owner': {}}

# ---- uninterpreted vocabulary ---------------------------------------------------------------------------------
B = BytesS
is_cert = z3.Function('is_cert', B, BoolS)                 # decode_ssh_certificate(blob) succeeds
cert_x509 = z3.Function('cert_is_x509_chain', B, BoolS)
cert_sk = z3.Function('cert_signing_key', B, KS)
cert_key = z3.Function('cert_key', B, KS)
cert_type = z3.Function('cert_type', B, IntS)
cert_va = z3.Function('cert_valid_after', B, IntS)
cert_vb = z3.Function('cert_valid_before', B, IntS)
cert_pr = z3.Function('cert_principals', B, z3.SeqSort(StrS))
is_pk = z3.Function('is_public_key', B, BoolS)             # decode_ssh_public_key(blob) succeeds
pk_of = z3.Function('public_key_of', B, KS)
x509_ok = z3.Function('x509_chain_ok', StrS, B, BoolS)
x509_key = z3.Function('x509_chain_key', StrS, B, KS)
cb_key = z3.Function('owner_accepts_key', StrS, StrS, IntS, KS, BoolS)
cb_ca = z3.Function('owner_accepts_ca', StrS, StrS, IntS, KS, BoolS)


def sv(v):
    """z3 string of a str value that may be wrapped in an Optional already known to be set"""
    return v.val.z if isinstance(v, VOpt) else v.z


def opt_parts(v):
    if v is VNone:
        return z3.BoolVal(True), z3.StringVal('')
    if isinstance(v, VOpt):
        return v.isnone, v.val.z
    return z3.BoolVal(False), v.z


def member(seq, x):
    k = z3.Int(fresh_name('k'))
    return z3.Exists([k], z3.And(0 <= k, k < z3.Length(seq), seq[k] == x))


def cert_ok(want_type, ctype, va, vb, now, principals, p_none, p):
    """the certificate checks of the property: type, validity window containing now, principals cover the host"""
    return z3.And(z3.Or(want_type == CERT_TYPE_ANY, want_type == ctype),
                  z3.ToReal(va) <= now, now < z3.ToReal(vb),
                  z3.Or(p_none, z3.Length(principals) == 0, member(principals, p)))


# ---- SSHOpenSSHCertificate.validate ------------------------------------------------------------------------------
def clock_stub(cx):
    return [Out(ret=cx.selff('ghost_now'), event=('clock', ()))]


clock_stub.modifies = ()


def validate_cond(c):
    pn, p = opt_parts(c.argv('principal'))
    return cert_ok(c.arg('cert_type'), c.old('_cert_type'), c.old('_valid_after'), c.old('_valid_before'),
                   c.old('ghost_now'), c.old('principals'), pn, p)


cert_validate = Spec(
    PROP, 'public_key', 'SSHOpenSSHCertificate.validate', self_class='SSHOpenSSHCertificate',
    params=dict(cert_type='int', principal='opt[str]'),
    classes={'SSHOpenSSHCertificate': CERT_FIELDS},
    stubs={'time.time': clock_stub},
    modifies=[],            # a pure lookup/decision: frame-checked on every exit path
    ensures=[('returns-only-if-type-window-principal-ok', validate_cond)],
    raises={'ValueError': lambda c: z3.Not(validate_cond(c))},
    always=[('clock-read-at-most-once', lambda c: z3.BoolVal(len(c.events('clock')) <= 1))])


# ---- the two acceptance rules ---------------------------------------------------------------------------------
def opt_set_parts(v):
    """(is None, characteristic array) of an Optional[set]"""
    if v is VNone:
        return z3.BoolVal(True), z3.K(KS, z3.BoolVal(False))
    if isinstance(v, VSet) and not v.items:
        return z3.BoolVal(False), z3.K(KS, z3.BoolVal(False))      # set()
    if isinstance(v, VOpt):
        return v.isnone, v.val.z
    return z3.BoolVal(False), v.z


def rev_set(v):
    """characteristic array of a (never None) set value"""
    return opt_set_parts(v)[1]


def key_rule(c, host, addr, port, k):
    """a listed key that is not revoked (or an application override), unless checking is disabled"""
    dis, trusted = opt_set_parts(c.oldv('_trusted_host_keys'))
    rev = rev_set(c.oldv('_revoked_host_keys'))
    return z3.Or(dis, z3.And(z3.Not(z3.Select(rev, k)),
                             z3.Or(z3.Select(trusted, k), cb_key(host, addr, port, k))))


def ca_rule(c, host, addr, port, sk, ctype, va, vb, now, principals):
    """trusted non-revoked CA, type host, validity window contains now, principals cover the host"""
    dis, trusted = opt_set_parts(c.oldv('_trusted_ca_keys'))
    rev = rev_set(c.oldv('_revoked_host_keys'))
    return z3.Or(dis, z3.And(z3.Not(z3.Select(rev, sk)),
                             z3.Or(z3.Select(trusted, sk), cb_ca(host, addr, port, sk)),
                             cert_ok(z3.IntVal(CERT_TYPE_HOST), ctype, va, vb, now, principals,
                                     z3.BoolVal(False), host)))


def owner_cb(fn, name):
    def stub(cx):
        host, addr, port, key = cx.args
        b = cx.fresh('bool', name)          # a plain Bool (replayable) equal to the oracle's verdict
        return [Out(ret=b, assume=[b.z == fn(sv(host), sv(addr), port.z, key.z)], event=(name, tuple(cx.args)))]
    stub.modifies = ()
    return stub


def trust_frame(c):
    """a decision never changes the trust configuration"""
    eq = []
    for f in ('_trusted_host_keys', '_trusted_ca_keys'):
        n0, a0 = opt_set_parts(c.oldv(f))
        n1, a1 = opt_set_parts(c.newv(f))
        eq += [n0 == n1, z3.Or(n0, a0 == a1)]
    eq.append(rev_set(c.oldv('_revoked_host_keys')) == rev_set(c.newv('_revoked_host_keys')))
    return z3.And(eq)


# ---- SSHConnection._validate_openssh_host_certificate ---------------------------------------------------------
def cf(c, name):
    return c.old(name, ref=c.argv('cert'))


def openssh_cond(c):
    return ca_rule(c, sv(c.argv('host')), sv(c.argv('addr')), c.arg('port'), cf(c, 'signing_key'),
                   cf(c, '_cert_type'), cf(c, '_valid_after'), cf(c, '_valid_before'), cf(c, 'ghost_now'),
                   cf(c, 'principals'))


validate_openssh = Spec(
    PROP, 'connection', 'SSHConnection._validate_openssh_host_certificate', self_class='SSHConnection',
    params=dict(host='str', addr='str', port='int', cert='obj:SSHOpenSSHCertificate'),
    classes=CLASSES,
    stubs={'self._owner.validate_host_ca_key': owner_cb(cb_ca, 'owner_ca'),
           'cert.validate': contract_stub(lambda: cert_validate)},
    modifies=[],            # a pure lookup/decision: frame-checked on every exit path
    ensures=[('certified-key-only-under-the-CA-rule', lambda c: z3.And(c.result == cf(c, 'key'), openssh_cond(c)))],
    raises={'ValueError': lambda c: z3.Or(z3.Not(openssh_cond(c)), z3.Not(c.truthy(c.oldv('_owner'), c.old_state)))},
    always=[('trust-sets-unchanged', trust_frame)],
    returns=KEY)


# ---- SSHConnection._validate_host_key -------------------------------------------------------------------------
def decode_cert_stub(cx):
    kd = cx.args[0].z
    ref = cx.ex.new_object(cx.st, 'SSHOpenSSHCertificate', 'cert')
    g = lambda f: cx.ex.get_field(cx.st, ref, f).z
    facts = [is_cert(kd), g('is_x509_chain') == cert_x509(kd), g('signing_key') == cert_sk(kd),
             g('key') == cert_key(kd), g('_cert_type') == cert_type(kd), g('_valid_after') == cert_va(kd),
             g('_valid_before') == cert_vb(kd), g('principals') == cert_pr(kd), g('ghost_data') == kd,
             g('ghost_now') == cx.selff('ghost_now').z]
    return [Out(ret=ref, assume=facts), Out(exc=VExc('KeyImportError'), assume=[z3.Not(is_cert(kd))])]


decode_cert_stub.modifies = ()


def decode_pk_stub(cx):
    kd = cx.args[0].z
    return [Out(ret=VOpaque(pk_of(kd), 'Key'), assume=[is_pk(kd)]),
            Out(exc=VExc('KeyImportError'), assume=[z3.Not(is_pk(kd))])]


decode_pk_stub.modifies = ()


def x509_stub(cx):
    host, cert = cx.args
    kd = cx.ex.get_field(cx.st, cert, 'ghost_data').z
    ev = ('x509', tuple(cx.args))
    return [Out(ret=VOpaque(x509_key(sv(host), kd), 'Key'), assume=[x509_ok(sv(host), kd)], event=ev),
            Out(exc=VExc('ValueError'), assume=[z3.Not(x509_ok(sv(host), kd))], event=ev)]


x509_stub.modifies = ()


def decision(c, host, addr, port, kd, r=None):
    """The property's acceptance rule for blob kd; with r: "r is the accepted key", without: "some key is accepted"."""
    isr = (lambda k: r == k) if r is not None else (lambda k: z3.BoolVal(True))
    openssh = z3.And(isr(cert_key(kd)),
                     ca_rule(c, host, addr, port, cert_sk(kd), cert_type(kd), cert_va(kd), cert_vb(kd),
                             c.old('ghost_now'), cert_pr(kd)))
    x509 = z3.And(x509_ok(host, kd), isr(x509_key(host, kd)))
    plain = z3.And(is_pk(kd), isr(pk_of(kd)), key_rule(c, host, addr, port, pk_of(kd)))
    return z3.If(is_cert(kd), z3.If(cert_x509(kd), x509, openssh), plain)


def vhk_args(c):
    return sv(c.argv('host')), sv(c.argv('addr')), c.arg('port'), c.arg('key_data')


validate_host_key = Spec(
    PROP, 'connection', 'SSHConnection._validate_host_key', self_class='SSHConnection',
    params=dict(host='str', addr='str', port='int', key_data='bytes'),
    classes=CLASSES,
    stubs={'decode_ssh_certificate': decode_cert_stub, 'decode_ssh_public_key': decode_pk_stub,
           'self._validate_x509_host_certificate_chain': x509_stub,
           'self._validate_openssh_host_certificate': contract_stub(lambda: validate_openssh),
           'self._owner.validate_host_public_key': owner_cb(cb_key, 'owner_key')},
    modifies=[],            # a pure lookup/decision: frame-checked on every exit path
    ensures=[('returned-key-is-trusted-and-not-revoked', lambda c: decision(c, *vhk_args(c), r=c.result))],
    raises={'ValueError': lambda c: z3.Or(z3.Not(decision(c, *vhk_args(c))),
                                          z3.Not(c.truthy(c.oldv('_owner'), c.old_state)))},
    always=[('trust-sets-unchanged', trust_frame)],
    returns=KEY)


# ---- SSHClientConnection.validate_server_host_key -------------------------------------------------------------
def vshk_args(c):
    alias = c.oldv('_host_key_alias')
    use_alias = c.truthy(alias, c.old_state)
    host = z3.If(use_alias, alias.val.z, c.old('_host'))
    return host, c.old('_peer_addr'), c.old('_port'), c.arg('key_data')


def server_key_recorded(c):
    v = c.newv('_server_host_key')
    if isinstance(v, VOpt):
        return z3.And(z3.Not(v.isnone), v.val.z == c.result)
    return v.z == c.result


def server_key_kept(c):
    a, b = c.oldv('_server_host_key'), c.newv('_server_host_key')
    return c.eq(a, b)


validate_server_host_key = Spec(
    PROP, 'connection', 'SSHClientConnection.validate_server_host_key', self_class='SSHConnection',
    params=dict(key_data='bytes'),
    classes=CLASSES,
    stubs={'self._validate_host_key': contract_stub(lambda: validate_host_key)},
    ensures=[('server-key-accepted-for-alias-or-host-addr-port',
              lambda c: decision(c, *vshk_args(c), r=c.result)),
             ('accepted-key-recorded', server_key_recorded)],
    raises={'HostKeyNotVerifiable': lambda c: z3.And(
        z3.Or(z3.Not(decision(c, *vshk_args(c))), z3.Not(c.truthy(c.oldv('_owner'), c.old_state))),
        server_key_kept(c))},
    always=[('trust-sets-unchanged', trust_frame)],
    returns=KEY)
validate_server_host_key.runtime_class = 'SSHClientConnection'


# ---- SSHConnection._match_known_hosts : the trust sets are exactly what the matcher returned ---------------------
KSEQ = z3.SeqSort(KS)
KARR = z3.ArraySort(KS, BoolS)
set_of_keys = set_of_fn(KEY)                                # what the builtin set(<list of keys>) denotes
# S | set(list[0:n]): recursive over n (addall(S, l, 0) = S ; addall(S, l, i+1) = addall(S, l, i) | {l[i]}), instances only
addall = z3.Function('addall_Key', KARR, KSEQ, IntS, KARR)


def addall_instances(base, it, i0):
    return [addall(base, it, z3.IntVal(0)) == base,
            z3.Implies(z3.And(0 <= i0, i0 < z3.Length(it)),
                       addall(base, it, i0 + 1) == z3.Store(addall(base, it, i0), it[i0], z3.BoolVal(True)))]


# what the matcher answers for (known_hosts, host, addr, port): deterministic abstraction of match_known_hosts
ANY = sort_of('any')
OINT = sort_of('opt[int]')
MATCH_T = [KEY, KEY, KEY, 'opaque:X509Cert', 'opaque:X509Cert', 'opaque:Subject', 'opaque:Subject']
matcher_ok = z3.Function('matcher_ok', ANY, StrS, StrS, OINT, BoolS)
matcher = [z3.Function(f'matcher_result{i}', ANY, StrS, StrS, OINT, z3.SeqSort(sort_of(t)))
           for i, t in enumerate(MATCH_T)]
kh_of_str = z3.Function('known_hosts_from_str', StrS, ANY)
kh_of_bytes = z3.Function('known_hosts_from_bytes', BytesS, ANY)


def khz(v):
    """the known_hosts argument (file name, bytes, SSHKnownHosts object, callable, tuple of lists) as one value"""
    if isinstance(v, VOpt):
        v = v.val
    if isinstance(v, VStr):
        return kh_of_str(v.z)
    if isinstance(v, VBytes):
        return kh_of_bytes(v.z)
    return v.z


def matcher_args(kh, host, addr, port):
    return khz(kh), sv(host), sv(addr), to_z3(port, 'opt[int]')


def mkh_stub(cx):
    a = matcher_args(*cx.args)
    r = VTuple([VSeq(f(*a), t) for f, t in zip(matcher, MATCH_T)])
    return [Out(ret=r, assume=[matcher_ok(*a)], event=('matcher', tuple(cx.args))),
            Out(exc=VExc('ValueError'), assume=[z3.Not(matcher_ok(*a))])]


mkh_stub.modifies = ()


def matched(c, k):
    return matcher[k](*matcher_args(c.argv('known_hosts'), c.argv('host'), c.argv('addr'), c.argv('port')))


NO_KEYS = z3.K(KS, z3.BoolVal(False))


def keyset(lst):
    """the set of the keys in a list, as the recursive unfolding {} | {l[0]} | ... (= what set(l) denotes)"""
    return addall(NO_KEYS, lst, z3.Length(lst))


def mkh_loop_inv(c):
    """the trusted set holds exactly the first i matched keys - nothing from an earlier lookup"""
    i, it = c.extra['i'], c.extra['iter'].z
    n1, a1 = opt_set_parts(c.newv('_trusted_host_keys'))
    return z3.And(z3.Not(n1), a1 == addall(NO_KEYS, it, i))


def mkh_loop_lemmas(c):
    return addall_instances(NO_KEYS, c.extra['iter'].z, c.extra['i0'])


def mkh_post(c):
    """Property: the keys accepted are those the configuration lists *for that host, address and port*: each of the
    three sets is exactly the corresponding list the matcher returned for THIS (host, addr, port); nothing survives
    from an earlier lookup on the same connection (server side: one lookup per host-based auth attempt)."""
    n1, a1 = opt_set_parts(c.newv('_trusted_host_keys'))
    nc, ac = opt_set_parts(c.newv('_trusted_ca_keys'))
    return z3.And(z3.Not(n1), a1 == keyset(matched(c, 0)),
                  z3.Not(nc), ac == set_of_keys(matched(c, 1)),
                  rev_set(c.newv('_revoked_host_keys')) == set_of_keys(matched(c, 2)))


MKH_CONN = dict(CONN_TRUST, _trusted_host_key_algs='seq[bytes]',
                _x509_trusted_certs='opt[seq[opaque:X509Cert]]', _x509_revoked_certs='set[opaque:X509Cert]',
                _x509_trusted_subjects='seq[opaque:Subject]', _x509_revoked_subjects='seq[opaque:Subject]')

match_known_hosts_conn = Spec(
    PROP, 'connection', 'SSHConnection._match_known_hosts', self_class='SSHConnection',
    params=dict(known_hosts='any', host='str', addr='str', port='opt[int]'),
    classes={'SSHConnection': MKH_CONN, 'Owner': {}},
    stubs={'match_known_hosts': mkh_stub},
    loops={1: LoopSpec(header='for key in trusted_host_keys', invariant=mkh_loop_inv, lemmas=mkh_loop_lemmas)},
    ensures=[('trust-sets-are-exactly-what-the-matcher-returned-for-this-host-addr-port', mkh_post)],
    modifies=['_trusted_host_keys', '_trusted_ca_keys', '_revoked_host_keys', '_trusted_host_key_algs',
              '_x509_trusted_certs', '_x509_revoked_certs', '_x509_trusted_subjects', '_x509_revoked_subjects'],
    raises={'ValueError': lambda c: z3.And(trust_frame(c), z3.Not(matcher_ok(*matcher_args(
        c.argv('known_hosts'), c.argv('host'), c.argv('addr'), c.argv('port'))))),
            'AssertionError': lambda c: z3.And(c.is_none(c.oldv('_trusted_host_keys')), trust_frame(c))})
match_known_hosts_conn.opaque_attrs = {('Key', 'algorithm'): 'bytes', ('Key', 'sig_algorithms'): 'seq[bytes]'}


# ---- known_hosts.py : SSHKnownHosts._match / match --------------------------------------------------------------
# A known_hosts line is (marker, key, x509 cert, x509 subject) with exactly one of the last three set (load()).
ENTRY = 'tuple[opt[str],opt[opaque:Key],opt[opaque:X509Cert],opt[opaque:Subject]]'
PENTRY = 'tuple[opaque:Pat,' + ENTRY + ']'
ENT, PENT = sort_of(ENTRY), sort_of(PENTRY)
ESEQ, PSEQ = z3.SeqSort(ENT), z3.SeqSort(PENT)
OIP = sort_of('opt[opaque:IP]')
KH_FIELDS = {'_exact_entries': 'dict[str,seq[' + ENTRY + ']]', '_pattern_entries': 'seq[' + PENTRY + ']'}
RESULT_T = ('tuple[seq[opaque:Key],seq[opaque:Key],seq[opaque:Key],seq[opaque:X509Cert],seq[opaque:X509Cert],'
            'seq[opaque:Subject],seq[opaque:Subject]]')
LIST_T = [KEY, KEY, KEY, 'opaque:X509Cert', 'opaque:X509Cert', 'opaque:Subject', 'opaque:Subject']
LIST_NAMES = ['host_keys', 'ca_keys', 'revoked_keys', 'x509_certs', 'revoked_certs', 'x509_subjects',
              'revoked_subjects']

is_ip = z3.Function('is_ip_literal', StrS, BoolS)          # ip_address(text) succeeds
ip_of = z3.Function('ip_of', StrS, sort_of('opaque:IP'))
pat_matches = z3.Function('pattern_matches', sort_of('opaque:Pat'), StrS, StrS, OIP, BoolS)
# lines among the first n pattern entries whose pattern matches (recursive over n: instances only)
patsel = z3.Function('pattern_lines_matching', PSEQ, IntS, StrS, StrS, OIP, ESEQ)
int_to_str = z3.Function('int_to_str', IntS, StrS)         # the engine's str(int) inside f-strings


def _opt(sort, x):
    """(is_none, value) of a term of an opt[...] sort"""
    return sort.recognizer(0)(x), sort.accessor(1, 0)(x)


def entry_class(e):
    """The seven kinds of matching line -> [(condition, projected value)] in the order of the result tuple.
    From the known_hosts format: '@revoked' lines revoke, '@cert-authority' lines name a CA, the rest are host keys;
    X.509 certificates / subject names are trusted unless '@revoked'."""
    acc = [ENT.accessor(0, i) for i in range(4)]
    (mn, m), (kn, k), (cn, ct), (sn, sj) = [_opt(acc[i].range(), acc[i](e)) for i in range(4)]
    rev = z3.And(z3.Not(mn), m == z3.StringVal('revoked'))
    ca = z3.And(z3.Not(mn), m == z3.StringVal('cert-authority'))
    has_k, has_c = z3.Not(kn), z3.And(kn, z3.Not(cn))
    has_s = z3.And(kn, cn, z3.Not(sn))
    return [(z3.And(has_k, z3.Not(rev), z3.Not(ca)), k), (z3.And(has_k, z3.Not(rev), ca), k), (z3.And(has_k, rev), k),
            (z3.And(has_c, z3.Not(rev)), ct), (z3.And(has_c, rev), ct),
            (z3.And(has_s, z3.Not(rev)), sj), (z3.And(has_s, rev), sj)]


# SEL[k](lines, n): the kind-k projections of the first n lines, in order (recursive over n: instances only)
SEL = [z3.Function(f'lines_of_kind_{n}', ESEQ, IntS, z3.SeqSort(sort_of(t))) for n, t in zip(LIST_NAMES, LIST_T)]


def sel_all(k, lines):
    return SEL[k](lines, z3.Length(lines))


def sel_instances(it, i0):
    """sel_k(l, 0) = [] ;  sel_k(l, i+1) = sel_k(l, i) ++ [proj_k(l[i])] if l[i] is of kind k else sel_k(l, i)"""
    out = []
    inb = z3.And(0 <= i0, i0 < z3.Length(it))
    for f, (cond, val) in zip(SEL, entry_class(it[i0])):
        out.append(f(it, z3.IntVal(0)) == z3.Empty(f.range()))
        out.append(z3.Implies(z3.And(inb, cond), f(it, i0 + 1) == z3.Concat(f(it, i0), z3.Unit(val))))
        out.append(z3.Implies(z3.And(inb, z3.Not(cond)), f(it, i0 + 1) == f(it, i0)))
    return out


def patsel_instances(it, i0, h, a, ip):
    pe = it[i0]
    p, e = PENT.accessor(0, 0)(pe), PENT.accessor(0, 1)(pe)
    inb = z3.And(0 <= i0, i0 < z3.Length(it))
    return [patsel(it, z3.IntVal(0), h, a, ip) == z3.Empty(ESEQ),
            z3.Implies(z3.And(inb, pat_matches(p, h, a, ip)),
                       patsel(it, i0 + 1, h, a, ip) == z3.Concat(patsel(it, i0, h, a, ip), z3.Unit(e))),
            z3.Implies(z3.And(inb, z3.Not(pat_matches(p, h, a, ip))),
                       patsel(it, i0 + 1, h, a, ip) == patsel(it, i0, h, a, ip))]


def ip_stub(cx):
    t = cx.args[0].z
    return [Out(ret=VOpaque(ip_of(t), 'IP'), assume=[is_ip(t)]),
            Out(exc=VExc('ValueError'), assume=[z3.Not(is_ip(t))])]


ip_stub.modifies = ()


def ipz(v):
    return to_z3(v, 'opt[opaque:IP]')


def pat_matches_stub(cx):
    host, addr, ip = cx.args
    return VBool(pat_matches(cx.recv.z, host.z, addr.z, ipz(ip)))


pat_matches_stub.modifies = ()


def port_parts(v):
    """(truthy, int) of an Optional[int] port"""
    if v is VNone:
        return z3.BoolVal(False), z3.IntVal(0)
    if isinstance(v, VOpt):
        return z3.And(z3.Not(v.isnone), v.val.z != 0), v.val.z
    return v.z != 0, v.z


def lookup_keys(host, addr, port_v):
    """known_hosts format: a non-default port is looked up as '[host]:port' (empty names stay empty)"""
    pt, pz = port_parts(port_v)
    dec = lambda s_: z3.If(z3.Length(s_) > 0, z3.Concat(z3.StringVal('['), s_, z3.StringVal(']:'), int_to_str(pz)),
                           z3.StringVal(''))
    ip = z3.If(z3.Length(addr) > 0, OIP.constructor(1)(ip_of(addr)),
               z3.If(is_ip(host), OIP.constructor(1)(ip_of(host)), OIP.constructor(0)()))
    return z3.If(pt, dec(host), host), z3.If(pt, dec(addr), addr), ip


def matching_lines(c, host, addr, port_v):
    """all stored lines that apply to (host, addr, port), in file order per category: exact host, exact addr, patterns"""
    hk, ak, ip = lookup_keys(host, addr, port_v)
    m = c.oldv('_exact_entries')
    ex = lambda k: z3.If(z3.Select(m.dom, k), z3.Select(m.val, k), z3.Empty(ESEQ))
    pats = c.old('_pattern_entries')
    return z3.Concat(ex(hk), ex(ak), patsel(pats, z3.Length(pats), hk, ak, ip))


def lseq(c, v, t):
    """z3 sequence of a list value (concrete list cell or symbolic sequence)"""
    d = c.ex.deref(c.new_state, v)
    return d.z if isinstance(d, VSeq) else to_z3(d, 'seq[' + t + ']')


def port_arg(c):
    if c.args and 'port' not in c.args:
        return VNone                      # modular call without the argument: the declared default
    return c.argv('port')


def kh_frame(c):
    a, b = c.oldv('_exact_entries'), c.newv('_exact_entries')
    return z3.And(a.dom == b.dom, a.val == b.val, c.old('_pattern_entries') == c.new('_pattern_entries'))


def kh_match_post(c):
    M = matching_lines(c, c.arg('host'), c.arg('addr'), port_arg(c))
    return z3.And(*[lseq(c, c.result_v.items[k], LIST_T[k]) == sel_all(k, M) for k in range(7)])


def gen_i0(i):
    """the index of the element just consumed: i = i0 + 1 (destructured), or i itself at entry / exit"""
    if z3.is_add(i) and i.num_args() == 2 and z3.is_int_value(i.arg(1)) and i.arg(1).as_long() == 1:
        return i.arg(0)
    return i


def kh_gen_inv(c):
    i, it, acc = c.extra['i'], c.extra['iter'].z, c.extra['acc'].z
    return acc == patsel(it, i, c.local('host'), c.local('addr'), ipz(c.localv('ip')))


def kh_gen_lemmas(c):
    i, it = c.extra['i'], c.extra['iter'].z
    return patsel_instances(it, gen_i0(i), c.local('host'), c.local('addr'), ipz(c.localv('ip')))


def kh_loop_inv(c):
    i, it = c.extra['i'], c.extra['iter'].z
    return z3.And(*[lseq(c, c.localv(n), t) == f(it, i) for n, t, f in zip(LIST_NAMES, LIST_T, SEL)])


def kh_loop_lemmas(c):
    return sel_instances(c.extra['iter'].z, c.extra['i0'])


_g1 = LoopSpec(invariant=kh_gen_inv, lemmas=kh_gen_lemmas)
_g1.acc_type = ENTRY

kh_match = Spec(
    PROP, 'known_hosts', 'SSHKnownHosts._match', self_class='SSHKnownHosts',
    params=dict(host='str', addr='str', port='opt[int]'),
    classes={'SSHKnownHosts': KH_FIELDS},
    stubs={'ip_address': ip_stub, 'entry.matches': pat_matches_stub},
    modifies=[],            # a pure lookup/decision: frame-checked on every exit path
    loops={'g1': _g1,
           1: LoopSpec(header='for (marker, key, cert, subject) in matches', invariant=kh_loop_inv,
                       lemmas=kh_loop_lemmas)},
    local_types={n: 'seq[' + t + ']' for n, t in zip(LIST_NAMES, LIST_T)},
    ensures=[('seven-lists-classify-exactly-the-matching-lines-by-marker', kh_match_post)],
    always=[('lookup-does-not-change-the-stored-entries', kh_frame)],
    raises={'ValueError': lambda c: z3.And(z3.Length(c.arg('addr')) > 0, z3.Not(is_ip(c.arg('addr')))),
            'AssertionError': True},
    returns=RESULT_T)
kh_match.alias_map_lists = True
kh_match.precise_fstrings = True


# ---- SSHKnownHosts.match : port fallback ------------------------------------------------------------------------
def lookup_result(c, port_v):
    M = matching_lines(c, c.arg('host'), c.arg('addr'), port_v)
    return [sel_all(k, M) for k in range(7)]


TRUSTING, REVOKING = (0, 1, 3, 5), (2, 4, 6)


def _fallback_parts(c):
    withp, nop = lookup_result(c, c.argv('port')), lookup_result(c, VNone)
    pt, _pz = port_parts(c.argv('port'))
    nothing = z3.And(*[z3.Length(withp[k]) == 0 for k in TRUSTING])
    res = [lseq(c, c.result_v.items[k], LIST_T[k]) for k in range(7)]
    return withp, nop, z3.And(pt, nothing), res


def has(seq, x):
    return z3.Contains(seq, z3.Unit(x))


def subseteq(a, b):
    """every element of list a occurs in list b (x is a free constant of the goal, i.e. universally quantified)"""
    x = z3.Const(fresh_name('x'), a.sort().basis())
    return z3.Implies(has(a, x), has(b, x))


def kh_match_fallback_post(c):
    """Documented rule: a lookup with a non-default port that finds nothing that *trusts* the host (no host key, CA,
    X.509 certificate or subject line; revocations alone do not count) is repeated without the port."""
    withp, nop, fb, res = _fallback_parts(c)
    return z3.And(*[z3.Implies(fb, res[k] == nop[k]) for k in TRUSTING] +
                  [z3.Implies(z3.Not(fb), res[k] == withp[k]) for k in range(7)])


def kh_fallback_revocations(c):
    """after the retry the port-less revocations apply, and no revocation is invented"""
    withp, nop, fb, res = _fallback_parts(c)
    out = []
    for k in REVOKING:
        x = z3.Const(fresh_name('x'), res[k].sort().basis())
        out.append(z3.Implies(fb, subseteq(nop[k], res[k])))
        out.append(z3.Implies(z3.And(fb, has(res[k], x)), z3.Or(has(nop[k], x), has(withp[k], x))))
    return z3.And(*out)


def kh_revocations_survive(c):
    """Property: the key must not be revoked *for that host, address and port*.  Whatever the lookup for
    '[host]:port' revoked stays revoked in the answer, also when the trusting lines come from the port-less retry.
    (Finding on the pinned tree: the retry replaces all seven lists; see notes/findings/c04_port_revocation_lost.py)"""
    withp, _nop, _fb, res = _fallback_parts(c)
    return z3.And(*[subseteq(withp[k], res[k]) for k in REVOKING])


kh_match_public = Spec(
    PROP, 'known_hosts', 'SSHKnownHosts.match', self_class='SSHKnownHosts',
    params=dict(host='str', addr='str', port='opt[int]'),
    classes={'SSHKnownHosts': KH_FIELDS},
    stubs={'self._match': contract_stub(lambda: kh_match)},
    modifies=[],            # a pure lookup/decision: frame-checked on every exit path
    ensures=[('port-lookup-with-fallback-to-portless', kh_match_fallback_post),
             ('fallback-keeps-portless-revocations-invents-none', kh_fallback_revocations),
             ('port-specific-revocations-survive-fallback', kh_revocations_survive)],
    always=[('lookup-does-not-change-the-stored-entries', kh_frame)],
    raises={'ValueError': True, 'AssertionError': True},
    returns=RESULT_T)


# ---- SSHClientConnection._connection_made : which (host, addr, port) the trust sets are computed for -----------
def _known_hosts_region(fn):
    """the statement `if self._known_hosts is None: ... else: ... self._match_known_hosts(...)` (the rest of the
    function - keysign keys, algorithm lists, logging - does not touch the trust sets and is not analysed)"""
    import ast
    for st_ in fn.body:
        if isinstance(st_, ast.If) and any(isinstance(n, ast.Attribute) and n.attr in
                                           ('_trusted_host_keys', '_trusted_ca_keys', '_match_known_hosts')
                                           for n in ast.walk(st_)):
            return [st_]
    raise Unsupported('_connection_made: the known_hosts statement was not found')


def fs_stub(cx):
    return cx.fresh('bool', 'fs')


fs_stub.modifies = ()


def cm_args(c):
    """the matcher is asked about the alias if there is one, else the host; the peer address; the port unless default"""
    alias = c.oldv('_host_key_alias')
    host = z3.If(c.truthy(alias, c.old_state), alias.val.z, c.old('_host'))
    port = z3.If(c.old('_port') != 22, OINT.constructor(1)(c.old('_port')), OINT.constructor(0)())
    return khz(c.newv('_known_hosts')), host, c.old('_peer_addr'), port


def cm_post(c):
    kh_none = c.is_none(c.oldv('_known_hosts'))
    n1, a1 = opt_set_parts(c.newv('_trusted_host_keys'))
    nc, ac = opt_set_parts(c.newv('_trusted_ca_keys'))
    a = cm_args(c)
    m = [f(*a) for f in matcher]
    return z3.And(
        # checking is disabled exactly when the application said known_hosts=None
        n1 == kh_none, nc == kh_none,
        z3.Implies(z3.Not(kh_none), z3.And(a1 == keyset(m[0]), ac == set_of_keys(m[1]),
                                           rev_set(c.newv('_revoked_host_keys')) == set_of_keys(m[2]))),
        z3.Implies(kh_none, rev_set(c.newv('_revoked_host_keys')) == rev_set(c.oldv('_revoked_host_keys'))))


connection_made = Spec(
    PROP, 'connection', 'SSHClientConnection._connection_made', self_class='SSHConnection',
    classes={'SSHConnection': dict(MKH_CONN, _known_hosts='opt[any]'), 'Owner': {}, 'PathObj': {}},
    region=_known_hosts_region, falsy_sorts={'Any'}, globals={'os': VTag('class:os')},
    stubs={'Path': ret('obj:PathObj', 'path'), 'Path().expanduser': ret('obj:PathObj', 'default_known_hosts'),
           'default_known_hosts.is_file': fs_stub, 'os.access': fs_stub,
           'self._match_known_hosts': contract_stub(lambda: match_known_hosts_conn)},
    # __init__ starts every connection with empty (not None) sets
    requires=lambda c: z3.And(z3.Not(c.is_none(c.oldv('_trusted_host_keys'))),
                              z3.Not(c.is_none(c.oldv('_trusted_ca_keys')))),
    ensures=[('trust-sets-computed-for-alias-or-host-peer-addr-and-nondefault-port', cm_post)],
    raises={'ValueError': True})
connection_made.runtime_class = 'SSHClientConnection'
connection_made.no_replay = True          # a region of the function cannot be replayed on its own


# ---- known_hosts.match_known_hosts : the dispatcher hands the SAME (host, addr, port) to SSHKnownHosts.match -------
def mkhf_loaded_stub(cx):
    """read_known_hosts(file names) / import_known_hosts(text): a loaded SSHKnownHosts object (load() is under contract
    below, file access is not) or a parse error"""
    return [Out(ret=cx.ex.new_object(cx.st, 'SSHKnownHosts', 'loaded'), event=('loaded', tuple(cx.args))),
            Out(exc=VExc('ValueError')), Out(exc=VExc('OSError'))]


mkhf_loaded_stub.modifies = ()


def mkhf_post(kind):
    def post(c):
        calls = [x for x in c.calls() if x['key'] == 'known_hosts.match']
        if len(calls) != 1:
            return z3.BoolVal(False)
        call = calls[0]
        a = call['args']
        if len(a) != 3 or call.get('kwargs'):
            return z3.BoolVal(False)
        # asked about exactly this host, address and port ...
        conj = [c.eq(a[0], c.argv('host')), c.eq(a[1], c.argv('addr')), c.eq(a[2], c.argv('port'))]
        # ... of the object given (or of the one loaded from the given file names / bytes) ...
        if kind == 'obj':
            conj.append(z3.BoolVal(call['recv'].addr == c.argv('known_hosts').addr))
        else:
            ev = c.events('loaded')
            conj.append(z3.BoolVal(len(ev) == 1 and call['recv'].addr == c.calls()[0]['ret'].addr))
        # ... and the answer is handed back unchanged
        res, ret = c.result_v, call['ret']
        conj += [lseq(c, res.items[k], LIST_T[k]) == lseq(c, ret.items[k], LIST_T[k]) for k in range(7)]
        return z3.And(*conj)
    return post


def _mk_mkhf(kind, typ):
    sp = Spec(
        PROP, 'known_hosts', 'match_known_hosts',
        params=dict(known_hosts=typ, host='str', addr='str', port='opt[int]'),
        classes={'SSHKnownHosts': KH_FIELDS},
        stubs={'known_hosts.match': contract_stub(lambda: kh_match_public),
               'read_known_hosts': mkhf_loaded_stub, 'import_known_hosts': mkhf_loaded_stub},
        loops={1: LoopSpec(invariant=lambda c: z3.BoolVal(True))},
        ensures=[('same-host-addr-port-handed-to-match-and-its-answer-returned', mkhf_post(kind))],
        raises={'ValueError': True, 'AssertionError': True, 'OSError': True, 'UnicodeDecodeError': True},
        cases=[(kind, {})],          # only names the obligations after the argument form
        returns=RESULT_T)
    sp.opaque_attrs = {('X509Cert', 'is_x509'): 'bool'}
    sp.no_replay = True       # polymorphic argument: one Spec per documented form (object / file name / bytes)
    return sp


match_known_hosts_obj = _mk_mkhf('obj', 'obj:SSHKnownHosts')
match_known_hosts_file = _mk_mkhf('file', 'str')
match_known_hosts_bytes = _mk_mkhf('bytes', 'bytes')
# list of file names (what SSHClientConnectionOptions.prepare builds from the config).  An EMPTY list is not this form:
# it is read as "preloaded lists of keys" with nothing in them (nothing trusted: fail-safe), outside this Spec
match_known_hosts_files = _mk_mkhf('files', 'seq[str]')
match_known_hosts_files.requires = lambda c: z3.Length(c.arg('known_hosts')) > 0


# ---- known_hosts.read_known_hosts : every file of the list is loaded, in order, into the one object --------------
# (user file(s) followed by global file(s): a line - e.g. an @revoked line - of ANY file reaches the matcher; that
#  load() keeps what earlier calls stored is the C17 contract of load / _add_exact / _add_pattern adopted below)
file_text = z3.Function('file_text', StrS, StrS)                       # read_file(name, 'r') when it succeeds
texts_of = z3.Function('texts_of_files', z3.SeqSort(StrS), IntS, z3.SeqSort(StrS))   # recursive over n: instances


def texts_instances(files, i0):
    return [texts_of(files, z3.IntVal(0)) == z3.Empty(z3.SeqSort(StrS)),
            z3.Implies(z3.And(0 <= i0, i0 < z3.Length(files)),
                       texts_of(files, i0 + 1) == z3.Concat(texts_of(files, i0), z3.Unit(file_text(files[i0]))))]


def new_kh_stub(cx):
    if cx.args or cx.kwargs:
        raise Unsupported('SSHKnownHosts(data) inside read_known_hosts')
    ref = cx.ex.new_object(cx.st, 'SSHKnownHosts', 'fresh_known_hosts')
    return [Out(ret=ref, assume=[z3.Length(cx.ex.get_field(cx.st, ref, 'ghost_loaded').z) == 0])]


new_kh_stub.modifies = ()


def read_file_stub(cx):
    name = cx.args[0].z
    t = cx.fresh('str', 'text')
    return [Out(ret=t, assume=[t.z == file_text(name)]), Out(exc=VExc('OSError'))]


read_file_stub.modifies = ()


def load_log_stub(cx):
    """known_hosts.load(text): ghost log of the texts loaded into this object, in order (or a parse error)"""
    cur = cx.ex.get_field(cx.st, cx.recv, 'ghost_loaded')
    nv = VSeq(z3.Concat(cur.z, z3.Unit(cx.args[0].z)), 'str')
    return [Out(osets=[(cx.recv, 'ghost_loaded', nv)]), Out(exc=VExc('ValueError'))]


load_log_stub.modifies = ()
RKH_CLASSES = {'SSHKnownHosts': {'ghost_loaded': 'seq[str]'}}


def rkh_loaded(c, ref):
    return c.ex.get_field(c.new_state, ref, 'ghost_loaded').z


def rkh_loop_inv(c):
    it, i = c.extra['iter'].z, c.extra['i']
    return rkh_loaded(c, c.localv('known_hosts')) == texts_of(it, i)


def _mk_rkh(kind, typ):
    def post(c):
        files = c.arg('filelist')
        if kind == 'one':
            want = z3.Unit(file_text(files))
        else:
            want = texts_of(files, z3.Length(files))
        return rkh_loaded(c, c.result_v) == want
    sp = Spec(
        PROP, 'known_hosts', 'read_known_hosts', params=dict(filelist=typ), classes=RKH_CLASSES,
        stubs={'SSHKnownHosts': new_kh_stub, 'read_file': read_file_stub, 'known_hosts.load': load_log_stub},
        loops={1: LoopSpec(header='for filename in filelist', invariant=rkh_loop_inv,
                           lemmas=lambda c: texts_instances(c.extra['iter'].z, c.extra['i0']))} if kind == 'list' else {},
        lemmas=(lambda c: texts_instances(c.arg('filelist'), z3.Length(c.arg('filelist')))) if kind == 'list' else None,
        ensures=[('every-file-of-the-list-is-loaded-once-in-order-into-the-returned-object', post)],
        raises={'OSError': True, 'ValueError': True},
        local_types={'known_hosts': 'obj:SSHKnownHosts'},
        cases=[(kind, {})], returns='obj:SSHKnownHosts')
    if kind == 'list':
        # the object behind the local is changed by load() in the body: the loop head must not remember its log
        sp.loops[1].havoc_locals = ['known_hosts']
    sp.no_replay = True
    return sp


read_known_hosts_one = _mk_rkh('one', 'str')
read_known_hosts_list = _mk_rkh('list', 'seq[str]')


# ---- SSHClientConnectionOptions.prepare : is there host key checking at all? -------------------------------------
# Documented (SSHClientConnectionOptions, known_hosts): not given -> the files named by the config (UserKnownHostsFile
# followed by GlobalKnownHostsFile; none configured -> an empty list, which _connection_made turns into the default
# ~/.ssh/known_hosts); checking is off only for an explicit known_hosts=None or "UserKnownHostsFile none".
PY = pyobj_sort()
STRL = z3.SeqSort(StrS)


def _prepare_region(fn):
    import ast
    out = [st_ for st_ in fn.body
           if any(isinstance(n, ast.Attribute) and isinstance(n.ctx, ast.Store) and n.attr in ('known_hosts', 'host_key_alias')
                  for n in ast.walk(st_))]
    if not out:
        raise Unsupported('prepare: no statement storing known_hosts / host_key_alias found')
    return out


def _prepare_params(typ):
    from pyvc import extract
    fn = extract.get_module('connection').get_function('SSHClientConnectionOptions.prepare')
    names = [a.arg for a in fn.args.args][1:] + [a.arg for a in fn.args.kwonlyargs]
    return dict({n: 'any' for n in names}, config='obj:Config', known_hosts=typ, host_key_alias='pyobj')


def cfg(c, key):
    """(configured?, value) of a config option"""
    m = c.oldv('_options', ref=c.argv('config'))
    k = z3.StringVal(key)
    return z3.Select(m.dom, k), z3.Select(m.val, k)


def cfg_wf(c):
    """C18 (config.py option table): the two known-hosts options are string lists, HostKeyAlias a string"""
    conj = []
    for key, test in (('UserKnownHostsFile', PY.is_py_strlist), ('GlobalKnownHostsFile', PY.is_py_strlist),
                      ('HostKeyAlias', PY.is_py_str)):
        has, v = cfg(c, key)
        conj.append(z3.Implies(has, test(v)))
    return z3.And(conj)


def pyz(c, v):
    """a stored value as a pyobj term (None, (), str, list of str ...)"""
    v = c.ex.deref(c.new_state, v)
    if isinstance(v, VList):
        return PY.py_strlist(to_z3(v, 'seq[str]'))
    return py_inject(v)


def prepare_known_hosts_post(kind):
    def post(c):
        new = c.newv('known_hosts')
        if kind != 'pyobj':
            # a bytes blob / SSHKnownHosts object / callable is never the "not given" marker: stored as given
            return c.eq(new, c.argv('known_hosts'))
        arg = c.arg('known_hosts')
        given = arg != PY.py_tuple0
        uh, uv = cfg(c, 'UserKnownHostsFile')
        gh, gv = cfg(c, 'GlobalKnownHostsFile')
        user = z3.If(uh, PY.py_l(uv), z3.Empty(STRL))
        glob = z3.If(gh, PY.py_l(gv), z3.Empty(STRL))
        off = z3.And(uh, z3.Length(PY.py_l(uv)) == 0)            # "UserKnownHostsFile none"
        nz = pyz(c, new)
        return z3.And(
            z3.Implies(given, nz == arg),
            # checking exists unless explicitly disabled
            (nz == PY.py_none) == z3.Or(arg == PY.py_none, z3.And(z3.Not(given), off)),
            # not given, not disabled: every configured user file, then every configured global file
            z3.Implies(z3.And(z3.Not(given), z3.Not(off)), nz == PY.py_strlist(z3.Concat(user, glob))))
    return post


def prepare_alias_post(c):
    arg = c.arg('host_key_alias')
    has, v = cfg(c, 'HostKeyAlias')
    nz = pyz(c, c.newv('host_key_alias'))
    return z3.And(z3.Implies(arg != PY.py_tuple0, nz == arg),
                  z3.Implies(arg == PY.py_tuple0, nz == z3.If(has, v, PY.py_none)))


def _mk_prepare(kind, typ, classes=None):
    sp = Spec(
        PROP, 'connection', 'SSHClientConnectionOptions.prepare', self_class='Opts',
        params=_prepare_params(typ),
        classes=dict({'Opts': {'known_hosts': 'pyobj', 'host_key_alias': 'pyobj'},
                      'Config': {'_options': 'dict[str,pyobj]'}}, **(classes or {})),
        region=_prepare_region,
        inline={'config.get': ('config', 'SSHConfig.get')},
        requires=cfg_wf,
        ensures=[('checking-is-off-only-when-explicitly-disabled-else-all-configured-files', prepare_known_hosts_post(kind)),
                 ('host-key-alias-is-the-argument-else-the-config-value', prepare_alias_post)],
        cases=[(kind, {})])
    sp.no_replay = True
    sp.runtime_class = 'SSHClientConnectionOptions'
    return sp


prepare_pyobj = _mk_prepare('pyobj', 'pyobj')
prepare_bytes = _mk_prepare('bytes', 'bytes')
prepare_object = _mk_prepare('object', 'obj:SSHKnownHosts', {'SSHKnownHosts': {}})


# ---- the default application callbacks: an application that overrides nothing accepts no unlisted key -------------
def _returns_false(c):
    return z3.And(z3.BoolVal(isinstance(c.result_v, VBool)), z3.Not(c.result))


default_cb_key = Spec(
    PROP, 'client', 'SSHClient.validate_host_public_key', self_class='SSHClient',
    params=dict(host='str', addr='str', port='int', key=KEY), classes={'SSHClient': {}},
    ensures=[('default-answer-is-no', _returns_false)], modifies=[])
default_cb_ca = Spec(
    PROP, 'client', 'SSHClient.validate_host_ca_key', self_class='SSHClient',
    params=dict(host='str', addr='str', port='int', key=KEY), classes={'SSHClient': {}},
    ensures=[('default-answer-is-no', _returns_false)], modifies=[])


# ---- SSHConnection.connection_made : the address half of "host, address and port" is the PEER's address ---------
def _peername_region(fn):
    import ast
    out = [st_ for st_ in fn.body if any(isinstance(n, ast.Name) and n.id == 'peername' for n in ast.walk(st_))]
    if not out:
        raise Unsupported('connection_made: no statement about peername found')
    return out


def extra_info_stub(cx):
    """transport.get_extra_info(name): None or the socket address tuple (addr, port[, flow, scope]) for that name"""
    name = concrete_str(cx.args[0])
    if name is None:
        raise Unsupported('get_extra_info with a symbolic name')
    v = cx.fresh('opt[tuple[str,int]]', 'info_' + name)
    return [Out(ret=v, event=('extra_info', (VStr(name), v)))]


extra_info_stub.modifies = ()


def peer_addr_post(c):
    evs = [e for e in c.events('extra_info') if concrete_str(e[1][0]) == 'peername']
    if len(evs) != 1:
        return z3.BoolVal(False)
    info = evs[0][1][1]
    known = c.truthy(info)
    addr, port = info.val.items
    return z3.And(z3.Implies(known, z3.And(c.new('_peer_addr') == addr.z, c.new('_peer_port') == port.z)),
                  z3.Implies(z3.Not(known), z3.And(c.new('_peer_addr') == c.old('_peer_addr'),
                                                   c.new('_peer_port') == c.old('_peer_port'))))


connection_made_peer = Spec(
    PROP, 'connection', 'SSHConnection.connection_made', self_class='SSHConnection',
    params=dict(transport='obj:Transport'),
    classes={'SSHConnection': {'_peer_addr': 'str', '_peer_port': 'int', '_local_addr': 'str', '_local_port': 'int'},
             'Transport': {}},
    region=_peername_region,
    stubs={'transport.get_extra_info': extra_info_stub},
    ensures=[('peer-address-and-port-are-the-transport-peername', peer_addr_post)],
    modifies=['_peer_addr', '_peer_port'])
connection_made_peer.no_replay = True


# ---- producers of the facts the decisions rely on, adopted from the sidecars that own them ----------------------
# The Specs are the ones written for C16 (certificate decoding: CA signature check) and C17 (known_hosts parsing and
# host pattern matching).  They are re-registered under C04, so ./check C04 generates and discharges their obligations
# from the current source as well (a change that breaks them is a C04 violation too).
def _adopt(modname, want):
    import copy
    import importlib
    import sys
    sys.modules.pop(modname, None)          # re-execute: the registry was cleared by the driver
    before = len(Spec.registry)
    mod = importlib.import_module(modname)
    own = [sp for sp in Spec.registry[before:] if sp.prop != PROP]
    out = []
    for sp in own:
        if want(sp):
            cl = copy.copy(sp)
            cl.prop = PROP
            Spec.registry.append(cl)
            out.append(cl)
    return mod, out


# C16: certificate decoding (CA signature check) and the per-type key equality that `key in trusted / revoked` rests on
_c16, ADOPTED_C16 = _adopt('contracts.c16', lambda sp: sp.qualname in (
    'SSHOpenSSHCertificate.construct', 'decode_ssh_certificate') or sp.qualname.endswith('.__eq__'))
_c17, ADOPTED_C17 = _adopt('contracts.c17', lambda sp: (
    sp.module == 'pattern' or (sp.module == 'known_hosts' and sp.qualname not in (
        'SSHKnownHosts._match', 'SSHKnownHosts.match'))))
ASSUMPTIONS += [a for a in getattr(_c17, 'ASSUMPTIONS', []) if 'layering by identification' in a or
                'recursive spec functions (pos/neg' in a]
ASSUMPTIONS += [a for a in getattr(_c16, 'ASSUMPTIONS', []) if 'signature primitives' in a or
                'registered OpenSSH certificate classes' in a]


# ---- extra checks: frame scan over the whole package + a native purity test of the lookup -----------------------
TRUST_FIELDS = ('_trusted_host_keys', '_trusted_ca_keys', '_revoked_host_keys')
TRUST_WRITERS = {('SSHConnection', '__init__'), ('SSHConnection', '_match_known_hosts'),
                 ('SSHClientConnection', '_connection_made')}
# the fields that select WHICH host the sets are computed for (cm_post) and decided for (validate_server_host_key):
# written only while the connection is set up, i.e. before the known_hosts statement of _connection_made
SELECT_FIELDS = ('_host', '_port', '_peer_addr', '_host_key_alias', '_known_hosts')
SELECT_WRITERS = {('SSHConnection', '__init__'), ('SSHClientConnection', '__init__'),
                  ('SSHConnection', 'connection_made'), ('SSHClientConnection', '_connection_made')}
SELECT_CLASSES = ('SSHConnection', 'SSHClientConnection')
KH_STORE = ('_exact_entries', '_pattern_entries')
KH_WRITERS = {('SSHKnownHosts', '__init__'), ('SSHKnownHosts', '_add_exact'), ('SSHKnownHosts', '_add_pattern')}
MUTATORS = ('add', 'update', 'clear', 'discard', 'remove', 'pop', 'append', 'extend', 'insert', 'setdefault',
            'popitem', 'difference_update', 'intersection_update', 'symmetric_difference_update', 'sort', 'reverse')

_PURITY_SCRIPT = r'''
import copy, json, asyncssh
k = [asyncssh.generate_private_key('ssh-ed25519').export_public_key('openssh').decode().strip() for _ in range(4)]
text = f'h1 {k[0]}\n10.0.0.1 {k[1]}\n*.example {k[2]}\n@revoked h1 {k[3]}\n[h1]:2222 {k[1]}\n'
fresh = lambda: asyncssh.import_known_hosts(text)
bad = []
for first, second in [(('h1', '10.0.0.1', None), ('h1', '10.0.0.9', None)),
                      (('h1', '10.0.0.1', 2222), ('h1', '', 2222)),
                      (('a.example', '10.0.0.1', None), ('10.0.0.1', '', None))]:
    obj = fresh()
    before = copy.deepcopy((obj._exact_entries, [e for _p, e in obj._pattern_entries]))
    obj.match(*first)
    after = (obj._exact_entries, [e for _p, e in obj._pattern_entries])
    if before != after:
        bad.append({'lookup': list(first), 'what': 'stored entries changed by a lookup'})
    if obj.match(*second) != fresh().match(*second):
        bad.append({'history': [list(first), list(second)], 'what': 'a lookup changed the result of a later lookup'})
print(json.dumps(bad))
'''


def extra_checks(tier, seed):
    import ast
    import glob
    import json
    import os
    import subprocess
    from pyvc import extract
    stray = []
    for path in sorted(glob.glob(os.path.join(extract.PKG, '*.py'))):
        tree = ast.parse(open(path, encoding='utf-8').read())
        # every function of the package: methods (owner = class) and module-level functions (owner = '<module>');
        # nested functions are walked with their enclosing function.  setattr()/__dict__ writes stay invisible.
        units = [(cls.name, fn) for cls in ast.walk(tree) if isinstance(cls, ast.ClassDef)
                 for fn in cls.body if isinstance(fn, (ast.FunctionDef, ast.AsyncFunctionDef))]
        units += [('<module>', fn) for fn in tree.body if isinstance(fn, (ast.FunctionDef, ast.AsyncFunctionDef))]
        for owner, fn in units:
            where = (owner, fn.name)
            for n in ast.walk(fn):
                tg = n.targets if isinstance(n, (ast.Assign, ast.Delete)) else \
                    [n.target] if isinstance(n, (ast.AugAssign, ast.AnnAssign)) else []
                attrs = [a for t in tg for a in ast.walk(t) if isinstance(a, ast.Attribute)]
                if isinstance(n, ast.Call) and isinstance(n.func, ast.Attribute) and n.func.attr in MUTATORS:
                    attrs += [a for a in ast.walk(n.func.value) if isinstance(a, ast.Attribute)]
                for a in attrs:
                    on_self = isinstance(a.value, ast.Name) and a.value.id == 'self'
                    select_hit = a.attr in SELECT_FIELDS and where not in SELECT_WRITERS and \
                        (owner in SELECT_CLASSES or not on_self)
                    if (a.attr in TRUST_FIELDS and where not in TRUST_WRITERS) or \
                            (a.attr in KH_STORE and where not in KH_WRITERS) or select_hit:
                        stray.append(f'{os.path.basename(path)}:{n.lineno} {owner}.{fn.name} writes {a.attr}')
    lemmas = [{'name': f'{PROP}.scan#frame(writers-of-trust-sets-and-known-hosts-store-are-the-listed-ones)',
               'verdict': 'proved' if not stray else 'refuted', 'detail': stray[:10], 'backend': 'AST scan',
               'replayed': True}]
    # in _connection_made the selecting fields may only be written BEFORE the analysed known_hosts statement
    cm = extract.get_module('connection').get_function('SSHClientConnection._connection_made')
    region = _known_hosts_region(cm)[0]
    late = [f'connection.py:{n.lineno} _connection_made writes {a.attr} at/after the known_hosts statement'
            for st_ in cm.body if st_.lineno > region.lineno for n in ast.walk(st_)
            if isinstance(n, (ast.Assign, ast.AugAssign, ast.AnnAssign))
            for t in (n.targets if isinstance(n, ast.Assign) else [n.target]) for a in ast.walk(t)
            if isinstance(a, ast.Attribute) and a.attr in SELECT_FIELDS + TRUST_FIELDS]
    late += [f'connection.py:{n.lineno} _connection_made writes {a.attr} inside the known_hosts statement'
             for n in ast.walk(region) if isinstance(n, (ast.Assign, ast.AugAssign, ast.AnnAssign))
             for t in (n.targets if isinstance(n, ast.Assign) else [n.target]) for a in ast.walk(t)
             if isinstance(a, ast.Attribute) and a.attr in SELECT_FIELDS and a.attr != '_known_hosts']
    lemmas.append({'name': f'{PROP}.scan#frame(host-port-addr-alias-fixed-once-the-trust-sets-are-computed)',
                   'verdict': 'proved' if not late else 'refuted', 'detail': late[:10], 'backend': 'AST scan',
                   'replayed': True})
    # prefix facts instantiated by the adopted C17 loop invariants: proved once for arbitrary s, i
    for name, goal in _c17.F.generic_prefix_lemmas():
        v, why = _c17._prove(goal)
        lemmas.append({'name': f'{PROP}.lemma#{name}', 'verdict': v, 'reason': why})
    bounded = []
    try:
        env = dict(os.environ, PYTHONPATH=extract.REPO)
        p = subprocess.run(['/venv/bin/python', '-c', _PURITY_SCRIPT], capture_output=True, text=True, env=env,
                           timeout=60, cwd='/')
        bad = json.loads(p.stdout) if p.returncode == 0 else None
        bounded.append({'name': f'{PROP}.known_hosts.SSHKnownHosts.match#bounded(lookup-history-does-not-change-results)',
                        'cases': 3, 'violations': bad or [],
                        'note': 'native run on a 5-line table' if bad is not None else 'not run: ' + p.stderr[-200:]})
    except Exception as e:      # harness trouble is never a verdict
        bounded.append({'name': f'{PROP}.known_hosts.SSHKnownHosts.match#bounded(lookup-history-does-not-change-results)',
                        'cases': 0, 'violations': [], 'note': 'not run: ' + repr(e)})
    return {'lemmas': lemmas, 'bounded': bounded}
