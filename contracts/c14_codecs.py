"""C14 (codec part) - attribute / name / vfs / limits codecs as discharged obligations.

For each record type R and protocol version v:   R.decode(SSHPacket(pre ++ R.encode(a, v) ++ rest) at |pre|, v)
returns norm_v(a) and leaves exactly `rest`.  Shape of the proof:
  * enc_spec(a, v): a pure spec function over Seq(Int), written from the filexfer drafts (-02 for v3, -05/-13 for
    v4..v6), see WIRE below;
  * `encode` is proved to return enc_spec(a, v);
  * `decode` is proved, for a packet whose payload at the read position is enc_spec(a, v) ++ rest, to return an
    object whose fields are norm_v(a) and to leave the read position at `rest`;
  * the round trip is the composition of the two contracts (lemma `round-trip` in extra_checks: the ensures of
    encode is literally the requires of decode).
"""
import ast
import z3
from pyvc.contracts import *
from pyvc.engine import LoopSpec, Out, Record, Prove, wrap_const, zt
from pyvc.values import *
from pyvc.builtins_model import be, unbe
from pyvc import extract
from .common import *

PROP = 'C14'
CODEC_NOTES = []        # what stays bounded / trusted (appended to the sidecar's ASSUMPTIONS)


def beN(w, v):
    return be(z3.IntVal(w), v if not isinstance(v, int) else z3.IntVal(v))


def be_axioms(w, v):
    """definitional instances of the big-endian spec functions for one term be(w, v) with 0 <= v < 256^w"""
    t = beN(w, v)
    return [z3.Length(t) == w, unbe(t) == v]


def record_fields(cls):
    """[(field, default AST or None)] of a misc.Record subclass, in annotation order, from the real source"""
    mod = extract.get_module('sftp')
    out = []
    for n in mod.classes[cls].body:
        if isinstance(n, ast.AnnAssign) and isinstance(n.target, ast.Name):
            out.append((n.target.id, n.value))
    return out


def record_ctor_stub(cls, types):
    """misc.Record.__init__ / _RecordMeta (trusted model, misc.py:640-671): fields are the class annotations in
    order; every field starts as its class-level default (None if there is none); positional arguments then
    overwrite the first fields in order, keyword arguments by name"""
    def stub(cx):
        mod = extract.get_module('sftp')
        vals = {}
        for f, dflt in record_fields(cls):
            if dflt is None:
                vals[f] = VNone
            elif isinstance(dflt, ast.Tuple) and not dflt.elts:
                vals[f] = VTuple([])
            elif isinstance(dflt, ast.Call):
                vals[f] = VTag('default:' + ast.unparse(dflt))       # e.g. SFTPName.attrs = SFTPAttrs()
            else:
                vals[f] = wrap_const(_cconst(mod, dflt))
        names = [f for f, _d in record_fields(cls)]
        if len(cx.args) > len(names):
            raise Unsupported('too many constructor arguments')
        for f, v in zip(names, cx.args):
            vals[f] = v
        for k, v in cx.kwargs.items():
            if k not in vals:
                raise Unsupported(f'constructor keyword {k}')
            vals[k] = v
        ref = cx.st.alloc(Record(cls), cls)
        cx.st.heap[ref.addr] = Record(cls, vals)
        return [Out(ret=ref, event=('construct', (ref,)))]
    stub.modifies = ()
    stub.pure = True
    return stub


def _cconst(mod, node):
    if isinstance(node, ast.Constant):
        return node.value
    if isinstance(node, ast.Name):
        return mod.lookup_const(node.id)
    raise Unsupported('non-constant record default')


def structured_packet(ex, st, pieces, label='pkt'):
    """Spec.setup helper: the parameter `packet` becomes an SSHPacket whose payload is  pre ++ pieces ++ rest  with
    the read position at |pre| (pre, rest: arbitrary byte strings).  Returns (packet ref, pre, rest)."""
    pre = z3.Const(fresh_name(label + '_pre'), BytesS)
    rest = z3.Const(fresh_name(label + '_rest'), BytesS)
    data = z3.Concat(pre, *pieces, rest) if pieces else z3.Concat(pre, rest)
    p = st.env['packet']
    st.set_field(p, '_packet', VBytes(data))
    st.set_field(p, '_idx', VInt(z3.Length(pre)))
    st.set_field(p, '_len', VInt(z3.Length(data)))
    st.inputs['packet._packet'] = VBytes(data)
    st.heap['__c14__'] = dict(st.heap.get('__c14__', {}), pre=pre, rest=rest, data=data)
    return p, pre, rest


def left_exactly_rest(c, consumed):
    """the read position is behind the `consumed` bytes of the encoding, i.e. exactly `rest` is left"""
    g = c.new_state.heap['__c14__']
    r = c.new_state.rec(c.argv('packet'))
    return z3.And(r.fields['_idx'].z == z3.Length(g['pre']) + consumed,
                  r.fields['_packet'].z == g['data'])


U64 = 2 ** 64
U32 = 2 ** 32

# ------------------------------------------------------------------------------------------------ SFTPLimits
LIMITS_FIELDS = ['max_packet_len', 'max_read_len', 'max_write_len', 'max_open_handles']


def limits_spec(vals):
    """limits@openssh.com reply (OpenSSH PROTOCOL 4.8): uint64 x 4"""
    return [beN(8, v) for v in vals]


limits_encode = Spec(
    PROP, 'sftp', 'SFTPLimits.encode', self_class='SFTPLimits',
    classes={'SFTPLimits': {f: 'int' for f in LIMITS_FIELDS}},
    requires=lambda c: z3.And([z3.And(c.old(f) >= 0, c.old(f) < U64) for f in LIMITS_FIELDS]),
    ensures=[('result == enc_spec(a)', lambda c: c.result == z3.Concat(*limits_spec([c.old(f) for f in LIMITS_FIELDS])))],
    raises={})


def limits_decode_setup(ex, st):
    vals = [z3.Int(fresh_name('a_' + f)) for f in LIMITS_FIELDS]
    structured_packet(ex, st, limits_spec(vals))
    st.heap['__c14__']['a'] = vals
    for v in vals:
        st.assume(z3.And(v >= 0, v < U64, *be_axioms(8, v)))


def limits_decoded(c):
    vals = c.new_state.heap['__c14__']['a']
    r = c.result_v
    if not isinstance(r, VRef):
        return z3.BoolVal(False)
    rec = c.new_state.rec(r)
    return z3.And([c.eq(rec.fields[f], VInt(v)) for f, v in zip(LIMITS_FIELDS, vals)] +
                  [left_exactly_rest(c, 32)])


limits_decode = Spec(
    PROP, 'sftp', 'SFTPLimits.decode',
    params=dict(cls='tag', packet='obj:SSHPacket'),
    classes=dict(PACKET_CLASSES, SFTPLimits={f: 'any' for f in LIMITS_FIELDS}),
    inline=dict(PACKET_INLINE), truthy=PACKET_TRUTHY, setup=limits_decode_setup,
    stubs={'cls': record_ctor_stub('SFTPLimits', None)},
    ensures=[('fields == a, exactly rest left', limits_decoded)],
    raises={})
limits_decode.no_replay = True      # structured symbolic packet (ghost pieces): no native start state


# ------------------------------------------------------------------------------------------------ SFTPVFSAttrs
VFS_FIELDS = ['bsize', 'frsize', 'blocks', 'bfree', 'bavail', 'files', 'ffree', 'favail', 'fsid', 'flags', 'namemax']

vfs_encode = Spec(
    PROP, 'sftp', 'SFTPVFSAttrs.encode', self_class='SFTPVFSAttrs', params=dict(sftp_version='int'),
    classes={'SFTPVFSAttrs': {f: 'int' for f in VFS_FIELDS}},
    requires=lambda c: z3.And([z3.And(c.old(f) >= 0, c.old(f) < U64) for f in VFS_FIELDS]),
    # statvfs@openssh.com reply (OpenSSH PROTOCOL 4.4): eleven uint64 in this order, for every protocol version
    ensures=[('result == enc_spec(a)', lambda c: c.result == z3.Concat(*[beN(8, c.old(f)) for f in VFS_FIELDS]))],
    raises={})


def vfs_decode_setup(ex, st):
    vals = [z3.Int(fresh_name('a_' + f)) for f in VFS_FIELDS]
    structured_packet(ex, st, [beN(8, v) for v in vals])
    st.heap['__c14__']['a'] = vals
    for v in vals:
        st.assume(z3.And(v >= 0, v < U64, *be_axioms(8, v)))


def vfs_decoded(c):
    vals = c.new_state.heap['__c14__']['a']
    r = c.result_v
    if not isinstance(r, VRef):
        return z3.BoolVal(False)
    rec = c.new_state.rec(r)
    return z3.And([c.eq(rec.fields[f], VInt(v)) for f, v in zip(VFS_FIELDS, vals)] + [left_exactly_rest(c, 88)])


vfs_decode = Spec(
    PROP, 'sftp', 'SFTPVFSAttrs.decode',
    params=dict(cls='tag', packet='obj:SSHPacket', sftp_version='int'),
    classes=dict(PACKET_CLASSES, SFTPVFSAttrs={f: 'any' for f in VFS_FIELDS}),
    inline=dict(PACKET_INLINE), truthy=PACKET_TRUTHY, setup=vfs_decode_setup,
    stubs={'cls': record_ctor_stub('SFTPVFSAttrs', None)},
    ensures=[('fields == a, exactly rest left', vfs_decoded)],
    raises={})
vfs_decode.no_replay = True


# ================================================================================================ SFTPAttrs
# WIRE: the ATTRS compound as the drafts define it.  Flag bits (filexfer-02 s5 for v3; -05 s5 / -13 s7.1 for v4..v6):
A_SIZE, A_UIDGID, A_PERM, A_ACMOD = 0x1, 0x2, 0x4, 0x8                       # v3
A_ATIME, A_CRTIME, A_MTIME, A_ACL, A_OWNGRP, A_SUBSEC = 0x8, 0x10, 0x20, 0x40, 0x80, 0x100     # v4+
A_BITS = 0x200                                                                 # v5+
A_ALLOC, A_HINT, A_MIME, A_NLINK, A_UNTRANS, A_CTIME = 0x400, 0x800, 0x1000, 0x2000, 0x4000, 0x8000   # v6
A_EXT = 0x80000000
T_SPECIAL, T_UNKNOWN, T_SOCKET = 4, 5, 6

# field groups in wire order per version: (group id, flag bit or None)
WIRE = {
    3: [('size', A_SIZE), ('uidgid', A_UIDGID), ('perm', A_PERM), ('acmod', A_ACMOD)],
    4: [('type', None), ('size', A_SIZE), ('owngrp', A_OWNGRP), ('perm', A_PERM), ('subsec', A_SUBSEC),
        ('atime', A_ATIME), ('crtime', A_CRTIME), ('mtime', A_MTIME), ('acl', A_ACL)],
}
WIRE[5] = WIRE[4] + [('bits', A_BITS)]
WIRE[6] = [('type', None), ('size', A_SIZE), ('alloc', A_ALLOC), ('owngrp', A_OWNGRP), ('perm', A_PERM),
           ('subsec', A_SUBSEC), ('atime', A_ATIME), ('crtime', A_CRTIME), ('mtime', A_MTIME), ('ctime', A_CTIME),
           ('acl', A_ACL), ('bits', A_BITS), ('hint', A_HINT), ('mime', A_MIME), ('nlink', A_NLINK),
           ('untrans', A_UNTRANS)]
# `subsec` has a flag bit but no field of its own: it adds a uint32 nanoseconds word after every time present
# (placed before the times in this list only because the flag is known before the first time is written).
# EXTENDED (count + name/value pairs, bit 31) is not part of the discharged round trip: see CODEC_NOTES.

INT_FIELDS = {'size': 8, 'alloc_size': 8, 'uid': 4, 'gid': 4, 'permissions': 4, 'atime': 8, 'atime_ns': 4,
              'crtime': 8, 'crtime_ns': 4, 'mtime': 8, 'mtime_ns': 4, 'ctime': 8, 'ctime_ns': 4,
              'attrib_bits': 4, 'attrib_valid': 4, 'text_hint': 1, 'nlink': 4}
STR_FIELDS = ['owner', 'group', 'mime_type']
BYTES_FIELDS = ['acl', 'untrans_name']
ATTR_FIELD_TYPES = dict({'type': 'int', 'extended': 'seq[tuple[bytes,bytes]]'},
                        **{f: 'opt[int]' for f in INT_FIELDS}, **{f: 'opt[str]' for f in STR_FIELDS},
                        **{f: 'opt[bytes]' for f in BYTES_FIELDS})
utf8 = z3.Function('utf8', StrS, BytesS)
decode_utf8 = z3.Function('decode_utf8', BytesS, StrS)
decodable_utf8 = z3.Function('decodable_utf8', BytesS, BoolS)
str_of_int = z3.Function('str_of_int', IntS, StrS)


def sstr(s_):
    b = utf8(s_)
    return [beN(4, z3.Length(b)), b]


def sbytes(b):
    return [beN(4, z3.Length(b)), b]


class AttrVals:
    """the abstract attribute set the wire format talks about: presence of each field group + the values that
    travel.  Built either from an SFTPAttrs object's fields (encode side) or from ghost constants (decode side)."""
    def __init__(self, v, present, x, sub):
        self.v, self.present, self.x, self.sub = v, present, x, sub

    def has(self, g):
        return self.present.get(g, z3.BoolVal(False)) if g != 'type' else z3.BoolVal(True)

    def wire_type(self):
        t = self.x['type']
        # v4 knows only the types 1..5: the types v5 added (socket, char / block device, fifo) travel as SPECIAL
        return z3.If(t >= T_SOCKET, T_SPECIAL, t) if self.v == 4 else t

    def time_pieces(self, t):
        return [beN(8, self.x[t]), z3.If(self.sub, beN(4, self.x[t + '_nsv']), z3.Empty(BytesS))]

    def pieces(self, g):
        """byte pieces of group g when it is present"""
        x, v = self.x, self.v
        if g == 'type':
            return [beN(1, self.wire_type())]
        if g == 'size':
            return [beN(8, x['size'])]
        if g == 'alloc':
            return [beN(8, x['alloc_size'])]
        if g == 'uidgid':
            return [beN(4, x['uid']), beN(4, x['gid'])]
        if g == 'owngrp':
            return sstr(x['own']) + sstr(x['grp'])
        if g == 'perm':
            return [beN(4, x['permissions'])]
        if g == 'acmod':
            return [beN(4, x['atime']), beN(4, x['mtime'])]
        if g in ('atime', 'crtime', 'mtime', 'ctime'):
            return self.time_pieces(g)
        if g == 'acl':
            return sbytes(x['acl'])
        if g == 'bits':
            return [beN(4, x['attrib_bits']), beN(4, x['attrib_valid'])]
        if g == 'hint':
            return [beN(1, x['text_hint'])]
        if g == 'mime':
            return sstr(x['mime_type'])
        if g == 'nlink':
            return [beN(4, x['nlink'])]
        if g == 'untrans':
            return sbytes(x['untrans_name'])
        if g == 'subsec':
            return []
        raise KeyError(g)

    def enc_group(self, g):
        ps = self.pieces(g)
        if not ps:
            return z3.Empty(BytesS)
        body = ps[0] if len(ps) == 1 else z3.Concat(*ps)
        return body if g == 'type' else z3.If(self.has(g), body, z3.Empty(BytesS))

    def flag_sum(self, groups=None):
        """the flags word: the sum of the bits of the groups present (binary representation: distinct bits)"""
        ts = [z3.If(self.has(g), bit, 0) for g, bit in WIRE[self.v] if bit is not None and (groups is None or g in groups)]
        return z3.Sum(ts) if ts else z3.IntVal(0)

    def bit_facts(self, f, groups=None):
        """bit b of the flags word f is set iff the group with that bit is present (and among `groups`)"""
        byb = {bit: g for g, bit in WIRE[self.v] if bit is not None}
        out = []
        for b in range(32):
            g = byb.get(1 << b)
            on = self.has(g) if g is not None and (groups is None or g in groups) else z3.BoolVal(False)
            out.append((f / (1 << b)) % 2 == z3.If(on, 1, 0))
        return out

    def norm(self, g):
        """{field: expected value (V)} an SFTPAttrs decoded from the wire carries for group g when present"""
        x = self.x
        if g == 'type':
            return {'type': VInt(self.wire_type())}
        if g == 'size':
            return {'size': VInt(x['size'])}
        if g == 'alloc':
            return {'alloc_size': VInt(x['alloc_size'])}
        if g == 'uidgid':
            return {'uid': VInt(x['uid']), 'gid': VInt(x['gid'])}
        if g == 'owngrp':
            return {'owner': VStr(x['own']), 'group': VStr(x['grp'])}
        if g == 'perm':
            if self.v == 3:
                # v3 has no type byte: the permissions word is the POSIX mode incl. the file type bits
                return {'permissions': VInt(x['permissions'] % 65536), 'type': VInt(mode_type(x['permissions']))}
            return {'permissions': VInt(x['permissions'] % 4096)}     # the 12 permission bits; type has its own byte
        if g == 'acmod':
            return {'atime': VInt(x['atime']), 'mtime': VInt(x['mtime'])}
        if g in ('atime', 'crtime', 'mtime', 'ctime'):
            return {g: VInt(x[g]), g + '_ns': VOpt(z3.Not(self.sub), VInt(x[g + '_nsv']))}
        if g == 'acl':
            return {'acl': VBytes(x['acl'])}
        if g == 'bits':
            return {'attrib_bits': VInt(x['attrib_bits']), 'attrib_valid': VInt(x['attrib_valid'])}
        if g == 'hint':
            return {'text_hint': VInt(x['text_hint'])}
        if g == 'mime':
            return {'mime_type': VStr(x['mime_type'])}
        if g == 'nlink':
            return {'nlink': VInt(x['nlink'])}
        if g == 'untrans':
            return {'untrans_name': VBytes(x['untrans_name'])}
        return {}

    def ranges(self):
        """every value fits its wire field"""
        x = self.x
        out = [x['type'] >= 0, x['type'] < 256]
        w = dict(size=8, alloc_size=8, uid=4, gid=4, permissions=4, attrib_bits=4, attrib_valid=4, text_hint=1, nlink=4,
                 atime=8 if self.v > 3 else 4, mtime=8 if self.v > 3 else 4, crtime=8, ctime=8,
                 atime_nsv=4, crtime_nsv=4, mtime_nsv=4, ctime_nsv=4)
        for k, n in w.items():
            if k in x:
                out += [x[k] >= 0, x[k] < 256 ** n]
        return out


def mode_type(mode):
    """SFTP file type of a POSIX mode word (S_IFMT = mode & 0o170000; filexfer-13 s7.2 numbering)"""
    k = (mode / 4096) % 16
    t = z3.If(k == 0, T_UNKNOWN, T_SPECIAL)
    for fmt, ft in ((0o10, 1), (0o04, 2), (0o12, 3), (0o14, 6), (0o02, 7), (0o06, 8), (0o01, 9)):
        t = z3.If(k == fmt, ft, t)
    return t


def be_terms(zs):
    """all applications be(w, v) inside the terms zs"""
    seen, out, stack = set(), [], list(zs)
    while stack:
        e = stack.pop()
        if e.get_id() in seen or not z3.is_app(e):
            continue
        seen.add(e.get_id())
        if e.decl().kind() == z3.Z3_OP_UNINTERPRETED and e.decl().name() == 'be' and e.num_args() == 2:
            out.append(e)
        stack.extend(e.children())
    return out


def wire_axioms(zs):
    """definitional instances for the encodings that occur in zs: |be(w,v)| = w, unbe(be(w,v)) = v, be(1,v) = [v]
    (values are within range by AttrVals.ranges), and the UTF-8 codec round trip for the strings that occur"""
    out = []
    for t in be_terms(zs):
        w = z3.simplify(t.arg(0)).as_long()
        out += [z3.Length(t) == w, unbe(t) == t.arg(1)]
        if w == 1:
            out.append(t == z3.Unit(t.arg(1)))
    seen, stack = set(), list(zs)
    while stack:
        e = stack.pop()
        if e.get_id() in seen or not z3.is_app(e):
            continue
        seen.add(e.get_id())
        if e.decl().kind() == z3.Z3_OP_UNINTERPRETED and e.decl().name() == 'utf8':
            out += [decodable_utf8(e), decode_utf8(e) == e.arg(0), z3.Length(e) < U32]
        stack.extend(e.children())
    return out


# ---- the real code, specialised to one protocol version: leaves and regions
FLAG_NAMES = {'FILEXFER_ATTR_SIZE', 'FILEXFER_ATTR_UIDGID', 'FILEXFER_ATTR_PERMISSIONS', 'FILEXFER_ATTR_ACMODTIME',
              'FILEXFER_ATTR_ACCESSTIME', 'FILEXFER_ATTR_CREATETIME', 'FILEXFER_ATTR_MODIFYTIME', 'FILEXFER_ATTR_ACL',
              'FILEXFER_ATTR_OWNERGROUP', 'FILEXFER_ATTR_SUBSECOND_TIMES', 'FILEXFER_ATTR_BITS',
              'FILEXFER_ATTR_ALLOCATION_SIZE', 'FILEXFER_ATTR_TEXT_HINT', 'FILEXFER_ATTR_MIME_TYPE',
              'FILEXFER_ATTR_LINK_COUNT', 'FILEXFER_ATTR_UNTRANSLATED_NAME', 'FILEXFER_ATTR_CTIME',
              'FILEXFER_ATTR_EXTENDED'}


def _version_only(node):
    names = {n.id for n in ast.walk(node) if isinstance(n, ast.Name)}
    return names == {'sftp_version'} and not any(isinstance(n, (ast.Call, ast.Attribute)) for n in ast.walk(node))


def _version_test(test, v):
    """True / False when the test is decided by sftp_version == v alone, else None"""
    if _version_only(test):
        return bool(eval(compile(ast.Expression(test), '<version-test>', 'eval'), {'sftp_version': v}))
    if isinstance(test, ast.BoolOp) and isinstance(test.op, ast.And):
        rs = [_version_test(t, v) for t in test.values]
        if any(r is False for r in rs):
            return False
    return None


def version_leaves(fn, v):
    """the function body with every branch decided by the protocol version alone resolved for sftp_version == v:
    a flat list of statements"""
    def flat(stmts):
        out = []
        for s_ in stmts:
            if isinstance(s_, ast.Expr) and isinstance(s_.value, ast.Constant):
                continue
            if isinstance(s_, ast.If):
                r = _version_test(s_.test, v)
                if r is True:
                    out += flat(s_.body)
                    continue
                if r is False:
                    out += flat(s_.orelse)
                    continue
            out.append(s_)
        return out
    return flat(fn.body)


def leaf_bits(stmt, mod):
    return {mod.lookup_const(n.id) for n in ast.walk(stmt) if isinstance(n, ast.Name) and n.id in FLAG_NAMES}


def regions_of(fn, v, carried):
    """consecutive leaves grouped into regions: a leaf that only assigns a local that is not carried across regions
    (filetype, unsupported_attrs, ...) is joined with the leaf that follows it"""
    leaves = version_leaves(fn, v)
    out, cur = [], []
    for s_ in leaves:
        cur.append(s_)
        stores = [n for n in ast.walk(s_) if isinstance(getattr(n, 'ctx', None), (ast.Store, ast.Del))]
        local_only = bool(stores) and all(isinstance(n, ast.Name) and n.id not in carried for n in stores) and \
            not any(isinstance(n, (ast.Call, ast.Raise, ast.Return)) and
                    not (isinstance(s_, (ast.Assign, ast.AnnAssign)) and isinstance(n, ast.Call))
                    for n in ast.walk(s_))
        if not local_only:
            out.append(cur)
            cur = []
    if cur:
        out.append(cur)
    return out


# ---- encode side: AttrVals of the object being encoded
def vals_of_object(getv, v):
    """AttrVals of an SFTPAttrs object (getv(field) -> its value V): which groups version v sends for it, and with
    which values (filexfer drafts + the asyncssh documentation of SFTPAttrs for the v3/v4 id and time conventions)"""
    def isnone(f):
        x_ = getv(f)
        return x_.isnone if isinstance(x_, VOpt) else z3.BoolVal(x_ is VNone)

    def val(f):
        x_ = getv(f)
        return x_.val.z if isinstance(x_, VOpt) else x_.z
    have = {f: z3.Not(isnone(f)) for f in list(INT_FIELDS) + STR_FIELDS + BYTES_FIELDS}
    ids, names = z3.And(have['uid'], have['gid']), z3.And(have['owner'], have['group'])
    sub = z3.Or(have['atime_ns'], have['crtime_ns'], have['mtime_ns'], have['ctime_ns'])
    present = {'size': have['size'], 'alloc': have['alloc_size'], 'uidgid': ids,
               # v4+: owner and group names; numeric ids travel as their decimal strings when no names are given
               'owngrp': z3.Or(names, ids), 'perm': have['permissions'],
               'acmod': z3.And(have['atime'], have['mtime']),          # v3: both times or neither
               'atime': have['atime'], 'crtime': have['crtime'], 'mtime': have['mtime'], 'ctime': have['ctime'],
               'subsec': sub, 'acl': have['acl'], 'bits': z3.And(have['attrib_bits'], have['attrib_valid']),
               'hint': have['text_hint'], 'mime': have['mime_type'], 'nlink': have['nlink'],
               'untrans': have['untrans_name']}
    x = {f: val(f) for f in list(INT_FIELDS) + STR_FIELDS + BYTES_FIELDS}
    x['type'] = getv('type').z
    x['own'] = z3.If(names, x['owner'], str_of_int(x['uid']))
    x['grp'] = z3.If(names, x['group'], str_of_int(x['gid']))
    for t in ('atime', 'crtime', 'mtime', 'ctime'):
        x[t + '_nsv'] = z3.If(have[t + '_ns'], x[t + '_ns'], 0)      # a time without its own nanoseconds: 0
    return AttrVals(v, present, x, sub), have


def object_ranges(av, have, v):
    """every field that is set fits the wire field it travels in (v3 times: uint32)"""
    out = [av.x['type'] >= 0, av.x['type'] < 256]
    for f, w in INT_FIELDS.items():
        if v == 3 and f in ('atime', 'mtime'):
            w = 4
        out.append(z3.Implies(have[f], z3.And(av.x[f] >= 0, av.x[f] < 256 ** w)))
    return out


ENC_CARRIED = {'flags', 'attrs', 'subsecond'}


def _assigned_before(regs, i, name):
    return any(isinstance(n, ast.Name) and n.id == name and isinstance(n.ctx, ast.Store)
               for r in regs[:i] for s_ in r for n in ast.walk(s_))


def _assigned_in(reg, name):
    return any(isinstance(n, ast.Name) and n.id == name and isinstance(n.ctx, ast.Store)
               for s_ in reg for n in ast.walk(s_))


def region_groups(reg, v, mod):
    """groups of WIRE[v] a region handles: by the flag constants it names; `type` by its Byte(filetype) / get_byte"""
    bits = set().union(*[leaf_bits(s_, mod) for s_ in reg]) if reg else set()
    gs = [g for g, b in WIRE[v] if b is not None and b in bits]
    src = ' '.join(ast.unparse(s_) for s_ in reg)
    if 'type' in [g for g, _b in WIRE[v]] and ('Byte(filetype)' in src or 'attrs.type = packet.get_byte()' in src):
        gs = ['type'] + gs
    return gs, bits


def attrs_encode_plan(v):
    """regions of SFTPAttrs.encode for version v with the groups each handles and the groups done before it"""
    mod = extract.get_module('sftp')
    fn = mod.get_function('SFTPAttrs.encode')
    regs = regions_of(fn, v, ENC_CARRIED)
    plan, done = [], []
    for i, reg in enumerate(regs):
        gs, bits = region_groups(reg, v, mod)
        plan.append(dict(i=i, stmts=reg, groups=gs, bits=bits, done=list(done)))
        done += [g for g in gs if g not in done]
    return regs, plan


def _mk_attrs_encode_region(v, i):
    label = f'v{v}.r{i:02d}'

    def plan_i():
        regs, plan = attrs_encode_plan(v)
        if i >= len(plan):
            raise Unsupported(f'SFTPAttrs.encode has fewer than {i + 1} regions for v{v} now')
        return regs, plan[i]

    def region(fn):
        return plan_i()[0][i]

    def setup(ex, st):
        regs, p = plan_i()
        av, have = vals_of_object(lambda f: ex.get_field(st, ex.self_ref, f), v)
        g = {'av': av, 'have': have, 'plan': p}
        if _assigned_before(regs, i, 'flags'):
            g['F0'] = z3.Int(fresh_name('flags_in'))
            st.env['flags'] = VInt(g['F0'])
        if _assigned_before(regs, i, 'attrs'):
            g['A0'] = z3.Const(fresh_name('attrs_in'), z3.SeqSort(BytesS))
            st.env['attrs'] = st.alloc(VSeq(g['A0'], 'bytes'))
        if _assigned_before(regs, i, 'subsecond'):
            st.env['subsecond'] = VBool(av.sub)
        st.heap['__c14__'] = g

    def G(c):
        return c.old_state.heap['__c14__']

    def requires(c):
        g = G(c)
        av = g['av']
        conj = object_ranges(av, g['have'], v) + [z3.Length(c.old('extended')) == 0]
        if 'F0' in g:
            done = g['plan']['done']
            # invariant: the flags word so far is the sum of the bits of the groups handled so far; its binary
            # digits are then those bits (lemma C14.flags#binary-digits-of-a-sum-of-distinct-bits, extra_checks)
            conj += [g['F0'] == av.flag_sum(done)] + av.bit_facts(g['F0'], done)
        pieces = [av.enc_group(gr) for gr in g['plan']['groups']]
        return z3.And(conj + wire_axioms(pieces))

    def flags_ok(c):
        g = G(c)
        if not c.has_local('flags'):
            return z3.BoolVal(True)
        bits_named = g['plan']['bits']
        known = {b for _g, b in WIRE[v] if b is not None}
        if bits_named - known - {A_EXT}:
            # the region sets a bit that version v does not define
            f0 = g.get('F0', z3.IntVal(0))
            return c.local('flags') == f0
        return c.local('flags') == g['av'].flag_sum(g['plan']['done'] + g['plan']['groups'])

    def appended_ok(c):
        g = G(c)
        want = [g['av'].enc_group(gr) for gr in g['plan']['groups']]
        want_z = z3.Concat(*want) if len(want) > 1 else (want[0] if want else z3.Empty(BytesS))
        if not c.has_local('attrs'):
            return z3.BoolVal(not want)
        cur = c.ex.deref(c.new_state, c.localv('attrs'))
        if 'A0' not in g:
            return z3.BoolVal(isinstance(cur, VList) and not cur.items and not want)
        if not isinstance(cur, VSeq):
            return z3.BoolVal(False)
        kids, stack = [], [cur.z]
        while stack:
            e = stack.pop()
            if z3.is_app(e) and e.decl().kind() == z3.Z3_OP_SEQ_CONCAT:
                stack.extend(reversed(e.children()))
            else:
                kids.append(e)
        if not kids[0].eq(g['A0']):
            return z3.BoolVal(False)
        app = []
        for k in kids[1:]:
            if not (z3.is_app(k) and k.decl().kind() == z3.Z3_OP_SEQ_UNIT):
                return z3.BoolVal(False)
            app.append(k.arg(0))
        got = z3.Concat(*app) if len(app) > 1 else (app[0] if app else z3.Empty(BytesS))
        return got == want_z

    def order_ok(c):
        g = G(c)
        order = [gr for gr, _b in WIRE[v]]
        for gr in g['plan']['groups']:
            before = order[:order.index(gr)]
            if any(b not in g['plan']['done'] + g['plan']['groups'] for b in before if b != 'subsec'):
                return z3.BoolVal(False)
        return z3.BoolVal(True)

    def sub_ok(c):
        if c.has_local('subsecond'):
            return c.truthy(c.localv('subsecond')) == G(c)['av'].sub
        return z3.BoolVal(True)

    def result_ok(c):
        g = G(c)
        if c.result_v is VNone:
            return z3.BoolVal(True)         # not the returning region
        if 'F0' not in g or 'A0' not in g:
            return z3.BoolVal(False)
        return c.result == z3.Concat(beN(4, g['F0']), joinb(z3.Empty(BytesS), g['A0']))

    sp = Spec(
        PROP, 'sftp', 'SFTPAttrs.encode', self_class='SFTPAttrs', params=dict(sftp_version='int'),
        classes={'SFTPAttrs': ATTR_FIELD_TYPES}, region=region, setup=setup, requires=requires,
        ensures=[('flags == sum of the bits of the groups written so far', flags_ok),
                 ('bytes appended == enc_spec of the groups this step handles', appended_ok),
                 ('groups are written in wire order', order_ok),
                 ('subsecond == any nanoseconds field set', sub_ok),
                 ('result == uint32 flags ++ the bytes appended', result_ok)],
        # v3 cannot carry owner / group names (filexfer-02 has numeric ids only): refused, as documented
        raises={'ValueError': lambda c: (lambda g: z3.And(
            z3.BoolVal(v == 3 and 'uidgid' in g['plan']['groups']), g['have']['owner'], g['have']['group'],
            z3.Not(g['av'].has('uidgid'))))(G(c))},
        cases=[(label, {'arg:sftp_version': v})])
    sp.no_replay = True
    return sp


joinb = z3.Function('join_b', BytesS, z3.SeqSort(BytesS), BytesS)
ATTRS_ENCODE_REGIONS = {}
for _v in (3, 4, 5, 6):
    for _i in range(len(attrs_encode_plan(_v)[1])):
        ATTRS_ENCODE_REGIONS[(_v, _i)] = _mk_attrs_encode_region(_v, _i)


# ---- decode side
DEC_CARRIED = {'flags', 'attrs'}
TIME_GROUPS = ('atime', 'crtime', 'mtime', 'ctime')
ATTR_DEFAULTS = None


def attr_defaults():
    mod = extract.get_module('sftp')
    out = {}
    for f, dflt in record_fields('SFTPAttrs'):
        if dflt is None:
            out[f] = VNone
        elif isinstance(dflt, ast.Tuple) and not dflt.elts:
            out[f] = VTuple([])
        else:
            out[f] = wrap_const(_cconst(mod, dflt))
    return out


def ghost_vals(v, fixed):
    """AttrVals over ghost constants (decode side); `fixed` pins the presence of some groups / of subsec"""
    present = {}
    for g, b in WIRE[v]:
        if b is not None:
            present[g] = z3.BoolVal(fixed[g]) if g in fixed else z3.Bool(fresh_name('p_' + g))
    sub = present.get('subsec', z3.BoolVal(False))
    x = {'type': z3.Int(fresh_name('a_type')), 'own': z3.String(fresh_name('a_owner')),
         'grp': z3.String(fresh_name('a_group')), 'mime_type': z3.String(fresh_name('a_mime')),
         'acl': z3.Const(fresh_name('a_acl'), BytesS), 'untrans_name': z3.Const(fresh_name('a_untrans'), BytesS)}
    for f in INT_FIELDS:
        if not f.endswith('_ns'):
            x[f] = z3.Int(fresh_name('a_' + f))
    for t in TIME_GROUPS:
        x[t + '_nsv'] = z3.Int(fresh_name('a_' + t + '_ns'))
    return AttrVals(v, present, x, sub)


def _vcond(has, val, prev):
    """V-level `val if has else prev` for the shapes that occur in SFTPAttrs fields"""
    hc = concrete_bool(has)
    if hc is True:
        return val
    if hc is False:
        return prev
    if prev is VNone:
        if isinstance(val, VOpt):
            return VOpt(z3.Or(z3.Not(has), val.isnone), val.val)
        return VOpt(z3.Not(has), val)
    if isinstance(prev, VInt) and isinstance(val, VInt):
        return VInt(z3.If(has, val.z, prev.z))
    raise Unsupported('expected-field merge')


def expected_fields(av, done):
    """fields of the SFTPAttrs being built after the groups `done` were decoded: norm_v for those groups, the
    constructor defaults for everything else"""
    out = attr_defaults()
    for g, _b in WIRE[av.v]:
        if g in done:
            for f, val in av.norm(g).items():
                out[f] = _vcond(av.has(g), val, out[f])
    return out


def attrs_decode_plan(v):
    mod = extract.get_module('sftp')
    fn = mod.get_function('SFTPAttrs.decode')
    regs = regions_of(fn, v, DEC_CARRIED)
    plan, done = [], []
    for i, reg in enumerate(regs):
        gs, bits = region_groups(reg, v, mod)
        gs = [g for g in gs if g != 'subsec']
        if not any(isinstance(n, ast.Name) and n.id == 'packet' for s_ in reg for n in ast.walk(s_)):
            gs = []         # a step that does not read the packet decodes no group (flag word fix-ups, checks)
        plan.append(dict(i=i, stmts=reg, groups=gs, bits=bits, done=list(done)))
        done += [g for g in gs if g not in done]
    return regs, plan


def decode_cases(v, p):
    """presence cases of one decode region: every group it handles present / absent (x subsecond for a time)"""
    gs = p['groups']
    flagged = [g for g in gs if g != 'type']
    if not flagged:
        return [('', {})]
    out = [('absent', {g: False for g in flagged})]
    if len(flagged) == 1 and flagged[0] in TIME_GROUPS:
        out += [('present', {flagged[0]: True, 'subsec': False}), ('present+ns', {flagged[0]: True, 'subsec': True})]
    else:
        out += [('present', {g: True for g in flagged})]
    return out


def valid_flags_global():
    """module-level _valid_attr_flags {version: mask} from the real source (constants resolved through the imports)"""
    mod = extract.get_module('sftp')
    node = mod.consts.get('__nodes__', {}).get('_valid_attr_flags')
    if not isinstance(node, ast.Dict):
        raise Unsupported('_valid_attr_flags is not a dict display')
    return VDict({_cconst(mod, k): VInt(_cconst(mod, val)) for k, val in zip(node.keys, node.values)})


def stat_is(fmt):
    """stat.S_ISxxx(mode) (CPython Lib/stat.py): (mode & 0o170000) == fmt"""
    def stub(cx):
        return [Out(ret=VBool((zt(cx.args[0]) / 4096) % 16 == fmt))]
    stub.modifies = ()
    stub.pure = True
    return stub


def stat_ifmt(cx):
    return [Out(ret=VInt(((zt(cx.args[0]) / 4096) % 16) * 4096))]


stat_ifmt.modifies = ()
stat_ifmt.pure = True
STAT_STUBS = {'stat.S_ISREG': stat_is(0o10), 'stat.S_ISDIR': stat_is(0o04), 'stat.S_ISLNK': stat_is(0o12),
              'stat.S_ISSOCK': stat_is(0o14), 'stat.S_ISCHR': stat_is(0o02), 'stat.S_ISBLK': stat_is(0o06),
              'stat.S_ISFIFO': stat_is(0o01), 'stat.S_IFMT': stat_ifmt}


def _mk_attrs_decode_region(v, i, case_label, fixed):
    label = f'v{v}.r{i:02d}' + ('.' + case_label if case_label else '')

    def plan_i():
        regs, plan = attrs_decode_plan(v)
        if i >= len(plan):
            raise Unsupported(f'SFTPAttrs.decode has fewer than {i + 1} regions for v{v} now')
        return regs, plan[i]

    def region(fn):
        return plan_i()[0][i]

    def cur_pieces(av, p):
        out = []
        for g in p['groups']:
            hc = True if g == 'type' else concrete_bool(av.has(g))
            if hc:
                for z in av.pieces(g):
                    if z3.is_app(z) and z.decl().kind() == z3.Z3_OP_ITE:
                        c0 = concrete_bool(z.arg(0))
                        if c0 is None:
                            raise Unsupported('undecided piece')
                        z = z.arg(1) if c0 else z.arg(2)
                    if not (z3.is_app(z) and z.decl().kind() == z3.Z3_OP_SEQ_EMPTY):
                        out.append(z)
        return out

    def setup(ex, st):
        regs, p = plan_i()
        av = ghost_vals(v, fixed)
        g = {'av': av, 'plan': p}
        reads_flags = any(isinstance(n, ast.Name) and n.id == 'flags' and isinstance(n.ctx, ast.Store)
                          for s_ in p['stmts'] for n in ast.walk(s_)) and not _assigned_before(regs, i, 'flags')
        if reads_flags:
            g['F'] = z3.Int(fresh_name('a_flags'))
            pieces = [beN(4, g['F'])]
        else:
            pieces = cur_pieces(av, p)
        g['pieces'] = pieces
        structured_packet(ex, st, pieces)
        g.update({k: val for k, val in st.heap['__c14__'].items() if k in ('pre', 'rest', 'data')})
        if _assigned_before(regs, i, 'flags'):
            g['F'] = z3.Int(fresh_name('a_flags'))
            st.env['flags'] = VInt(g['F'])
        if _assigned_before(regs, i, 'attrs'):
            ref = st.alloc(Record('SFTPAttrs'), 'SFTPAttrs')
            st.heap[ref.addr] = Record('SFTPAttrs', expected_fields(av, p['done']))
            st.env['attrs'] = ref
            g['attrs'] = ref
        st.heap['__c14__'] = g

    def G(c):
        return c.old_state.heap['__c14__']

    def requires(c):
        g = G(c)
        av = g['av']
        conj = av.ranges() + wire_axioms(g['pieces'])
        if 'F' in g:
            # the flags word of the encoding: the sum of the bits of the groups present - and hence (lemma
            # C14.flags#binary-digits-of-a-sum-of-distinct-bits) its binary digits are those bits
            conj += [g['F'] == av.flag_sum()] + av.bit_facts(g['F'])
        return z3.And(conj)

    def fields_ok(c):
        g = G(c)
        if not c.has_local('attrs'):
            return z3.BoolVal(True)
        ref = c.localv('attrs')
        if not isinstance(ref, VRef):
            return z3.BoolVal(False)
        rec = c.new_state.rec(ref)
        want = expected_fields(g['av'], g['plan']['done'] + g['plan']['groups'])
        conj = [z3.BoolVal(set(rec.fields) == set(want))]
        for f, w in want.items():
            if f in rec.fields:
                conj.append(c.eq(rec.fields[f], w))
        return z3.And(conj)

    def consumed_ok(c):
        g = G(c)
        n = z3.Sum([z3.Length(z) for z in g['pieces']]) if g['pieces'] else z3.IntVal(0)
        r = c.new_state.rec(c.argv('packet'))
        return z3.And(r.fields['_idx'].z == z3.Length(g['pre']) + n, r.fields['_packet'].z == g['data'])

    def flags_kept(c):
        g = G(c)
        if not c.has_local('flags') or 'F' not in g:
            return z3.BoolVal(True)
        return c.local('flags') == g['F']

    def order_ok(c):
        g = G(c)
        order = [gr for gr, _b in WIRE[v] if gr != 'subsec']
        for gr in g['plan']['groups']:
            if any(b not in g['plan']['done'] + g['plan']['groups'] for b in order[:order.index(gr)]):
                return z3.BoolVal(False)
        return z3.BoolVal(True)

    def result_ok(c):
        g = G(c)
        if c.result_v is VNone:
            return z3.BoolVal(True)
        return z3.BoolVal('attrs' in g and isinstance(c.result_v, VRef) and c.result_v.addr == g['attrs'].addr)

    sp = Spec(
        PROP, 'sftp', 'SFTPAttrs.decode', params=dict(cls='tag', packet='obj:SSHPacket', sftp_version='int'),
        classes=dict(PACKET_CLASSES, SFTPAttrs={f: 'any' for f in ATTR_FIELD_TYPES}),
        inline=dict(PACKET_INLINE, **{'_stat_mode_to_filetype': ('sftp', '_stat_mode_to_filetype')}),
        truthy=PACKET_TRUTHY, region=region, setup=setup, requires=requires,
        stubs=dict(STAT_STUBS, cls=record_ctor_stub('SFTPAttrs', None)),
        globals={'_valid_attr_flags': valid_flags_global()},
        ensures=[('fields == norm_v of the groups decoded so far, defaults otherwise', fields_ok),
                 ('exactly the bytes of this step\'s groups consumed', consumed_ok),
                 ('flags word unchanged', flags_kept),
                 ('groups are read in wire order', order_ok),
                 ('returns the object built', result_ok)],
        raises={}, cases=[(label, {'arg:sftp_version': v})])
    sp.no_replay = True
    return sp


ATTRS_DECODE_REGIONS = {}
for _v in (3, 4, 5, 6):
    for _p in attrs_decode_plan(_v)[1]:
        for _cl, _fx in decode_cases(_v, _p):
            ATTRS_DECODE_REGIONS[(_v, _p['i'], _cl)] = _mk_attrs_decode_region(_v, _p['i'], _cl, _fx)


# ================================================================================================ SFTPName
# SSH_FXP_NAME entry (filexfer-02 s7: string filename, string longname, ATTRS; -05/-13 s9.4: string filename, ATTRS).
# The ATTRS block is the SFTPAttrs codec proved above; here it is an opaque byte string E = enc_spec(attrs, v) that
# SFTPAttrs.decode consumes exactly (its contract), so the name layer is proved for an arbitrary E.
attrs_enc = z3.Function('sftp_attrs_enc', sort_of('opaque:AttrsObj'), IntS, BytesS)


def name_attrs_encode_stub(cx):
    """self.attrs.encode(v): the bytes enc_spec(attrs, v) (contract of SFTPAttrs.encode, proved region by region)"""
    a = cx.recv
    e = cx.fresh('bytes', 'attrs_encoding')
    return [Out(ret=e, assume=[e.z == attrs_enc(a.z, zt(cx.args[0]))], event=('attrs-encode', (a, cx.args[0], e)))]


name_attrs_encode_stub.modifies = ()


def _mk_name_encode(v):
    def post(c):
        ev = c.events('attrs-encode')
        if len(ev) != 1:
            return z3.BoolVal(False)
        e = ev[0][1][2].z
        fn_, ln_ = c.old('filename'), c.old('longname')
        parts_ = sbytes(fn_) + (sbytes(ln_) if v == 3 else []) + [e]
        return z3.And(c.result == z3.Concat(*parts_), ev[0][1][0].z == c.old('attrs'), zt(ev[0][1][1]) == v)
    sp = Spec(
        PROP, 'sftp', 'SFTPName.encode', self_class='SFTPName', params=dict(sftp_version='int'),
        classes={'SFTPName': {'filename': 'bytes', 'longname': 'bytes', 'attrs': 'opaque:AttrsObj'}},
        stubs={'self.attrs.encode': name_attrs_encode_stub},
        ensures=[('result == string filename [string longname, v3] ++ enc_spec(attrs)', post)],
        raises={}, cases=[(f'v{v}', {'arg:sftp_version': v})])
    sp.no_replay = True
    return sp


def name_decode_setup(v):
    def setup(ex, st):
        fn_ = z3.Const(fresh_name('a_filename'), BytesS)
        ln_ = z3.Const(fresh_name('a_longname'), BytesS)
        e = z3.Const(fresh_name('attrs_encoding'), BytesS)
        pieces = sbytes(fn_) + (sbytes(ln_) if v == 3 else []) + [e]
        structured_packet(ex, st, pieces)
        st.heap['__c14__'].update(fn=fn_, ln=ln_, e=e, pieces=pieces,
                                  before_e=z3.Sum([z3.Length(z) for z in pieces[:-1]]))
        for z in wire_axioms(pieces) + [z3.Length(fn_) < U32, z3.Length(ln_) < U32]:
            st.assume(z)
    return setup


def name_attrs_decode_stub(cx):
    """SFTPAttrs.decode(packet, v) where the payload at the read position is E ++ tail (E = enc_spec(a, v)): returns
    the SFTPAttrs with norm_v(a) and leaves the read position behind E (contract proved region by region above).
    Stated at the call site: the read position is exactly the start of E, and the version is the name's."""
    g = cx.st.heap['__c14__']
    p = cx.args[0]
    r = cx.st.rec(p)
    cx.require('attrs block starts at the read position',
               z3.And(r.fields['_idx'].z == z3.Length(g['pre']) + g['before_e'], r.fields['_packet'].z == g['data']))
    a = cx.fresh('opaque:AttrsObj', 'decoded_attrs')
    return [Out(ret=a, osets=[(p, '_idx', VInt(r.fields['_idx'].z + z3.Length(g['e'])))],
                event=('attrs-decode', (a, cx.args[1])))]


name_attrs_decode_stub.modifies = ()


def _mk_name_decode(v):
    def post(c):
        g = c.new_state.heap['__c14__']
        r = c.result_v
        ev = c.events('attrs-decode')
        if not isinstance(r, VRef) or len(ev) != 1:
            return z3.BoolVal(False)
        rec = c.new_state.rec(r)
        total = z3.Sum([z3.Length(z) for z in g['pieces']])
        return z3.And(c.eq(rec.fields['filename'], VBytes(g['fn'])),
                      c.eq(rec.fields['longname'], VBytes(g['ln']) if v == 3 else VNone),
                      c.eq(rec.fields['attrs'], ev[0][1][0]), zt(ev[0][1][1]) == v,
                      left_exactly_rest(c, total))
    sp = Spec(
        PROP, 'sftp', 'SFTPName.decode', params=dict(cls='tag', packet='obj:SSHPacket', sftp_version='int'),
        classes=dict(PACKET_CLASSES, SFTPName={'filename': 'any', 'longname': 'any', 'attrs': 'any'}),
        inline=dict(PACKET_INLINE), truthy=PACKET_TRUTHY, setup=name_decode_setup(v),
        stubs={'cls': record_ctor_stub('SFTPName', None), 'SFTPAttrs.decode': name_attrs_decode_stub},
        ensures=[('filename / longname / attrs as sent, exactly rest left', post)],
        raises={}, cases=[(f'v{v}', {'arg:sftp_version': v})])
    sp.no_replay = True
    return sp


NAME_SPECS = [(_mk_name_encode(_v), _mk_name_decode(_v)) for _v in (3, 4, 5, 6)]


# ================================================================================================ lemmas / notes
def lemma_flag_bits():
    """binary digits of a sum of distinct powers of two: for every set S of the flag bits a version defines (and
    hence for every partial sum the encoder passes through) bit b of sum(S) is 1 iff 2^b is in S.  Used as
    AttrVals.bit_facts next to AttrVals.flag_sum.  Proved by exhaustive evaluation (z3's integer arithmetic does not
    decide (x div 2^b) mod 2 over sums of if-then-else terms in reasonable time)."""
    bad, n = [], 0
    for v in (3, 4, 5, 6):
        bits = [b for _g, b in WIRE[v] if b is not None]
        for mask in range(1 << len(bits)):
            s_ = sum(b for k, b in enumerate(bits) if mask >> k & 1)
            n += 1
            for b in range(32):
                if ((s_ // (1 << b)) % 2 == 1) != any((1 << b) == bb and mask >> k & 1 for k, bb in enumerate(bits)):
                    bad.append((v, mask, b))
    return {'name': 'C14.flags#binary-digits-of-a-sum-of-distinct-bits', 'verdict': 'proved' if not bad else 'refuted',
            'backend': 'exhaustive evaluation', 'cases': n, 'detail': bad[:5], 'replayed': True}


def lemma_chain():
    """the region contracts of SFTPAttrs.encode / decode compose to the whole-function contracts
         encode(a, v) == uint32 flag_sum(a, v) ++ enc_group(g1) ++ ... ++ enc_group(gn)            (= enc_spec(a, v))
         decode(pre ++ enc_spec(a, v) ++ rest at |pre|, v) == norm_v(a), leaving rest
    (Hoare sequence rule: the regions partition the version-specialised body in order; each region's requires is the
    invariant its predecessors ensure; decode regions are case-split on the presence of the group they read, the
    cases are exhaustive; enc_spec is by definition the concatenation of the per-group encodings).  Checked here:
    every group of WIRE[v] is handled by exactly one region on each side, no other region reads the packet /
    appends, and the last region returns."""
    problems = []
    for v in (3, 4, 5, 6):
        want = [g for g, _b in WIRE[v]]
        for side, (regs, plan) in (('encode', attrs_encode_plan(v)), ('decode', attrs_decode_plan(v))):
            seen = [g for p in plan for g in p['groups']]
            exp = want if side == 'encode' else [g for g in want if g != 'subsec']
            if sorted(seen) != sorted(exp):
                problems.append(f'v{v} {side}: groups handled {seen} != wire groups {exp}')
            for p in plan:
                touches = any(isinstance(n, ast.Name) and n.id == ('packet' if side == 'decode' else 'attrs')
                              and not (side == 'encode' and isinstance(n.ctx, ast.Store))
                              for s_ in p['stmts'] for n in ast.walk(s_))
                src = ' '.join(ast.unparse(s_) for s_ in p['stmts'])
                if side == 'encode' and 'attrs.append' not in src and 'attrs.extend' not in src:
                    touches = False
                if touches and not p['groups'] and not (side == 'decode' and 'packet.get_uint32()' in src and p['i'] == 0) \
                        and 'FILEXFER_ATTR_EXTENDED' not in src and not any(
                            b not in {bb for _g, bb in WIRE[v]} for b in p['bits']):
                    problems.append(f'v{v} {side} region {p["i"]} moves data without a wire group')
            if not isinstance(plan[-1]['stmts'][-1], ast.Return):
                problems.append(f'v{v} {side}: last region does not return')
    return {'name': 'C14.sftp.SFTPAttrs#composition(region contracts cover encode and decode for v3..v6)',
            'verdict': 'proved' if not problems else 'refuted', 'backend': 'structural check', 'detail': problems[:8],
            'replayed': False}


def codec_lemmas():
    return [lemma_flag_bits(), lemma_chain()]


CODEC_NOTES += [
    'codecs, discharged: SFTPLimits / SFTPVFSAttrs encode == enc_spec and decode(pre ++ enc_spec ++ rest) == the '
    'values, leaving rest; SFTPName encode/decode for v3..v6 with bytes names over an arbitrary attribute block; '
    'SFTPAttrs.encode == enc_spec(a, v) and SFTPAttrs.decode(pre ++ enc_spec(a, v) ++ rest) == norm_v(a) leaving '
    'rest, for v in 3..6, every flag combination and all field values within their wire ranges, proved region by '
    'region over the version-specialised body (decode additionally case-split on the presence of the group read); '
    'the round trip is the composition (lemma C14.sftp.SFTPAttrs#composition)',
    'codecs, still bounded only (specs/sftp_codec_check.py): the EXTENDED attribute list (count + name/value pairs: '
    'generator / range(count) loops over a symbolic list) - the discharged contracts require extended == (); '
    'SFTPRanges (list comprehension over a symbolic list of ranges); SFTPName with str file names; values outside '
    'the wire ranges (encode raises OverflowError there)',
    'codecs, trusted: misc.Record / _RecordMeta constructor semantics (record_ctor_stub: annotation order, class '
    'defaults, positional then keyword arguments); UTF-8 round trip decode(encode(s)) == s for the strings sent '
    '(owner, group, MIME type) and str.encode never failing (engine model); str(int) is a function (decimal digits '
    'not modelled); stat.S_ISxxx / S_IFMT as (mode & 0o170000) comparisons; the flag-word lemma '
    'C14.flags#binary-digits-of-a-sum-of-distinct-bits is proved by exhaustive evaluation, not by the SMT solver; '
    'helpers outside the codec (from_local, _tuple_to_float_sec, _float_sec_to_tuple, _utime_to_attrs, '
    '_lookup_uid/_lookup_gid name resolution) are not covered',
]
