"""C17 - trust-file lookups follow the documented matching rules.  Sidecar contracts.

Oracle: sshd(8) AUTHORIZED_KEYS / SSH_KNOWN_HOSTS FILE FORMAT, ssh_config(5) PATTERNS (specs/openssh_files.py).
"""
import z3
from pyvc.contracts import *
from pyvc.engine import LoopSpec, Out, Prove
from pyvc.values import *
from specs import openssh_files as F

PROP = 'C17'

ASSUMPTIONS = [
    'external libraries are uninterpreted functions with assumed contracts: fnmatch.fnmatch (total, functional), '
    'ipaddress via misc.ip_address / ip_network (value or ValueError, decided by a predicate of the text), '
    'binascii.a2b_base64 (value or binascii.Error), hmac/sha1 (functional), str.split / splitlines / strip '
    '(functional; split(sep, 1) is modelled exactly, split(None, k) has at most k+1 fields and none iff strip() is '
    'empty), key / certificate / subject import (value or KeyImportError: C10/C15 signals clause)',
    'that fnmatch on the bracket-escaped text IS the OpenSSH wildcard language (*, ?, literals) is not proved: it is '
    'the bounded exhaustive differential check C17.bounded#wildcard-vs-fnmatch-escaping; the escaping itself '
    '(_pattern == esc(text)) is proved',
    'layering by identification: a matcher object is identified with the text it was built from '
    '(build_pattern / HostPatternList / _PlainHost / _HashedHost are functions of the text) and its behaviour is an '
    'uninterpreted predicate at each module boundary; the predicate of an upper layer is DEFINED by the contract '
    'proved one layer down (hostpat_matches(PlainHost(t)) := hostlist_matches(HostPatternList(t)) := the '
    '_PatternList contract over split(t, ",") with pat_matches_host(build_pattern(x)) := the WildcardHostPattern / '
    'CIDRHostPattern contracts).  The text-level end-to-end behaviour is additionally compared with the reference '
    'implementation on real files (bounded checks known-hosts-lookup, authorized-keys-validate, pattern-lists)',
    'recursive spec functions (pos/neg patterns of a list, escape, selected pattern entries, per-marker result '
    'lists, exact-index fold, tokenizer state, per-file entry lists) are uninterpreted; only instances of their '
    'recursive definition (empty / snoc) are assumed.  Prefix facts s[:0]=[], s[:i]=s[:i-1]++[s[i-1]], s[:len]=s are '
    'proved once for arbitrary s, i (lemmas C17.lemma#prefix-*) and then instantiated',
    'SSHKnownHosts._match is verified in two parts composed at the cut assertion matches == selected(...) '
    '([select] establishes it, [classify] starts from an arbitrary list); SSHKnownHosts.match uses the composed '
    'contract.  load() is specified through a ghost log of the _add_exact/_add_pattern calls whose effect on the '
    'tables is proved separately; class invariant "every indexed entry has a key, certificate or subject" is '
    'proved on the log produced by load (obligation every-indexed-entry-has-a-key-certificate-or-subject) and '
    'at _match it appears as the only condition under which AssertionError may escape (not as a requires: it would '
    'be a quantified invariant over both tables)',
    'equality of keys is the abstract "same key" relation (SSHKey.__eq__ compares public data: not re-verified here)',
    'option tokenizer: the spec automaton (specs/openssh_files.py tok_*, ref_tokenize_options) is restated from '
    'OpenSSH sshkey_advance_past_options / opt_dequote: backslash-doublequote is the only escape, every other '
    'backslash is an ordinary character; the reference oracle is itself validated against ssh-keygen -l '
    '(C17.bounded#oracle-vs-ssh-keygen-options).  asyncssh is more liberal than sshd about WHERE quotes may appear '
    '(quotes toggle anywhere in the field); that liberality is part of the spec automaton',
    'exact index: "" is never a key (class invariant: required by _match / match / _add_exact, re-established by '
    '_add_exact, the only writer; SSHKnownHosts.__init__ starts from an empty dict); empty lookup names select '
    'nothing',
    'not under contract: match_known_hosts argument dispatch (callable / list / bytes forms), read_* file access, '
    'sshsig allowed-signers entries.  _add_environment / _add_permitopen are verified against stubs of the '
    'options.setdefault(...) call (the dict / set object stored under the option is abstract); validate_x509 is '
    'verified with entry.match_options as an oracle (its meaning: the match_options contract)',
    '_x509_available is a symbolic flag (False in the sandbox, True with cryptography-x509): both values verified',
]

# ----------------------------------------------------------------------------- pattern.py: _PatternList
IPO = 'opt[opaque:IP]'
m_host = z3.Function('pat_matches_host', F.PAT, StrS, StrS, sort_of(IPO), BoolS)   # p.matches(host, addr, ip)
m_name = z3.Function('pat_matches_name', F.PAT, StrS, BoolS)                        # p.matches(value)

PL_FIELDS = {'_pos_patterns': 'seq[opaque:Pat]', '_neg_patterns': 'seq[opaque:Pat]'}


def build_pattern_stub(cx):
    """self.build_pattern(text): abstract method; the matcher is a function of the text"""
    return VOpaque(F.build(cx.args[0].z), 'Pat')


build_pattern_stub.modifies = ()


def pl_init_inv(c):
    it, i = c.extra['iter'].z, c.extra['i']
    return z3.And(c.new('_pos_patterns') == F.pos_of(F.prefix(it, i)),
                  c.new('_neg_patterns') == F.neg_of(F.prefix(it, i)))


def pl_init_lemmas(c):
    it, i = c.extra['iter'].z, c.extra['i']
    return F.pl_empty() + F.prefix_facts(it, i) + F.pl_snoc(F.prefix(it, i - 1), it[i - 1])


patternlist_init = Spec(
    PROP, 'pattern', '_PatternList.__init__', self_class='_PatternList', params=dict(patterns='str'),
    classes={'_PatternList': PL_FIELDS},
    stubs={'self.build_pattern': build_pattern_stub},
    loops={1: LoopSpec(header="for pattern in patterns.split(',')", invariant=pl_init_inv, lemmas=pl_init_lemmas,
                       modifies=['_pos_patterns', '_neg_patterns'])},
    ensures=[('positive-patterns-are-the-unnegated-items',
              lambda c: c.new('_pos_patterns') == F.pos_of(F.split_comma(c.arg('patterns')))),
             ('negated-patterns-are-the-bang-items-stripped',
              lambda c: c.new('_neg_patterns') == F.neg_of(F.split_comma(c.arg('patterns'))))])


def _pl_matches(tag, argt, mfun):
    def stub(cx):
        return VBool(mfun(cx.recv.z, *[to_z3(a, t) for a, t in zip(cx.args, argt)]))
    stub.modifies = ()

    def some(seq, args):
        k = z3.Int(fresh_name('k'))
        return z3.Exists([k], z3.And(k >= 0, k < z3.Length(seq), mfun(seq[k], *args)))

    def post(c):
        args = [to_z3(a, t) for a, t in zip(c.argv('args').items, argt)]
        return c.result == z3.And(some(c.old('_pos_patterns'), args), z3.Not(some(c.old('_neg_patterns'), args)))
    sp = Spec(PROP, 'pattern', '_PatternList.matches', self_class='_PatternList',
              params=dict(args='tuple[' + ','.join(argt) + ']'), classes={'_PatternList': PL_FIELDS},
              stubs={'p.matches': stub},
              ensures=[('some-positive-and-no-negated(negation-wins)', post)], returns='bool')
    sp.tag = tag
    return sp


patternlist_matches_host = _pl_matches('host', ['str', 'str', IPO], m_host)
patternlist_matches_name = _pl_matches('name', ['str'], m_name)


# ----------------------------------------------------------------------------- pattern.py: wildcard patterns
class TSpec(Spec):
    """several contracts of one function (different argument shapes): distinct obligation names"""
    @property
    def name(self):
        t = getattr(self, 'tag', None)
        return f'{self.prop}.{self.module}.{self.qualname}' + (f'[{t}]' if t else '')


def esc_inv(c):
    p, i, acc = c.arg('pattern'), c.extra['i'], c.extra['acc']
    return acc.z == F.esc(F.sprefix(p, i))


def esc_lemmas(c):
    p, i = c.arg('pattern'), c.extra['i']
    return F.esc_empty() + F.str_prefix_facts(p, i) + F.esc_snoc(F.sprefix(p, i - 1), z3.SubString(p, i - 1, 1))


_esc_loop = LoopSpec(invariant=esc_inv, lemmas=esc_lemmas)
_esc_loop.acc_type = 'str'

wildcard_init = Spec(
    PROP, 'pattern', '_BaseWildcardPattern.__init__', self_class='_BaseWildcardPattern',
    params=dict(pattern='str'), classes={'_BaseWildcardPattern': {'_pattern': 'str'}},
    loops={'g1': _esc_loop},
    ensures=[('brackets-escaped-exactly-once', lambda c: c.new('_pattern') == F.esc(c.arg('pattern')))])


def fnmatch_stub(cx):
    """fnmatch.fnmatch(name, pat): external; assumed total on str and a function of its arguments"""
    return VBool(F.fnm(cx.args[0].z, cx.args[1].z))


fnmatch_stub.modifies = ()
_WC = dict(classes={'W': {'_pattern': 'str'}},
           stubs={'fnmatch': fnmatch_stub, 'super': lambda cx: cx.ex.self_ref},
           inline={'super()._matches': ('pattern', '_BaseWildcardPattern._matches')})

wildcard_matches = Spec(
    PROP, 'pattern', 'WildcardPattern.matches', self_class='W', params=dict(value='str'), returns='bool',
    ensures=[('value-matches-escaped-pattern', lambda c: c.result == F.fnm(c.arg('value'), c.old('_pattern')))],
    **_WC)

wildcard_host_matches = Spec(
    PROP, 'pattern', 'WildcardHostPattern.matches', self_class='W',
    params=dict(host='str', addr='str', _ip=IPO), returns='bool',
    ensures=[('nonempty-host-or-nonempty-addr-matches', lambda c: c.result == z3.Or(
        z3.And(z3.Length(c.arg('host')) > 0, F.fnm(c.arg('host'), c.old('_pattern'))),
        z3.And(z3.Length(c.arg('addr')) > 0, F.fnm(c.arg('addr'), c.old('_pattern')))))],
    **_WC)


# ----------------------------------------------------------------------------- pattern.py: CIDR patterns
def ip_network_stub(cx):
    """misc.ip_network(text) -> ipaddress network; ValueError iff ipaddress rejects the text (assumed contract)"""
    t = cx.args[0].z
    return [Out(ret=VOpaque(F.net_of(t), 'Net'), assume=[F.is_net(t)]),
            Out(exc=VExc('ValueError'), assume=[z3.Not(F.is_net(t))])]


ip_network_stub.modifies = ()

cidr_init = Spec(
    PROP, 'pattern', 'CIDRHostPattern.__init__', self_class='CIDRHostPattern', params=dict(pattern='str'),
    classes={'CIDRHostPattern': {'_network': 'opaque:Net'}}, stubs={'ip_network': ip_network_stub},
    ensures=[('network-of-the-text', lambda c: z3.And(F.is_net(c.arg('pattern')),
                                                      c.new('_network') == F.net_of(c.arg('pattern'))))],
    raises={'ValueError': lambda c: z3.Not(F.is_net(c.arg('pattern')))})

cidr_matches = Spec(
    PROP, 'pattern', 'CIDRHostPattern.matches', self_class='CIDRHostPattern',
    params=dict(_host='str', _addr='str', ip=IPO), returns='bool',
    classes={'CIDRHostPattern': {'_network': 'opaque:Net'}},
    ensures=[('ip-given-and-inside-network', lambda c: c.result == z3.And(
        z3.Not(c.argv('ip').isnone), F.in_net(c.old('_network'), c.argv('ip').val.z)))])
cidr_matches.no_replay = True      # the native harness has no ipaddress objects for the opaque network / address


def cidr_ctor_stub(cx):
    """CIDRHostPattern(text): the contract proved above (cidr_init)"""
    t = cx.args[0].z
    ref = cx.ex.new_object(cx.st, 'CIDRHostPattern', 'cidr')
    net = cx.ex.get_field(cx.st, ref, '_network')
    return [Out(ret=ref, assume=[F.is_net(t), net.z == F.net_of(t)]),
            Out(exc=VExc('ValueError'), assume=[z3.Not(F.is_net(t))])]


def wild_ctor_stub(cx):
    """WildcardHostPattern(text): the contract proved above (wildcard_init)"""
    ref = cx.ex.new_object(cx.st, 'WildcardHostPattern', 'wild')
    pat = cx.ex.get_field(cx.st, ref, '_pattern')
    return [Out(ret=ref, assume=[pat.z == F.esc(cx.args[0].z)])]


cidr_ctor_stub.modifies = wild_ctor_stub.modifies = ()
cidr_ctor_stub.spec_getter = lambda: cidr_init          # reported as a verified callee contract, not as trusted
wild_ctor_stub.spec_getter = lambda: wildcard_init


def _build_post(c):
    r = c.result_v
    st = c.new_state
    cls = st.rec(r).cls
    t = c.arg('pattern')
    if cls == 'CIDRHostPattern':
        return z3.And(F.is_net(t), c.new('_network', r) == F.net_of(t))
    return z3.And(z3.Not(F.is_net(t)), z3.BoolVal(cls == 'WildcardHostPattern'), c.new('_pattern', r) == F.esc(t))


host_build_pattern = Spec(
    PROP, 'pattern', 'HostPatternList.build_pattern', self_class='HostPatternList', params=dict(pattern='str'),
    classes={'HostPatternList': {}, 'CIDRHostPattern': {'_network': 'opaque:Net'},
             'WildcardHostPattern': {'_pattern': 'str'}},
    stubs={'CIDRHostPattern': cidr_ctor_stub, 'WildcardHostPattern': wild_ctor_stub},
    ensures=[('cidr-iff-ip_network-accepts-else-wildcard', _build_post)])


# ----------------------------------------------------------------------------- auth_keys.py: option matching
HPL, WPL, XPAT = opaque_sort('HPL'), opaque_sort('WPL'), opaque_sort('XPat')    # pattern-list objects held in options
ENTRY, KEY, OPTS = opaque_sort('Entry'), opaque_sort('Key'), opaque_sort('Options')
SSTR = F.SSTR
hostlist_matches = z3.Function('hostlist_matches', HPL, StrS, StrS, sort_of(IPO), BoolS)   # HostPatternList.matches(host, addr, ip)


def hpl_matches(lst, host, addr, ip):
    """the same predicate with a definite (non-None) address object"""
    return hostlist_matches(lst, host, addr, sort_of(IPO).constructor(1)(ip))
wpl_matches = z3.Function('namelist_matches', WPL, StrS, BoolS)               # WildcardPatternList.matches(name)
xpat_matches = z3.Function('x509pattern_matches', XPAT, opaque_sort('X509Name'), BoolS)
_OF = 'opt[seq[opaque:HPL]]'
_OP = 'opt[seq[opaque:WPL]]'
_OX = 'opt[seq[opaque:XPat]]'
opt_from = z3.Function('options_from', OPTS, sort_of(_OF))             # options.get('from')
opt_principals = z3.Function('options_principals', OPTS, sort_of(_OP))
opt_subject = z3.Function('options_subject', OPTS, sort_of(_OX))


def options_get_stub(cx):
    """self.options.get(name) for the three list-valued restriction options (dict lookup, None when absent)"""
    name = concrete_str(cx.args[0])
    o = cx.selff('options').z
    if name == 'from':
        return from_z3(opt_from(o), _OF)
    if name == 'principals':
        return from_z3(opt_principals(o), _OP)
    if name == 'subject':
        return from_z3(opt_subject(o), _OX)
    raise Unsupported(f'options.get({name!r})')


def list_matches_stub(cx):
    """<pattern list>.matches(...): uninterpreted predicate of the list object and the arguments (its meaning is
    the _PatternList contract above)"""
    r = cx.recv
    if r.sortname == 'HPL':
        ip = cx.args[2]
        return VBool(hpl_matches(r.z, cx.args[0].z, cx.args[1].z, ip.z))
    if r.sortname == 'WPL':
        return VBool(wpl_matches(r.z, cx.args[0].z))
    return VBool(xpat_matches(r.z, cx.args[0].z))


def ip_address_stub(cx):
    """misc.ip_address(text): ValueError iff ipaddress rejects the text (assumed contract)"""
    t = cx.args[0].z
    return [Out(ret=VOpaque(F.ip_of(t), 'IP'), assume=[F.is_ip(t)]),
            Out(exc=VExc('ValueError'), assume=[z3.Not(F.is_ip(t))])]


options_get_stub.modifies = list_matches_stub.modifies = ip_address_stub.modifies = ()


def _opt(z, t):
    v = from_z3(z, t)
    return v.isnone, v.val.z


def spec_match_options(opts, host, addr, principals_v, subject_v):
    """sshd(8): every from= list must accept the client (name, address), every principals= list must accept
    one of the certificate's principals (only when a certificate is presented), every subject pattern the
    certificate subject"""
    fn, fs = _opt(opt_from(opts), _OF)
    pn, ps = _opt(opt_principals(opts), _OP)
    xn, xs = _opt(opt_subject(opts), _OX)
    k, j = z3.Int(fresh_name('k')), z3.Int(fresh_name('j'))
    ip = F.ip_of(addr)
    from_ok = z3.Or(fn, z3.ForAll([k], z3.Implies(z3.And(k >= 0, k < z3.Length(fs)),
                                                  hpl_matches(fs[k], host, addr, ip))))
    if principals_v is VNone:
        prin_ok = z3.BoolVal(True)
    else:
        cp = principals_v.val.z
        prin_ok = z3.Or(pn, principals_v.isnone, z3.ForAll([k], z3.Implies(
            z3.And(k >= 0, k < z3.Length(ps)),
            z3.Exists([j], z3.And(j >= 0, j < z3.Length(cp), wpl_matches(ps[k], cp[j]))))))
    if subject_v is VNone:
        subj_ok = z3.BoolVal(True)
    else:
        subj_ok = z3.Or(xn, subject_v.isnone, z3.ForAll([k], z3.Implies(
            z3.And(k >= 0, k < z3.Length(xs)), xpat_matches(xs[k], subject_v.val.z))))
    return z3.And(from_ok, prin_ok, subj_ok)


def _from_nonempty(c):
    fn, fs = _opt(opt_from(c.old('options')), _OF)
    return z3.And(z3.Not(fn), z3.Length(fs) > 0)


match_options = Spec(
    PROP, 'auth_keys', '_SSHAuthorizedKeyEntry.match_options', self_class='_SSHAuthorizedKeyEntry',
    params=dict(client_host='str', client_addr='str', cert_principals='opt[seq[str]]',
                cert_subject='opt[opaque:X509Name]'),
    classes={'_SSHAuthorizedKeyEntry': {'options': 'opaque:Options'}},
    stubs={'self.options.get': options_get_stub, 'pattern.matches': list_matches_stub,
           'ip_address': ip_address_stub},
    returns='bool',
    ensures=[('all-from-principals-subject-lists-match',
              lambda c: c.result == spec_match_options(c.old('options'), c.arg('client_host'), c.arg('client_addr'),
                                                       c.argv('cert_principals'), c.argv('cert_subject')))],
    # the peer address of a connection is always an IP literal; anything else is rejected loudly
    raises={'ValueError': lambda c: z3.And(_from_nonempty(c), z3.Not(F.is_ip(c.arg('client_addr'))))})
match_options.no_replay = True


# ----------------------------------------------------------------------------- auth_keys.py: validate
entry_accepts = z3.Function('entry_match_options', ENTRY, StrS, StrS, sort_of('opt[seq[str]]'), BoolS)
key_of = z3.Function('attr_Entry_key', ENTRY, sort_of('opt[opaque:Key]'))
options_of = z3.Function('attr_Entry_options', ENTRY, OPTS)


def entry_match_options_stub(cx):
    a = cx.args
    return VBool(entry_accepts(cx.recv.z, a[0].z, a[1].z, to_z3(a[2], 'opt[seq[str]]')))


entry_match_options_stub.modifies = ()


def _hit(c, e):
    """the line applies: same key and its restrictions accept this client"""
    kv = from_z3(key_of(e), 'opt[opaque:Key]')
    return z3.And(z3.Not(kv.isnone), kv.val.z == c.arg('key'),
                  entry_accepts(e, c.arg('client_host'), c.arg('client_addr'),
                                to_z3(c.argv('cert_principals'), 'opt[seq[str]]')))


def _validate_entries(c):
    return z3.If(c.arg('ca'), c.old('_ca_entries'), c.old('_user_entries'))


def validate_inv(c):
    it, i = c.extra['iter'].z, c.extra['i']
    j = z3.Int(fresh_name('j'))
    return z3.ForAll([j], z3.Implies(z3.And(j >= 0, j < i), z3.Not(_hit(c, it[j]))))


def validate_post(c):
    E = _validate_entries(c)
    j, k0 = z3.Int(fresh_name('j')), z3.Int(fresh_name('k0'))
    r = c.result_v
    if r is VNone:
        return z3.ForAll([j], z3.Implies(z3.And(j >= 0, j < z3.Length(E)), z3.Not(_hit(c, E[j]))))
    if isinstance(r, VOpt):
        raise Unsupported('validate result shape')
    return z3.Exists([k0], z3.And(k0 >= 0, k0 < z3.Length(E), _hit(c, E[k0]), r.z == options_of(E[k0]),
                                  z3.ForAll([j], z3.Implies(z3.And(j >= 0, j < k0), z3.Not(_hit(c, E[j]))))))


validate = Spec(
    PROP, 'auth_keys', 'SSHAuthorizedKeys.validate', self_class='SSHAuthorizedKeys',
    params=dict(key='opaque:Key', client_host='str', client_addr='str', cert_principals='opt[seq[str]]', ca='bool'),
    classes={'SSHAuthorizedKeys': {'_user_entries': 'seq[opaque:Entry]', '_ca_entries': 'seq[opaque:Entry]'}},
    stubs={'entry.match_options': entry_match_options_stub},
    loops={1: LoopSpec(invariant=validate_inv)}, modifies=[],
    ensures=[('first-match(key-equal-and-options-accept)', validate_post)])
validate.opaque_attrs = {('Entry', 'key'): 'opt[opaque:Key]', ('Entry', 'options'): 'opaque:Options'}
validate.no_replay = True


# ----------------------------------------------------------------------------- known_hosts.py: lookup
ENTRY_T, PE_T = F.ENTRY_T, F.PE_T
KH_FIELDS = {'_exact_entries': 'dict[str,seq[' + ENTRY_T + ']]', '_pattern_entries': 'seq[' + PE_T + ']'}
KH_RESULT_T = ['seq[opaque:Key]'] * 3 + ['seq[opaque:Cert]'] * 2 + ['seq[opaque:Subj]'] * 2
KH_LOCALS = ['host_keys', 'ca_keys', 'revoked_keys', 'x509_certs', 'revoked_certs', 'x509_subjects',
             'revoked_subjects']


def hostpat_matches_stub(cx):
    """<_PlainHost | _HashedHost>.matches(host, addr, ip): uninterpreted predicate of the matcher object (its
    meaning: the _PlainHost / _HashedHost contracts below)"""
    a = cx.args
    return VBool(F.hp_matches(cx.recv.z, a[0].z, a[1].z, to_z3(a[2], IPO)))


hostpat_matches_stub.modifies = ()


def _lz(c, v, t):
    """z3 term of a list-valued local / result item (concrete list object or symbolic sequence)"""
    v = c.ex.deref(c.new_state, v)
    return to_z3(v, t) if isinstance(v, VList) else v.z


def _port_given(port_v):
    """`if port:` - a port is given and is not 0"""
    if port_v is VNone:
        return z3.BoolVal(False)
    if isinstance(port_v, VInt):
        return port_v.z != 0
    return z3.And(z3.Not(port_v.isnone), port_v.val.z != 0)


def _port_z(port_v):
    return port_v.z if isinstance(port_v, VInt) else port_v.val.z


def kh_names(c, with_port=True):
    """the names looked up: '[host]:port' / '[addr]:port' for a non-default port, else the plain ones"""
    host, addr, port_v = c.arg('host'), c.arg('addr'), c.argv('port')
    if port_v is VNone or not with_port:
        return host, addr
    p = _port_given(port_v)
    return z3.If(p, F.port_name(host, _port_z(port_v)), host), z3.If(p, F.port_name(addr, _port_z(port_v)), addr)


def kh_ip(c):
    """address used for CIDR patterns: the peer address when given, else the host name if it is an IP literal"""
    host, addr = c.arg('host'), c.arg('addr')
    dt = sort_of(IPO)
    return z3.If(z3.Length(addr) > 0, dt.constructor(1)(F.ip_of(addr)),
                 z3.If(F.is_ip(host), dt.constructor(1)(F.ip_of(host)), dt.constructor(0)()))


def kh_selected(c, with_port=True):
    """SSH_KNOWN_HOSTS: the entries a lookup selects, in index order: exact[name], exact[address], then every
    pattern line (wildcard / negation / CIDR / hashed) whose host field matches"""
    m = c.oldv('_exact_entries')
    h, a = kh_names(c, with_port)
    ip = kh_ip(c)

    def lk(x):
        # an absent host name / peer address ('' for tunnelled or UNIX-socket connections) selects nothing
        return z3.If(z3.And(z3.Length(x) > 0, z3.Select(m.dom, x)), z3.Select(m.val, x), z3.Empty(F.SENT))
    return z3.Concat(lk(h), lk(a), F.pfilter(c.old('_pattern_entries'), h, a, ip))


def kh_no_empty_name(c, new=False):
    """class invariant of the exact index: '' is never a key (established by _add_exact, the only writer)"""
    m = c.newv('_exact_entries') if new else c.oldv('_exact_entries')
    return z3.Not(z3.Select(m.dom, z3.StringVal('')))


def kh_match_post(i):
    def post(c):
        return _lz(c, c.result_v.items[i], KH_RESULT_T[i]) == F.kh_list(i, kh_selected(c))
    return post


def kh_class_inv(c):
    it, i = c.extra['iter'].z, c.extra['i']
    return z3.And(*[_lz(c, c.localv(n), KH_RESULT_T[k]) == F.kh_list(k, F.gprefix(it, i))
                    for k, n in enumerate(KH_LOCALS)])


def _prefix_lemmas(it, i, snoc):
    """instances of the generic prefix facts (proved once, see extra_checks) + the definitional unfolding of the
    spec function for the element just processed"""
    return F.prefix_facts(it, i) + snoc(F.gprefix(it, i - 1), it[i - 1])


def kh_class_lemmas(c):
    return F.kh_empty() + _prefix_lemmas(c.extra['iter'].z, c.extra['i'], F.kh_snoc)


def kh_gen_inv(c):
    it, i, acc = c.extra['iter'].z, c.extra['i'], c.extra['acc']
    return acc.z == F.pfilter(F.gprefix(it, i), c.local('host'), c.local('addr'), to_z3(c.localv('ip'), IPO))


def kh_gen_lemmas(c):
    h, a, ip = c.local('host'), c.local('addr'), to_z3(c.localv('ip'), IPO)
    return F.pf_empty(h, a, ip) + _prefix_lemmas(c.extra['iter'].z, c.extra['i'],
                                                lambda s, x: F.pf_snoc(s, x, h, a, ip))


_kh_gen = LoopSpec(invariant=kh_gen_inv, lemmas=kh_gen_lemmas)
_kh_gen.acc_type = ENTRY_T


def _kh_cut(fn):
    """index of the first statement after the last `matches += ...` (the cut point of _match)"""
    import ast
    idx = [i for i, st in enumerate(fn.body) if isinstance(st, ast.AugAssign) and
           isinstance(st.target, ast.Name) and st.target.id == 'matches']
    if not idx:
        raise Unsupported('_match no longer builds `matches` with += statements (cut point moved)')
    return idx[-1] + 1


_KH_RAISES_VALUE = lambda c: z3.And(z3.Length(c.arg('addr')) > 0, z3.Not(F.is_ip(c.arg('addr'))))

# _match is verified in two parts cut at the assertion  matches == kh_selected(...)  (sequential composition):
#   [select]   everything up to the last `matches +=`  establishes the assertion;
#   [classify] the rest, started with an arbitrary list `matches`, sorts exactly that list by marker.
kh_match_select = TSpec(
    PROP, 'known_hosts', 'SSHKnownHosts._match', self_class='SSHKnownHosts',
    params=dict(host='str', addr='str', port='opt[int]'), classes={'SSHKnownHosts': KH_FIELDS},
    stubs={'ip_address': ip_address_stub, 'entry.matches': hostpat_matches_stub},
    loops={'g1': _kh_gen},
    requires=kh_no_empty_name, modifies=[],
    region=lambda fn: fn.body[:_kh_cut(fn)],
    ensures=[('selected==exact(name)+exact(addr)+matching-patterns',
              lambda c: _lz(c, c.localv('matches'), 'seq[' + ENTRY_T + ']') == kh_selected(c))],
    raises={'ValueError': _KH_RAISES_VALUE})
kh_match_select.tag = 'select'
kh_match_select.precise_fstrings = True
kh_match_select.no_replay = True


def _kh_classify_setup(ex, st):
    st.env['matches'] = ex.fresh(st, 'seq[' + ENTRY_T + ']', 'matches')
    st.inputs['matches'] = st.env['matches']


def _kh_m0(c):
    return c.old_state.env['matches'].z


def kh_classify_post(i):
    def post(c):
        return _lz(c, c.result_v.items[i], KH_RESULT_T[i]) == F.kh_list(i, _kh_m0(c))
    return post


def kh_bad_entry_in(M):
    """some selected entry carries neither key, certificate nor subject (excluded by load: class invariant)"""
    k = z3.Int(fresh_name('k'))
    p = F.entry_parts(M[k])
    return z3.Exists([k], z3.And(k >= 0, k < z3.Length(M),
                                 z3.Not(p['key'][0]), z3.Not(p['cert'][0]), z3.Not(p['subj'][0])))


kh_match_classify = TSpec(
    PROP, 'known_hosts', 'SSHKnownHosts._match', self_class='SSHKnownHosts',
    params=dict(host='str', addr='str', port='opt[int]'), classes={'SSHKnownHosts': KH_FIELDS},
    loops={1: LoopSpec(invariant=kh_class_inv, lemmas=kh_class_lemmas)},
    local_types=dict(zip(KH_LOCALS, KH_RESULT_T)), modifies=[],
    region=lambda fn: fn.body[_kh_cut(fn):], setup=_kh_classify_setup,
    ensures=[(n.replace('_', '-') + '==selected-entries-of-that-class', kh_classify_post(i))
             for i, n in enumerate(KH_LOCALS)],
    raises={'AssertionError': lambda c: kh_bad_entry_in(_kh_m0(c))})
kh_match_classify.tag = 'classify'
kh_match_classify.no_replay = True

# the composed contract of _match (callee view for SSHKnownHosts.match); not run by itself
kh_match_callee = Spec(
    'C17x', 'known_hosts', 'SSHKnownHosts._match', self_class='SSHKnownHosts',
    params=dict(host='str', addr='str', port='opt[int]'), classes={'SSHKnownHosts': KH_FIELDS},
    returns='tuple[' + ','.join(KH_RESULT_T) + ']', modifies=[], requires=kh_no_empty_name,
    ensures=[(n, kh_match_post(i)) for i, n in enumerate(KH_LOCALS)],
    raises={'ValueError': _KH_RAISES_VALUE, 'AssertionError': lambda c: kh_bad_entry_in(kh_selected(c))})
Spec.registry.remove(kh_match_callee)


# ----------------------------------------------------------------------------- known_hosts.py: port fallback
def _match_call_stub(cx):
    """self._match(host, addr[, port]) through the composed contract above (default port=None made explicit)"""
    if len(cx.args) == 2 and 'port' not in cx.kwargs:
        cx.args = list(cx.args) + [VNone]
    return contract_stub(lambda: kh_match_callee)(cx)


_match_call_stub.modifies = ()
_match_call_stub.spec_getter = lambda: kh_match_callee


def kh_fallback_post(i):
    def post(c):
        """sshd(8)/ssh(1): for a non-default port the '[host]:port' entries are consulted first; when they trust
        nothing (no host key, CA, X.509 certificate or subject - revocations alone do not count) the plain names
        are looked up instead; revocations found for the port form are kept"""
        with_port = [F.kh_list(k, kh_selected(c, True)) for k in range(7)]
        plain = [F.kh_list(k, kh_selected(c, False)) for k in range(7)]
        nothing = z3.And(*[z3.Length(with_port[k]) == 0 for k in (0, 1, 3, 5)])
        fb = z3.And(_port_given(c.argv('port')), nothing)
        # a revocation recorded for '[host]:port' stays in force when the trust lists fall back to the plain name
        fallback = z3.Concat(with_port[i], plain[i]) if i in (2, 4, 6) else plain[i]
        return _lz(c, c.result_v.items[i], KH_RESULT_T[i]) == z3.If(fb, fallback, with_port[i])
    return post


kh_match_public = Spec(
    PROP, 'known_hosts', 'SSHKnownHosts.match', self_class='SSHKnownHosts',
    params=dict(host='str', addr='str', port='opt[int]'), classes={'SSHKnownHosts': KH_FIELDS},
    stubs={'self._match': _match_call_stub}, requires=kh_no_empty_name, modifies=[],
    returns='tuple[' + ','.join(KH_RESULT_T) + ']',
    ensures=[(n.replace('_', '-') + '(port-form-else-plain-fallback)', kh_fallback_post(i))
             for i, n in enumerate(KH_LOCALS)],
    raises={'ValueError': _KH_RAISES_VALUE,
            'AssertionError': lambda c: z3.Or(kh_bad_entry_in(kh_selected(c, True)),
                                              kh_bad_entry_in(kh_selected(c, False)))})
kh_match_public.no_replay = True


# ----------------------------------------------------------------------------- known_hosts.py: index construction
def _ae_view(c, new=True):
    m = c.newv('_exact_entries') if new else c.oldv('_exact_entries')

    def lk(h):
        return z3.If(z3.Select(m.dom, h), z3.Select(m.val, h), z3.Empty(F.SENT))
    return m, lk


def add_exact_state(c, parts, i):
    """the index after the first i comma-separated names = the old index with `entry` appended under each of
    them in turn (F.idx_*: fold of 'append entry to the list of that name')"""
    e = to_z3(c.argv('entry'), ENTRY_T)
    m0, m1 = c.oldv('_exact_entries'), c.newv('_exact_entries')
    pre = F.gprefix(parts, i)
    return z3.And(m1.dom == F.idx_dom(m0.dom, m0.val, pre, e), m1.val == F.idx_val(m0.dom, m0.val, pre, e))


def add_exact_indexed(c, parts, i):
    """declarative reading: each non-empty one of the first i names is a key whose entry list ends with `entry`"""
    e = to_z3(c.argv('entry'), ENTRY_T)
    m1 = c.newv('_exact_entries')
    j = z3.Int(fresh_name('j'))
    lst = z3.Select(m1.val, parts[j])
    return z3.ForAll([j], z3.Implies(z3.And(j >= 0, j < i, z3.Length(parts[j]) > 0), z3.And(
        z3.Select(m1.dom, parts[j]), z3.Length(lst) > 0, lst[z3.Length(lst) - 1] == e)))


def add_exact_lemmas(c):
    it, i = c.extra['iter'].z, c.extra['i']
    e = to_z3(c.argv('entry'), ENTRY_T)
    m0 = c.oldv('_exact_entries')
    return F.idx_empty(m0.dom, m0.val, e) + F.prefix_facts(it, i) + \
        F.idx_snoc(m0.dom, m0.val, F.gprefix(it, i - 1), it[i - 1], e)


add_exact = Spec(
    PROP, 'known_hosts', 'SSHKnownHosts._add_exact', self_class='SSHKnownHosts',
    params=dict(pattern='str', entry=ENTRY_T), classes={'SSHKnownHosts': KH_FIELDS}, modifies=['_exact_entries'],
    loops={1: LoopSpec(invariant=lambda c: z3.And(add_exact_state(c, c.extra['iter'].z, c.extra['i']),
                                                  add_exact_indexed(c, c.extra['iter'].z, c.extra['i']),
                                                  kh_no_empty_name(c, new=True)),
                       lemmas=add_exact_lemmas, modifies=['_exact_entries'])},
    requires=kh_no_empty_name,
    ensures=[('index==old+entry-under-each-comma-name',
              lambda c: add_exact_state(c, F.split_comma(c.arg('pattern')),
                                        z3.Length(F.split_comma(c.arg('pattern'))))),
             ('every-comma-name-is-a-key-ending-with-entry',
              lambda c: add_exact_indexed(c, F.split_comma(c.arg('pattern')),
                                          z3.Length(F.split_comma(c.arg('pattern'))))),
             ('empty-name-never-indexed(class-invariant)', lambda c: kh_no_empty_name(c, new=True)),
             ('pattern-table-untouched', lambda c: c.new('_pattern_entries') == c.old('_pattern_entries'))])
add_exact.no_replay = True

mk_hashed = z3.Function('HashedHost', StrS, F.HP)        # the matcher object _HashedHost(text) / _PlainHost(text)
mk_plain = z3.Function('PlainHost', StrS, F.HP)


def hashed_ok(t):
    """_HashedHost(text) does not raise: exactly the contract proved for _HashedHost.__init__ below"""
    return hashed_wellformed(t)



def hashed_ctor_stub(cx):
    t = cx.args[0].z
    return [Out(ret=VOpaque(mk_hashed(t), 'HostPat'), assume=[hashed_ok(t)]),
            Out(exc=VExc('ValueError'), assume=[z3.Not(hashed_ok(t))])]


def plain_ctor_stub(cx):
    return VOpaque(mk_plain(cx.args[0].z), 'HostPat')


hashed_ctor_stub.modifies = plain_ctor_stub.modifies = ()
hashed_ctor_stub.spec_getter = lambda: hashed_init      # verified callee contracts (constructors)
plain_ctor_stub.spec_getter = lambda: plain_init

add_pattern = Spec(
    PROP, 'known_hosts', 'SSHKnownHosts._add_pattern', self_class='SSHKnownHosts',
    params=dict(pattern='str', entry=ENTRY_T), classes={'SSHKnownHosts': KH_FIELDS}, modifies=['_pattern_entries'],
    stubs={'_HashedHost': hashed_ctor_stub, '_PlainHost': plain_ctor_stub},
    ensures=[('appended(hashed-matcher-iff-leading-bar)', lambda c: c.new('_pattern_entries') == z3.Concat(
        c.old('_pattern_entries'), z3.Unit(F.PE.constructor(0)(
            z3.If(z3.PrefixOf(z3.StringVal('|'), c.arg('pattern')), mk_hashed(c.arg('pattern')),
                  mk_plain(c.arg('pattern'))), to_z3(c.argv('entry'), ENTRY_T))))),
        ('exact-table-untouched', lambda c: z3.And(
            c.newv('_exact_entries').dom == c.oldv('_exact_entries').dom,
            c.newv('_exact_entries').val == c.oldv('_exact_entries').val))],
    raises={'ValueError': lambda c: z3.And(z3.PrefixOf(z3.StringVal('|'), c.arg('pattern')),
                                           z3.Not(hashed_ok(c.arg('pattern'))),
                                           c.new('_pattern_entries') == c.old('_pattern_entries'))})
add_pattern.no_replay = True


# ----------------------------------------------------------------------------- known_hosts.py: host matchers
mk_hpl = z3.Function('HostPatternList', StrS, HPL)        # HostPatternList(text) (contract: _PatternList.__init__)


def hpl_ctor_stub(cx):
    return VOpaque(mk_hpl(cx.args[0].z), 'HPL')


def hpl_matches_stub(cx):
    a = cx.args
    return VBool(hostlist_matches(cx.recv.z, a[0].z, a[1].z, to_z3(a[2], IPO)))


hpl_ctor_stub.modifies = hpl_matches_stub.modifies = ()
_PH = dict(classes={'_PlainHost': {'_pattern': 'opaque:HPL'}},
           stubs={'HostPatternList': hpl_ctor_stub, 'self._pattern.matches': hpl_matches_stub})

plain_init = Spec(PROP, 'known_hosts', '_PlainHost.__init__', self_class='_PlainHost', params=dict(pattern='str'),
                  ensures=[('holds-the-host-pattern-list-of-the-field',
                            lambda c: c.new('_pattern') == mk_hpl(c.arg('pattern')))], **_PH)
plain_matches = Spec(
    PROP, 'known_hosts', '_PlainHost.matches', self_class='_PlainHost',
    params=dict(host='str', addr='str', ip=IPO), returns='bool',
    ensures=[('delegates-to-the-pattern-list-with-host-addr-ip', lambda c: c.result == hostlist_matches(
        c.old('_pattern'), c.arg('host'), c.arg('addr'), to_z3(c.argv('ip'), IPO)))], **_PH)
plain_matches.no_replay = True

b64_ok = z3.Function('base64_decodes', StrS, BoolS)          # binascii.a2b_base64(text) does not raise
b64 = z3.Function('base64_decode', StrS, BytesS)
hmac_sha1 = z3.Function('hmac_sha1', BytesS, BytesS, BytesS)  # hmac.new(key, msg, sha1).digest()
utf8 = z3.Function('encode_utf8', StrS, BytesS)               # str.encode() (engine symbol)
split_s = F.split_s
BAR = z3.StringVal('|')


def a2b_stub(cx):
    """binascii.a2b_base64(text): bytes, or binascii.Error (a ValueError) for malformed input (assumed contract)"""
    t = cx.args[0].z
    return [Out(ret=VBytes(b64(t)), assume=[b64_ok(t)]), Out(exc=VExc('Error'), assume=[z3.Not(b64_ok(t))])]


def hmac_new_stub(cx):
    return VOpaque(z3.Function('hmac_object', BytesS, BytesS, opaque_sort('Hmac'))(cx.args[0].z, cx.args[1].z), 'Hmac')


def hmac_digest_stub(cx):
    o = cx.recv.z
    if not (z3.is_app(o) and o.decl().name() == 'hmac_object'):
        raise Unsupported('digest() of an unknown hmac object')
    return VBytes(hmac_sha1(o.arg(0), o.arg(1)))


a2b_stub.modifies = hmac_new_stub.modifies = hmac_digest_stub.modifies = ()
_HH = dict(classes={'_HashedHost': {'_salt': 'bytes', '_hosthash': 'bytes'}},
           class_consts={('_HashedHost', '_HMAC_SHA1_MAGIC'): VStr('1')},
           globals={'sha1': VTag('sha1')},
           stubs={'binascii.a2b_base64': a2b_stub, 'hmac.new': hmac_new_stub, 'hmac.new().digest': hmac_digest_stub},
           inline={'self._match': ('known_hosts', '_HashedHost._match')})


def hashed_fields(t):
    """sshd(8): a hashed host field is |1|salt|hash, salt and hash base64: the three '|'-separated parts after
    the leading bar"""
    return split_s(z3.SubString(t, 1, z3.Length(t) - 1), BAR)


def hashed_wellformed(t):
    f = hashed_fields(t)
    return z3.And(z3.Length(f) == 3, f[0] == z3.StringVal('1'), b64_ok(f[1]), b64_ok(f[2]))


hashed_init = Spec(
    PROP, 'known_hosts', '_HashedHost.__init__', self_class='_HashedHost', params=dict(pattern='str'),
    ensures=[('magic-1-and-salt-hash-base64-decoded', lambda c: z3.And(
        hashed_wellformed(c.arg('pattern')),
        c.new('_salt') == b64(hashed_fields(c.arg('pattern'))[1]),
        c.new('_hosthash') == b64(hashed_fields(c.arg('pattern'))[2]))),
        # the same facts one by one (cheap to refute individually)
        ('three-fields', lambda c: z3.Length(hashed_fields(c.arg('pattern'))) == 3),
        ('hash-type-is-1(HMAC-SHA1)', lambda c: hashed_fields(c.arg('pattern'))[0] == z3.StringVal('1'))],
    raises={'ValueError': lambda c: z3.Not(hashed_wellformed(c.arg('pattern')))}, **_HH)

hashed_matches = Spec(
    PROP, 'known_hosts', '_HashedHost.matches', self_class='_HashedHost',
    params=dict(host='str', addr='str', _ip=IPO), returns='bool',
    ensures=[('hmac-sha1(salt,name)==hash-for-host-or-addr', lambda c: c.result == z3.Or(
        hmac_sha1(c.old('_salt'), utf8(c.arg('host'))) == c.old('_hosthash'),
        hmac_sha1(c.old('_salt'), utf8(c.arg('addr'))) == c.old('_hosthash')))], **_HH)
hashed_matches.no_replay = True
hashed_init.no_replay = True


# ----------------------------------------------------------------------------- misc.py: option tokenizer
OP_FIELDS = {'options': 'dict[str,pyobj]', 'ghost_opts': 'seq[str]'}


def add_option_call_stub(cx):
    """self._add_option(text) inside _parse_options: ghost-log the raw option; ValueError as its contract allows"""
    g = cx.selff('ghost_opts')
    new = VSeq(z3.Concat(g.z, z3.Unit(cx.args[0].z)), 'str')
    return [Out(sets={'ghost_opts': new}), Out(exc=VExc('ValueError'), sets={'ghost_opts': new},
                                               event=('add_option_failed', ()))]


add_option_call_stub.modifies = ('ghost_opts',)
add_option_call_stub.spec_getter = lambda: add_option


def tok_inv(c):
    line, i = c.arg('line'), c.extra['i']
    pre = F.sprefix(line, i)
    return z3.And(c.local('quoted') == F.tq(pre), c.local('escaped') == F.te(pre), c.local('option') == F.tcur(pre),
                  c.new('ghost_opts') == z3.Concat(c.old('ghost_opts'), F.topts(pre)), z3.Not(F.tstop(pre)),
                  c.local('idx') == z3.If(i == 0, 0, i - 1))


def tok_lemmas(c):
    line, i = c.arg('line'), c.extra['i']
    return F.tok_empty() + F.str_prefix_facts(line, i) + F.tok_snoc(F.sprefix(line, i - 1),
                                                                   z3.SubString(line, i - 1, 1))


def _tok_end(c):
    """(k, prefix) where the option field ends: the loop index at exit (ghost), k == len(line) when no blank"""
    k = c.new_state.env['__loop_i__'].z
    return k, F.sprefix(c.arg('line'), k)


def tok_end_is_right(c):
    line = c.arg('line')
    k, pre = _tok_end(c)
    ch = z3.SubString(line, k, 1)
    return z3.And(k >= 0, k <= z3.Length(line), z3.Not(F.tstop(pre)),
                  z3.Or(k == z3.Length(line), F.tok_stopcond(F.tq(pre), ch)))


def tok_options_post(c):
    k, pre = _tok_end(c)
    return c.new('ghost_opts') == z3.Concat(c.old('ghost_opts'), F.topts(pre), z3.Unit(F.tok_final(pre)))


parse_options = Spec(
    PROP, 'misc', 'OptionsParser._parse_options', self_class='OptionsParser', params=dict(line='str'),
    classes={'OptionsParser': OP_FIELDS}, stubs={'self._add_option': add_option_call_stub},
    loops={1: LoopSpec(header='for idx, ch in enumerate(line)', invariant=tok_inv, lemmas=tok_lemmas,
                       modifies=['ghost_opts'])},
    returns='str',
    ensures=[('option-field-ends-at-first-unquoted-blank', tok_end_is_right),
             ('options-are-the-unquoted-comma-tokens', tok_options_post),
             ('quotes-and-backslashes-balanced', lambda c: z3.Not(F.tq(_tok_end(c)[1]))),   # (label kept: an open quote is the only imbalance, a trailing backslash is literal)
             ('returns-rest-of-line-after-the-blank-stripped', lambda c: z3.Implies(
                 _tok_end(c)[0] < z3.Length(c.arg('line')),
                 c.result == F.strip_s(z3.SubString(c.arg('line'), _tok_end(c)[0],
                                                    z3.Length(c.arg('line')) - _tok_end(c)[0])))),
             ('returns-empty-rest-when-there-is-no-key-field', lambda c: z3.Implies(
                 _tok_end(c)[0] == z3.Length(c.arg('line')), c.result == z3.StringVal('')))],
    raises={'ValueError': lambda c: z3.Or(
        z3.BoolVal(len(c.events('add_option_failed')) > 0),
        # a quoted section still open at the end of the line (the only syntax error OpenSSH knows here)
        z3.And(tok_end_is_right(c), tok_options_post(c), F.tq(_tok_end(c)[1])))})
parse_options.no_replay = True


# ----------------------------------------------------------------------------- misc.py: name[=value] dispatch
HANDLER = opaque_sort('Handler')
handler_of = z3.Function('registered_handler', StrS, sort_of('opt[opaque:Handler]'))   # cls._handlers.get(name)


def handlers_get_stub(cx):
    return from_z3(handler_of(cx.args[0].z), 'opt[opaque:Handler]')


def handler_call_stub(cx):
    """handler(self, name, value): an option-specific setter; it owns self.options[name] and may reject the value
    with ValueError (contracts of the individual handlers: auth_keys section)"""
    ev = ('handler', (cx.st.env['handler'],) + tuple(cx.args))
    return [Out(sets={'options': cx.fresh('dict[str,pyobj]', 'options_after_handler')}, event=ev),
            Out(exc=VExc('ValueError'), event=ev)]


handlers_get_stub.modifies = ()
handler_call_stub.modifies = ('options',)
EQ = z3.StringVal('=')


def _name_value(o):
    k = z3.IndexOf(o, EQ, z3.IntVal(0))
    return z3.SubString(o, z3.IntVal(0), k), z3.SubString(o, k + 1, z3.Length(o) - k - 1)


def add_option_post(c):
    """sshd(8): an option is a bare keyword (flag) or keyword=value; repeated keyword=value options accumulate in
    order; everything not named by the option is left alone"""
    P = pyobj_sort()
    o = c.arg('option')
    m0, m1 = c.oldv('options'), c.newv('options')
    name, value = _name_value(o)
    name = F.lower_s(name)               # sshd(8): option keywords are case-insensitive (stored in lower case)
    hv = from_z3(handler_of(name), 'opt[opaque:Handler]')
    evs = c.events('handler')
    has_eq = z3.Contains(o, EQ)
    flag = z3.And(m1.dom == z3.Store(m0.dom, F.lower_s(o), True),
                  m1.val == z3.Store(m0.val, F.lower_s(o), P.py_bool(z3.BoolVal(True))))
    old = z3.If(z3.Select(m0.dom, name), P.py_l(z3.Select(m0.val, name)), z3.Empty(SSTR))
    accum = z3.And(m1.dom == z3.Store(m0.dom, name, True),
                   m1.val == z3.Store(m0.val, name, P.py_strlist(z3.Concat(old, z3.Unit(value)))))
    if evs:
        # the registered handler - and only it - was called once, with (self, name, value)
        h, _self, a_name, a_value = evs[0][1]
        hz = h.val.z if isinstance(h, VOpt) else h.z
        return z3.And(has_eq, z3.BoolVal(len(evs) == 1), z3.Not(hv.isnone), hz == hv.val.z,
                      a_name.z == name, a_value.z == value)
    was_list = z3.Or(z3.Not(z3.Select(m0.dom, name)), P.is_py_strlist(z3.Select(m0.val, name)))
    return z3.And(z3.Not(z3.PrefixOf(EQ, o)),
                  z3.If(has_eq, z3.And(hv.isnone, was_list, accum), flag))


def _flag_then_value(c):
    P = pyobj_sort()
    o = c.arg('option')
    name, _value = _name_value(o)
    name = F.lower_s(name)
    m0 = c.oldv('options')
    hv = from_z3(handler_of(name), 'opt[opaque:Handler]')
    return z3.And(z3.Contains(o, EQ), hv.isnone, z3.Select(m0.dom, name),
                  z3.Not(P.is_py_strlist(z3.Select(m0.val, name))))


add_option = Spec(
    PROP, 'misc', 'OptionsParser._add_option', self_class='OptionsParser', params=dict(option='str'),
    classes={'OptionsParser': {'options': 'dict[str,pyobj]'}},
    stubs={'self._handlers.get': handlers_get_stub, 'handler': handler_call_stub},
    ensures=[('flag-or-name=value(dispatch-or-accumulate)', add_option_post)],
    raises={'ValueError': lambda c: z3.Or(
        # no option name, or a keyword used both as a flag and with a value: rejected, nothing stored
        z3.And(z3.BoolVal(len(c.events('handler')) == 0),
               c.newv('options').dom == c.oldv('options').dom, c.newv('options').val == c.oldv('options').val,
               z3.Or(z3.PrefixOf(EQ, c.arg('option')), _flag_then_value(c))),
        # or the option-specific handler rejected the value
        z3.BoolVal(len(c.events('handler')) == 1))})
add_option.no_replay = True


# ----------------------------------------------------------------------------- known_hosts.py: load
X509 = z3.Bool('x509_available')        # module flag _x509_available (False in the sandbox): both values covered


def _import_stub(okf, valf, sort):
    def stub(cx):
        """key / certificate import: an object, or KeyImportError for unparsable data (C10/C15 signals clause)"""
        t = cx.args[0].z
        return [Out(ret=VOpaque(valf(t), sort) if sort else VStr(valf(t)), assume=[okf(t)]),
                Out(exc=VExc('KeyImportError'), assume=[z3.Not(okf(t))])]
    stub.modifies = ()
    return stub


def _add_log_stub(is_pattern, may_raise):
    def stub(cx):
        """self._add_pattern / self._add_exact(host field, entry): ghost-log the index operation (their effect on
        the tables is proved separately: add_pattern / add_exact)"""
        g = cx.selff('ghost_added')
        item = to_z3(VTuple([VBool(is_pattern), cx.args[0], cx.args[1]]), F.LOG_T)
        outs = [Out(sets={'ghost_added': VSeq(z3.Concat(g.z, z3.Unit(item)), F.LOG_T)})]
        if may_raise:
            outs.append(Out(exc=VExc('ValueError'), event=('hashed_field_malformed', ())))
        return outs
    stub.modifies = ('ghost_added',)
    return stub


def subj_pattern_stub(cx):
    return VOpaque(F.subj_pat(cx.args[0].z), 'Subj')


subj_pattern_stub.modifies = ()
KH_IMPORT_STUBS = {'import_public_key': _import_stub(F.pk_ok, F.pk_of, 'Key'),
                   'import_certificate': _import_stub(F.cert_ok, F.cert_of, 'Cert'),
                   'import_certificate_subject': _import_stub(F.subj_ok, F.subj_text, None),
                   'X509NamePattern': subj_pattern_stub}


def kh_lines_wellformed(lines, n):
    """every line before n is blank / a comment, or has the documented shape with a known marker (anything else
    must be rejected with ValueError, never indexed)"""
    j = z3.Int(fresh_name('j'))
    d = F.kh_line(lines[j], X509)
    return z3.ForAll([j], z3.Implies(z3.And(j >= 0, j < n),
                                     z3.Or(d['blank'], z3.And(d['fields_ok'], d['marker_ok']))))


def kh_load_inv(c):
    it, i = c.extra['iter'].z, c.extra['i']
    return z3.And(it == F.nl_lines(c.arg('known_hosts')),          # the entries are the newline-separated lines
                  c.new('ghost_added') == z3.Concat(c.old('ghost_added'), F.kh_file(F.gprefix(it, i), X509)),
                  kh_lines_wellformed(it, i), F.log_wf(F.kh_file(F.gprefix(it, i), X509)))


def kh_load_lemmas(c):
    it, i = c.extra['iter'].z, c.extra['i']
    pre, line = F.gprefix(it, i - 1), it[i - 1]
    return F.khf_empty(X509) + F.prefix_facts(it, i) + F.khf_snoc(pre, line, X509) + F.logwf_empty() + \
        F.logwf_snoc(F.kh_file(pre, X509), F.kh_line(line, X509)['log'])


def kh_load_malformed(c):
    """the line being read is neither blank/comment nor 'hosts key' / '@marker hosts key' with a known marker"""
    i = c.new_state.env['__loop_i__'].z
    lines = F.nl_lines(c.arg('known_hosts'))
    d = F.kh_line(lines[i], X509)
    return z3.And(i >= 0, i < z3.Length(lines), z3.Not(d['blank']),
                  z3.Or(z3.Not(d['fields_ok']), z3.Not(d['marker_ok'])))


kh_load = Spec(
    PROP, 'known_hosts', 'SSHKnownHosts.load', self_class='SSHKnownHosts', params=dict(known_hosts='str'),
    classes={'SSHKnownHosts': {'ghost_added': 'seq[' + F.LOG_T + ']'}},
    globals={'_x509_available': VBool(X509)},
    stubs=dict(KH_IMPORT_STUBS, **{'self._add_pattern': _add_log_stub(True, True),
                                   'self._add_exact': _add_log_stub(False, False)}),
    loops={1: LoopSpec(invariant=kh_load_inv, lemmas=kh_load_lemmas, modifies=['ghost_added'])},
    # per-line locals (None at the start of every iteration in the real code): havocked at the loop cut
    local_types={'key': 'opt[opaque:Key]', 'cert': 'opt[opaque:Cert]', 'subject': 'opt[opaque:Subj]',
                 'marker': 'opt[str]'},
    ensures=[('one-index-op-per-parsable-line(skip+routing)',
              lambda c: c.new('ghost_added') == z3.Concat(
                  c.old('ghost_added'), F.kh_file(F.nl_lines(c.arg('known_hosts')), X509))),
             # class invariant relied on by _match (its `assert subject is not None`): established here
             ('every-indexed-entry-has-a-key-certificate-or-subject',
              lambda c: F.log_wf(F.kh_file(F.nl_lines(c.arg('known_hosts')), X509))),
             ('no-malformed-line-or-unknown-marker-accepted',
              lambda c: kh_lines_wellformed(F.nl_lines(c.arg('known_hosts')),
                                            z3.Length(F.nl_lines(c.arg('known_hosts')))))],
    raises={'ValueError': lambda c: z3.Or(z3.BoolVal(len(c.events('hashed_field_malformed')) > 0),
                                          kh_load_malformed(c))})
kh_load.no_replay = True
kh_load.feasible_timeout_ms = 250      # string-heavy path conditions: feasibility checks only time out


# ----------------------------------------------------------------------------- auth_keys.py: load
AK_FIELDS = {'_user_entries': 'seq[opaque:Entry]', '_ca_entries': 'seq[opaque:Entry]',
             '_x509_entries': 'seq[opaque:Entry]'}
AK_LISTS = ['_user_entries', '_ca_entries', '_x509_entries']


def ak_entry_ctor_stub(cx):
    """_SSHAuthorizedKeyEntry(line): an entry, KeyImportError when no key / certificate / subject can be parsed,
    ValueError for an invalid option field (contract of the constructor below)"""
    t = cx.args[0].z
    st = F.ak_status(t)
    return [Out(ret=VOpaque(F.mk_entry(t), 'Entry'), assume=[st == 0]),
            Out(exc=VExc('KeyImportError'), assume=[st == 1]),
            Out(exc=VExc('ValueError'), assume=[st == 2])]


ak_entry_ctor_stub.modifies = ()


def ak_lines_ok(lines, n):
    j = z3.Int(fresh_name('j'))
    d = F.ak_line(lines[j])
    return z3.ForAll([j], z3.Implies(z3.And(j >= 0, j < n), z3.Or(d['blank'], d['status'] == 0, d['status'] == 1)))


def ak_load_state(c, lines, n):
    return z3.And(*[c.new(f) == z3.Concat(c.old(f), F.ak_list(z3.IntVal(k), F.gprefix(lines, n)))
                    for k, f in enumerate(AK_LISTS)] + [ak_lines_ok(lines, n)])


def ak_load_lemmas(c):
    it, i = c.extra['iter'].z, c.extra['i']
    return F.ak_empty() + F.prefix_facts(it, i) + F.ak_snoc(F.gprefix(it, i - 1), it[i - 1])


def _ak_lines(c):
    return F.nl_lines(c.arg('authorized_keys'))


def ak_load_raises(c):
    """ValueError: an invalid option field on the line being read, or nothing usable in the whole file"""
    lines = _ak_lines(c)
    if '__loop_i__' in c.new_state.env and len(c.calls('_SSHAuthorizedKeyEntry')) and \
            c.calls('_SSHAuthorizedKeyEntry')[-1]['exc'] is not None:
        i = c.new_state.env['__loop_i__'].z
        d = F.ak_line(lines[i])
        return z3.And(i >= 0, i < z3.Length(lines), z3.Not(d['blank']), d['status'] == 2)
    return z3.And(ak_load_state(c, lines, z3.Length(lines)), *[z3.Length(c.new(f)) == 0 for f in AK_LISTS])


ak_load = Spec(
    PROP, 'auth_keys', 'SSHAuthorizedKeys.load', self_class='SSHAuthorizedKeys', params=dict(authorized_keys='str'),
    classes={'SSHAuthorizedKeys': AK_FIELDS}, stubs={'_SSHAuthorizedKeyEntry': ak_entry_ctor_stub},
    loops={1: LoopSpec(invariant=lambda c: z3.And(c.extra['iter'].z == _ak_lines(c),    # newline-separated lines
                                                  ak_load_state(c, c.extra['iter'].z, c.extra['i'])),
                       lemmas=ak_load_lemmas, modifies=AK_LISTS)},
    ensures=[('entries-by-class-in-file-order(bad-keys-skipped)',
              lambda c: ak_load_state(c, _ak_lines(c), z3.Length(_ak_lines(c)))),
             ('some-valid-entry-exists', lambda c: z3.Or(*[z3.Length(c.new(f)) > 0 for f in AK_LISTS]))],
    raises={'ValueError': ak_load_raises})
ak_load.opaque_attrs = {('Entry', 'key'): 'opt[opaque:Key]', ('Entry', 'options'): 'opaque:Options',
                        ('Entry', 'cert'): 'opt[opaque:Cert]'}
ak_load.no_replay = True
ak_load.feasible_timeout_ms = 250


# ----------------------------------------------------------------------------- auth_keys.py: one entry
AKE_FIELDS = {'options': 'dict[str,pyobj]', 'key': 'opt[opaque:Key]', 'cert': 'opt[opaque:Cert]'}
cert_subject = z3.Function('attr_Cert_subject', opaque_sort('Cert'), opaque_sort('X509Name'))
cert_issuer = z3.Function('attr_Cert_issuer', opaque_sort('Cert'), opaque_sort('X509Name'))
CA = z3.StringVal('cert-authority')


def add_subject_stub(cx):
    return [Out(event=('add_subject', tuple(cx.args)),
                sets={'options': cx.fresh('dict[str,pyobj]', 'options_with_subject')})]


add_subject_stub.modifies = ('options',)


def import_kc_post(c):
    """sshd(8) + X.509 extension: the key field is a public key, else a certificate, else (not for CAs) an X.509
    subject name; exactly the first form that parses is stored"""
    line = c.arg('line')
    ca = z3.Select(c.oldv('options').dom, CA)
    subj = c.events('add_subject')
    kv, cv = c.newv('key'), c.newv('cert')
    is_key = F.pk_ok(line)
    is_cert = z3.And(z3.Not(is_key), F.cert_ok(line))
    if subj:
        return z3.And(z3.Not(F.pk_ok(line)), z3.Not(F.cert_ok(line)), z3.Not(ca), F.subj_ok(line),
                      z3.BoolVal(len(subj) == 1), subj[0][1][0].z == z3.StringVal('subject'),
                      subj[0][1][1].z == F.subj_text(line), c.is_none(kv), c.is_none(cv))
    same_opts = z3.And(c.newv('options').dom == c.oldv('options').dom, c.newv('options').val == c.oldv('options').val)
    return z3.And(same_opts, z3.Or(
        z3.And(is_key, c.eq(kv, VOpaque(F.pk_of(line), 'Key')), c.eq(cv, c.oldv('cert'))),
        z3.And(is_cert, c.eq(cv, VOpaque(F.cert_of(line), 'Cert')), c.eq(kv, c.oldv('key')),
               z3.Not(z3.And(ca, cert_subject(F.cert_of(line)) != cert_issuer(F.cert_of(line)))))))


import_key_or_cert = Spec(
    PROP, 'auth_keys', '_SSHAuthorizedKeyEntry._import_key_or_cert', self_class='_SSHAuthorizedKeyEntry',
    params=dict(line='str'), classes={'_SSHAuthorizedKeyEntry': AKE_FIELDS},
    stubs=dict({k: v for k, v in KH_IMPORT_STUBS.items() if k != 'X509NamePattern'},
               **{'self._add_subject': add_subject_stub}),
    ensures=[('first-of-key-certificate-subject-that-parses', import_kc_post)],
    raises={'KeyImportError': lambda c: z3.And(
        z3.Not(F.pk_ok(c.arg('line'))), z3.Not(F.cert_ok(c.arg('line'))),
        z3.Or(z3.Select(c.oldv('options').dom, CA), z3.Not(F.subj_ok(c.arg('line'))))),
        'ValueError': lambda c: z3.And(
            z3.Not(F.pk_ok(c.arg('line'))), F.cert_ok(c.arg('line')), z3.Select(c.oldv('options').dom, CA),
            cert_subject(F.cert_of(c.arg('line'))) != cert_issuer(F.cert_of(c.arg('line'))))})
import_key_or_cert.opaque_attrs = {('Cert', 'subject'): 'opaque:X509Name', ('Cert', 'issuer'): 'opaque:X509Name'}
import_key_or_cert.no_replay = True

importable = z3.Function('entry_key_field_importable', StrS, IntS)     # 0 stored, 1 KeyImportError, 2 ValueError
rest_of = z3.Function('options_rest_of_line', StrS, StrS)             # what _parse_options(line) returns
opts_ok = z3.Function('options_field_valid', StrS, BoolS)             # _parse_options(line) does not raise


def ake_import_stub(cx):
    t = cx.args[0].z
    ev = ('import', tuple(cx.args))
    return [Out(assume=[importable(t) == 0], event=ev),
            Out(exc=VExc('KeyImportError'), assume=[importable(t) == 1], event=ev),
            Out(exc=VExc('ValueError'), assume=[importable(t) == 2], event=ev)]


def ake_parse_stub(cx):
    t = cx.args[0].z
    ev = ('parse_options', tuple(cx.args))
    return [Out(ret=VStr(rest_of(t)), assume=[opts_ok(t)], event=ev),
            Out(exc=VExc('ValueError'), assume=[z3.Not(opts_ok(t))], event=ev)]


ake_import_stub.modifies = ake_parse_stub.modifies = ()


def ake_init_post(c):
    """sshd(8): a line is [options] keytype key [comment]; it has an option field exactly when the whole line does
    not start with a key"""
    line = c.arg('line')
    evs = c.events()
    names = [e[0] for e in evs]
    whole = importable(line)
    if names == ['import']:
        return z3.And(evs[0][1][0].z == line, whole == 0)
    return z3.And(z3.BoolVal(names == ['import', 'parse_options', 'import']), whole == 1,
                  evs[0][1][0].z == line, evs[1][1][0].z == line, evs[2][1][0].z == rest_of(line),
                  opts_ok(line), importable(rest_of(line)) == 0)


def ake_own_options(c):
    """'without affecting any other line': every entry starts from its OWN empty option map (the parse / import
    stubs here do not add to it, so it must still be that new, empty dict object)"""
    v = c.newv('options')
    cell = c.new_state.heap.get(v.addr) if isinstance(v, VRef) else None
    fresh = isinstance(v, VRef) and v.addr not in c.old_state.heap
    return z3.BoolVal(bool(fresh and isinstance(cell, VDict) and not cell.items))


ake_init = Spec(
    PROP, 'auth_keys', '_SSHAuthorizedKeyEntry.__init__', self_class='_SSHAuthorizedKeyEntry',
    params=dict(line='str'), classes={'_SSHAuthorizedKeyEntry': AKE_FIELDS},
    # OptionsParser.__init__ (two lines, in /repo) is executed from its real source, not assumed
    inline={'super().__init__': ('misc', 'OptionsParser.__init__')},
    stubs={'super': lambda cx: cx.ex.self_ref,
           'self._import_key_or_cert': ake_import_stub, 'self._parse_options': ake_parse_stub},
    ensures=[('key-first-else-options-then-key', ake_init_post),
             ('options-are-a-new-empty-dict-of-this-entry', ake_own_options)],
    raises={'KeyImportError': lambda c: z3.And(importable(c.arg('line')) == 1, opts_ok(c.arg('line')),
                                               importable(rest_of(c.arg('line'))) == 1),
            'ValueError': lambda c: z3.Or(importable(c.arg('line')) == 2,
                                          z3.And(importable(c.arg('line')) == 1, z3.Or(
                                              z3.Not(opts_ok(c.arg('line'))),
                                              importable(rest_of(c.arg('line'))) == 2)))})
ake_init.no_replay = True


# ----------------------------------------------------------------------------- auth_keys.py: option handlers
mk_wpl = z3.Function('WildcardPatternList', StrS, WPL)


def _list_handler(qual, ctor, mk, sort):
    def ctor_stub(cx):
        return VOpaque(mk(cx.args[0].z), sort)
    ctor_stub.modifies = ()
    ctor_stub.spec_getter = lambda: patternlist_init

    def post(c):
        m0, m1 = c.oldv('options'), c.newv('options')
        o, v = c.arg('option'), c.arg('value')
        old = z3.If(z3.Select(m0.dom, o), z3.Select(m0.val, o), z3.Empty(z3.SeqSort(opaque_sort(sort))))
        return z3.And(m1.dom == z3.Store(m0.dom, o, True),
                      m1.val == z3.Store(m0.val, o, z3.Concat(old, z3.Unit(mk(v)))))
    sp = Spec(PROP, 'auth_keys', '_SSHAuthorizedKeyEntry.' + qual, self_class='_SSHAuthorizedKeyEntry',
              params=dict(option='str', value='str'),
              classes={'_SSHAuthorizedKeyEntry': {'options': f'dict[str,seq[opaque:{sort}]]'}},
              stubs={ctor: ctor_stub},
              ensures=[('repeats-accumulate-one-list-per-occurrence', post)])
    sp.no_replay = True
    return sp


add_from = _list_handler('_add_from', 'HostPatternList', mk_hpl, 'HPL')
add_principals = _list_handler('_add_principals', 'WildcardPatternList', mk_wpl, 'WPL')

set_string = Spec(
    PROP, 'auth_keys', '_SSHAuthorizedKeyEntry._set_string', self_class='_SSHAuthorizedKeyEntry',
    params=dict(option='str', value='str'), classes={'_SSHAuthorizedKeyEntry': {'options': 'dict[str,pyobj]'}},
    ensures=[('value-stored-under-the-option-name', lambda c: z3.And(
        c.newv('options').dom == z3.Store(c.oldv('options').dom, c.arg('option'), True),
        c.newv('options').val == z3.Store(c.oldv('options').val, c.arg('option'),
                                          pyobj_sort().py_str(c.arg('value')))))])
set_string.no_replay = True


# ----------------------------------------------------------------------------- auth_keys.py: environment / permitopen
def _env_setdefault_stub(cx):
    """self.options.setdefault(name, {}): the dict object stored under the option (an arbitrary existing str->str
    map, or the fresh empty one) as a heap cell; the handler's item store updates that object in place"""
    if not (isinstance(cx.ex.deref(cx.st, cx.args[1]), VDict) and not cx.ex.deref(cx.st, cx.args[1]).items):
        raise Unsupported('environment: setdefault default is not {}')
    m = cx.fresh('dict[str,str]', 'env_of_option')
    ref = cx.st.alloc(m)
    return [Out(ret=ref, event=('setdefault', (cx.args[0], ref, m)))]


_env_setdefault_stub.modifies = ()


def add_environment_post(c):
    """sshd(8): environment="NAME=value" - the name is the text before the FIRST '=', the value everything after it;
    the variable is added to (or replaces its value in) the environment collected under the option"""
    v = c.arg('value')
    evs = c.events('setdefault')
    if len(evs) != 1:
        return z3.BoolVal(False)
    opt_name, ref, m0 = evs[0][1]
    m1 = c.new_state.heap[ref.addr]
    k = z3.IndexOf(v, EQ, z3.IntVal(0))
    name, val = z3.SubString(v, z3.IntVal(0), k), z3.SubString(v, k + 1, z3.Length(v) - k - 1)
    return z3.And(opt_name.z == c.arg('option'), k > 0,
                  m1.dom == z3.Store(m0.dom, name, True), m1.val == z3.Store(m0.val, name, val))


add_environment = Spec(
    PROP, 'auth_keys', '_SSHAuthorizedKeyEntry._add_environment', self_class='_SSHAuthorizedKeyEntry',
    params=dict(option='str', value='str'), classes={'_SSHAuthorizedKeyEntry': {}},
    stubs={'self.options.setdefault': _env_setdefault_stub},
    ensures=[('NAME=value-split-at-first-equals-and-stored', add_environment_post)],
    raises={'ValueError': lambda c: z3.And(z3.BoolVal(len(c.events('setdefault')) == 0),
                                           z3.Or(z3.PrefixOf(EQ, c.arg('value')),
                                                 z3.Not(z3.Contains(c.arg('value'), EQ))))})
add_environment.no_replay = True
COLON = z3.StringVal(':')
int_ok = z3.Function('int_literal_ok_s', StrS, BoolS)        # int(text) does not raise (engine symbols)
int_val = z3.Function('int_literal_val_s', StrS, IntS)


def _permit_setdefault_stub(cx):
    d = cx.ex.deref(cx.st, cx.args[1])
    if not (isinstance(d, VSet) and not d.items):
        raise Unsupported('permitopen: setdefault default is not set()')
    return [Out(ret=VOpaque(z3.Const(fresh_name('permitted_opens'), opaque_sort('PermitSet')), 'PermitSet'),
                event=('setdefault', (cx.args[0],)))]


def _permit_add_stub(cx):
    return [Out(event=('add', (cx.args[0],)))]


_permit_setdefault_stub.modifies = _permit_add_stub.modifies = ()


def _permit_parts(v):
    k = z3.LastIndexOf(v, COLON)
    host, port = z3.SubString(v, z3.IntVal(0), k), z3.SubString(v, k + 1, z3.Length(v) - k - 1)
    bracketed = z3.And(z3.PrefixOf(z3.StringVal('['), host), z3.SuffixOf(z3.StringVal(']'), host))
    return k, z3.If(bracketed, z3.SubString(host, 1, z3.Length(host) - 2), host), port


def add_permitopen_post(c):
    """sshd(8): permitopen="host:port"; IPv6 addresses are written in square brackets (stripped); port '*' matches
    any port.  The pair is split at the LAST ':' and added to the set collected under the option"""
    v = c.arg('value')
    sd, adds = c.events('setdefault'), c.events('add')
    if len(sd) != 1 or len(adds) != 1:
        return z3.BoolVal(False)
    k, host, port = _permit_parts(v)
    item = adds[0][1][0]
    if not isinstance(item, VTuple) or len(item.items) != 2:
        return z3.BoolVal(False)
    h, p = item.items
    star = port == z3.StringVal('*')
    p_ok = z3.If(star, c.is_none(p), z3.And(z3.Not(c.is_none(p)), int_ok(port),
                                          (p.val.z if isinstance(p, VOpt) else p.z if isinstance(p, VInt)
                                           else z3.IntVal(0)) == int_val(port))) if p is not VNone else star
    return z3.And(sd[0][1][0].z == c.arg('option'), z3.Contains(v, COLON), h.z == host, p_ok)


add_permitopen = Spec(
    PROP, 'auth_keys', '_SSHAuthorizedKeyEntry._add_permitopen', self_class='_SSHAuthorizedKeyEntry',
    params=dict(option='str', value='str'), classes={'_SSHAuthorizedKeyEntry': {}},
    stubs={'self.options.setdefault': _permit_setdefault_stub, 'permitted_opens.add': _permit_add_stub},
    ensures=[('host:port-split-at-last-colon(brackets-stripped,*-is-any-port)', add_permitopen_post)],
    raises={'ValueError': lambda c: z3.And(
        z3.BoolVal(len(c.events('setdefault')) == 0 and len(c.events('add')) == 0),
        z3.Or(z3.Not(z3.Contains(c.arg('value'), COLON)),
              z3.And(_permit_parts(c.arg('value'))[2] != z3.StringVal('*'),
                     z3.Not(int_ok(_permit_parts(c.arg('value'))[2])))))})
add_permitopen.no_replay = True
mk_xpat = z3.Function('X509NamePattern_of', StrS, XPAT)


def _subject_post(c):
    m0, m1 = c.oldv('options'), c.newv('options')
    o, v = c.arg('option'), c.arg('value')
    old = z3.If(z3.Select(m0.dom, o), z3.Select(m0.val, o), z3.Empty(z3.SeqSort(XPAT)))
    return z3.If(X509, z3.And(m1.dom == z3.Store(m0.dom, o, True),
                              m1.val == z3.Store(m0.val, o, z3.Concat(old, z3.Unit(mk_xpat(v))))),
                 z3.And(m1.dom == m0.dom, m1.val == m0.val))


def _xpat_ctor_stub(cx):
    return VOpaque(mk_xpat(cx.args[0].z), 'XPat')


_xpat_ctor_stub.modifies = ()
add_subject = Spec(
    PROP, 'auth_keys', '_SSHAuthorizedKeyEntry._add_subject', self_class='_SSHAuthorizedKeyEntry',
    params=dict(option='str', value='str'),
    classes={'_SSHAuthorizedKeyEntry': {'options': 'dict[str,seq[opaque:XPat]]'}},
    globals={'_x509_available': VBool(X509)}, stubs={'X509NamePattern': _xpat_ctor_stub},
    ensures=[('subject-patterns-accumulate(when-x509-available)', _subject_post)])
add_subject.no_replay = True


# ----------------------------------------------------------------------------- auth_keys.py: validate_x509
X509NAME = opaque_sort('X509Name')
CHAIN = opaque_sort('Chain')
entry_cert = z3.Function('attr_Entry_cert', ENTRY, sort_of('opt[opaque:Cert]'))
cert_key = z3.Function('attr_Cert_key', opaque_sort('Cert'), KEY)
chain_key = z3.Function('attr_Chain_key', CHAIN, KEY)
chain_subject = z3.Function('attr_Chain_subject', CHAIN, X509NAME)
chain_principals = z3.Function('attr_Chain_user_principals', CHAIN, SSTR)
entry_accepts_x = z3.Function('entry_match_options_x509', ENTRY, StrS, StrS, SSTR, X509NAME, BoolS)


def entry_match_options_x_stub(cx):
    a = cx.args
    return VBool(entry_accepts_x(cx.recv.z, a[0].z, a[1].z, a[2].z, a[3].z))


entry_match_options_x_stub.modifies = ()


def _xhit(c, e):
    """the line applies to the presented certificate: a pinned (non-CA) certificate must be this one (same key and
    subject), and the line's from= / principals= / subject restrictions accept the client"""
    ch = c.arg('cert')
    cv = from_z3(entry_cert(e), 'opt[opaque:Cert]')
    ca = F.options_has(options_of(e), CA)
    pinned_other = z3.And(z3.Not(cv.isnone), z3.Not(ca),
                          z3.Or(chain_key(ch) != cert_key(cv.val.z), chain_subject(ch) != cert_subject(cv.val.z)))
    return z3.And(z3.Not(pinned_other),
                  entry_accepts_x(e, c.arg('client_host'), c.arg('client_addr'), chain_principals(ch),
                                  chain_subject(ch)))


def validate_x509_inv(c):
    it, i = c.extra['iter'].z, c.extra['i']
    j = z3.Int(fresh_name('j'))
    return z3.ForAll([j], z3.Implies(z3.And(j >= 0, j < i), z3.Not(_xhit(c, it[j]))))


def validate_x509_post(c):
    E = c.old('_x509_entries')
    j, k0 = z3.Int(fresh_name('j')), z3.Int(fresh_name('k0'))
    opts, cert = c.result_v.items
    if opts is VNone:
        return z3.And(c.is_none(cert),
                      z3.ForAll([j], z3.Implies(z3.And(j >= 0, j < z3.Length(E)), z3.Not(_xhit(c, E[j])))))
    return z3.Exists([k0], z3.And(k0 >= 0, k0 < z3.Length(E), _xhit(c, E[k0]), opts.z == options_of(E[k0]),
                                  to_z3(cert, 'opt[opaque:Cert]') == entry_cert(E[k0]),
                                  z3.ForAll([j], z3.Implies(z3.And(j >= 0, j < k0), z3.Not(_xhit(c, E[j]))))))


validate_x509 = Spec(
    PROP, 'auth_keys', 'SSHAuthorizedKeys.validate_x509', self_class='SSHAuthorizedKeys',
    params=dict(cert='opaque:Chain', client_host='str', client_addr='str'),
    classes={'SSHAuthorizedKeys': {'_x509_entries': 'seq[opaque:Entry]'}},
    stubs={'entry.match_options': entry_match_options_x_stub},
    loops={1: LoopSpec(invariant=validate_x509_inv)}, modifies=[],
    ensures=[('first-x509-entry-that-applies-and-whose-options-accept', validate_x509_post)])
validate_x509.opaque_attrs = {('Entry', 'cert'): 'opt[opaque:Cert]', ('Entry', 'options'): 'opaque:Options',
                              ('Cert', 'key'): 'opaque:Key', ('Cert', 'subject'): 'opaque:X509Name',
                              ('Chain', 'key'): 'opaque:Key', ('Chain', 'subject'): 'opaque:X509Name',
                              ('Chain', 'user_principals'): 'seq[str]'}
validate_x509.no_replay = True


# ----------------------------------------------------------------------------- pattern.py: WildcardPatternList
def wildname_ctor_stub(cx):
    """WildcardPattern(text): the contract proved for _BaseWildcardPattern.__init__ (wildcard_init)"""
    ref = cx.ex.new_object(cx.st, 'WildcardPattern', 'wild')
    pat = cx.ex.get_field(cx.st, ref, '_pattern')
    return [Out(ret=ref, assume=[pat.z == F.esc(cx.args[0].z)])]


wildname_ctor_stub.modifies = ()
wildname_ctor_stub.spec_getter = lambda: wildcard_init


def _name_build_post(c):
    r = c.result_v
    return z3.And(z3.BoolVal(isinstance(r, VRef) and c.new_state.rec(r).cls == 'WildcardPattern'),
                  c.new('_pattern', r) == F.esc(c.arg('pattern')))


name_build_pattern = Spec(
    PROP, 'pattern', 'WildcardPatternList.build_pattern', self_class='WildcardPatternList',
    params=dict(pattern='str'), classes={'WildcardPatternList': {}, 'WildcardPattern': {'_pattern': 'str'}},
    stubs={'WildcardPattern': wildname_ctor_stub},
    ensures=[('wildcard-matcher-of-exactly-the-item-text(case-preserved)', _name_build_post)])


# ----------------------------------------------------------------------------- misc.py: ip_address / ip_network
norm_ip = z3.Function('normalize_scoped_ip', StrS, StrS)        # misc._normalize_scoped_ip (getaddrinfo: external)
SLASH = z3.StringVal('/')


def _lib_ip_stub(kind):
    def stub(cx):
        """ipaddress.ip_network / ip_address(text): external; the object, or ValueError when the library rejects
        the text.  Called strictly: one positional argument and nothing else (strict=False would accept
        10.1.2.3/8, which OpenSSH rejects as an inconsistent address/mask)"""
        cx.require('library-called-with-the-text-only(strict)', z3.BoolVal(len(cx.args) == 1 and not cx.kwargs))
        t = cx.args[0].z
        okf, valf, sort = (F.is_net, F.net_of, 'Net') if kind == 'net' else (F.is_ip, F.ip_of, 'IP')
        ev = ('lib', (cx.args[0],))
        return [Out(ret=VOpaque(valf(t), sort), assume=[okf(t)], event=ev),
                Out(exc=VExc('ValueError'), assume=[z3.Not(okf(t))], event=ev)]
    stub.modifies = ()
    return stub


def _norm_stub(cx):
    return VStr(norm_ip(cx.args[0].z))


_norm_stub.modifies = ()


def _net_text(a):
    """address part normalised, '/masklen' part (if any) kept verbatim"""
    k = z3.IndexOf(a, SLASH, z3.IntVal(0))
    return z3.If(k >= 0, z3.Concat(norm_ip(z3.SubString(a, z3.IntVal(0), k)), z3.SubString(a, k, z3.Length(a) - k)),
                 norm_ip(a))


misc_ip_network = Spec(
    PROP, 'misc', 'ip_network', params=dict(addr='str'),
    stubs={'ipaddress.ip_network': _lib_ip_stub('net'), '_normalize_scoped_ip': _norm_stub},
    ensures=[('the-library-network-of-address/masklen', lambda c: z3.And(
        F.is_net(_net_text(c.arg('addr'))), c.result == F.net_of(_net_text(c.arg('addr')))))],
    raises={'ValueError': lambda c: z3.Not(F.is_net(_net_text(c.arg('addr'))))}, returns='opaque:Net')
misc_ip_address = Spec(
    PROP, 'misc', 'ip_address', params=dict(addr='str'),
    stubs={'ipaddress.ip_address': _lib_ip_stub('ip'), '_normalize_scoped_ip': _norm_stub},
    ensures=[('the-library-address-of-the-text', lambda c: z3.And(
        F.is_ip(norm_ip(c.arg('addr'))), c.result == F.ip_of(norm_ip(c.arg('addr')))))],
    raises={'ValueError': lambda c: z3.Not(F.is_ip(norm_ip(c.arg('addr'))))}, returns='opaque:IP')
misc_ip_network.no_replay = misc_ip_address.no_replay = True
misc_ip_network.exact_str_find = True


# ----------------------------------------------------------------------------- known_hosts.py: match_known_hosts
cert_is_x509 = z3.Function('attr_Cert_is_x509', opaque_sort('Cert'), BoolS)


def _mkh_ctx(c):
    """the lookup object's view: receiver = the SSHKnownHosts argument"""
    c2 = Ctx(c.ex, c.old_state, c.new_state, c.old_state.env['known_hosts'], result=c.result_v,
             args={k: c.old_state.env[k] for k in ('host', 'addr', 'port')})
    return c2


def _mkh_match_stub(cx):
    return contract_stub(lambda: kh_match_public)(cx)


_mkh_match_stub.modifies = ()
_mkh_match_stub.spec_getter = lambda: kh_match_public


def mkh_inv(c):
    it, i = c.extra['iter'].z, c.extra['i']
    j = z3.Int(fresh_name('j'))
    return z3.ForAll([j], z3.Implies(z3.And(j >= 0, j < i), cert_is_x509(it[j])))


def _mkh_openssh_cert(c):
    """some certificate entry the lookup selected (trusted or revoked; the lookup result is tied to the spec by the
    ensures of SSHKnownHosts.match) is not an X.509 certificate"""
    calls = c.calls('known_hosts.match')
    if not calls or calls[-1].get('exc') is not None:
        return z3.BoolVal(False)
    ret = calls[-1]['ret']
    both = z3.Concat(_lz(c, ret.items[3], KH_RESULT_T[3]), _lz(c, ret.items[4], KH_RESULT_T[4]))
    if '__loop_i__' in c.new_state.env:
        j = c.new_state.env['__loop_i__'].z          # the certificate the loop stopped at
        return z3.And(j >= 0, j < z3.Length(both), z3.Not(cert_is_x509(both[j])))
    return z3.BoolVal(False)


match_known_hosts_obj = Spec(
    PROP, 'known_hosts', 'match_known_hosts',
    params=dict(known_hosts='obj:SSHKnownHosts', host='str', addr='str', port='opt[int]'),
    classes={'SSHKnownHosts': KH_FIELDS},
    stubs={'known_hosts.match': _mkh_match_stub},
    loops={1: LoopSpec(invariant=mkh_inv)},
    requires=lambda c: kh_no_empty_name(_mkh_ctx(c)),
    ensures=[(n.replace('_', '-') + '(lookup-of-host-addr-AND-port)',
              (lambda i: lambda c: kh_fallback_post(i)(_mkh_ctx(c)))(i)) for i, n in enumerate(KH_LOCALS)],
    raises={'ValueError': lambda c: z3.Or(_KH_RAISES_VALUE(_mkh_ctx(c)), _mkh_openssh_cert(c)),
            'AssertionError': lambda c: z3.Or(kh_bad_entry_in(kh_selected(_mkh_ctx(c), True)),
                                              kh_bad_entry_in(kh_selected(_mkh_ctx(c), False)))})
match_known_hosts_obj.opaque_attrs = {('Cert', 'is_x509'): 'bool'}
match_known_hosts_obj.no_replay = True


# ----------------------------------------------------------------------------- lemmas and bounded stand-ins
def _prove(goal, timeout_ms=20000):
    """closed goal: z3 (short budget), then cvc5, then z3 (full budget) - unknown is never a verdict"""
    from pyvc import solve
    smt2 = solve.to_smt2([], goal)
    try:
        v, why = solve._z3_try(smt2, 1500)
    except Exception as e:
        v, why = 'unknown', repr(e)
    if v != 'unknown':
        return v, 'z3'
    v2, why2 = solve._cvc5(smt2)
    if v2 != 'unknown':
        return v2, 'cvc5'
    try:
        v, why3 = solve._z3_try(smt2, timeout_ms, seed=7)
    except Exception as e:
        v, why3 = 'unknown', repr(e)
    return v, ('z3' if v != 'unknown' else f'{why} | cvc5: {why2} | z3(2): {why3}')


def _native_bounded(tier, seed):
    """run the differential checks of specs/openssh_files.py against the repository under test (PYVC_REPO)"""
    import json
    import os
    import subprocess
    from pyvc import extract
    script = os.path.join(os.path.dirname(os.path.abspath(F.__file__)), 'openssh_files.py')
    env = dict(os.environ, PYTHONPATH=extract.REPO)
    try:
        p = subprocess.run(['/venv/bin/python', script, tier, str(seed)], capture_output=True, text=True, env=env,
                           cwd='/tmp', timeout=900 if tier == 'thorough' else 240)
        return json.loads(p.stdout)
    except Exception as e:          # harness trouble is never a verdict
        return [{'name': f'{PROP}.bounded#harness', 'cases': 0, 'violations': [], 'error': repr(e)}]


def extra_checks(tier, seed):
    lemmas = []
    for name, goal in F.generic_prefix_lemmas():
        v, why = _prove(goal)
        lemmas.append({'name': f'{PROP}.lemma#{name}', 'verdict': v, 'reason': why,
                       'statement': 'for all s, i: s[:0] == [], 0 <= i-1 < len(s) -> s[:i] == s[:i-1] ++ [s[i-1]], '
                                    'i == len(s) -> s[:i] == s'})
    bounded = _native_bounded(tier, seed)
    for b in bounded:
        if b.get('error') or (not b.get('cases') and not b.get('note') and not b.get('violations')):
            # a bounded stand-in that could not run must not look like a pass
            lemmas.append({'name': b['name'] + '(did-not-run)', 'verdict': 'unknown',
                           'reason': (b.get('error') or 'no cases')[-300:]})
    return {'lemmas': lemmas, 'bounded': bounded}
