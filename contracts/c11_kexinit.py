"""C11 (d),(e),(f) — simultaneous / repeated key exchange bookkeeping.

  (d) _process_kexinit answers a peer's KEXINIT with our own iff ours has not been sent yet for this exchange, and in
      every case leaves `_kexinit_sent` False: "our KEXINIT for the NEXT exchange has not been sent".  (If the flag
      stayed True after an exchange the peer started, the next peer-initiated re-key would never be answered.)
      _send_kexinit starts an exchange: _kex_complete := False, both re-key counters reset, exactly one KEXINIT on the
      wire whose payload is recorded as OUR I_C / I_S; it does not own the `_kexinit_sent` flag (it is also the
      responder's answer).  A second KEXINIT while an exchange is running is a ProtocolError.
  (e) the session identifier is written once, by the first exchange (send_newkeys; pieces from contracts/c02.py).
  (f) _process_newkeys switches to the staged receive keys and clears the stage, so a replayed NEWKEYS is an error.

Nothing is exported by `from .c11_kexinit import *`: the Specs register themselves.
"""
import ast
import sys as _sys
import z3
from pyvc.contracts import *
from pyvc.engine import Out
from pyvc.values import *
from .common import CONN_FIELDS, PACKET_CLASSES, PACKET_INLINE, PACKET_TRUTHY, ROLE_STUBS
from .c06_handlers import (HSpec, finish, total, ki_cut0, ki_cut, ki_setup, KI_CASES, KI_INLINE, PARAMS as KI_PARAMS,
                           is_set, pkt, pkt_wf, nk_switched, first_check_region, CLASSES as H_CLASSES)

__all__ = []

ASSUMPTIONS_KEXINIT = [
    '_kexinit_sent writers: _recv_version and the re-key trigger in send_packet (set True right after their '
    '_send_kexinit() call; send_packet is under contract in c11.py), _process_kexinit (under contract here: always '
    'False afterwards); _send_kexinit itself leaves the flag alone (frame proved here)',
    '_session_id writers: __init__ (b\'\') and send_newkeys (writer scan); packet.NameList is an uninterpreted '
    'encoding; time.monotonic() is an uninterpreted non-decreasing integer',
]

# ------------------------------------------------------------------------------------------------ _send_kexinit
SK_FIELDS = dict(CONN_FIELDS, **{
    '_client_kexinit': 'bytes', '_server_kexinit': 'bytes', '_gss': 'opt[obj:GSS]', '_gss_kex': 'bool',
    '_kex_algs': 'seq[bytes]', '_server_host_key_algs': 'seq[bytes]', '_enc_algs': 'seq[bytes]',
    '_mac_algs': 'seq[bytes]', '_cmp_algs': 'seq[bytes]', '_session_id': 'bytes',
})
SK_CLASSES = {'SSHConnection': SK_FIELDS, 'GSS': {'mechs': 'seq[bytes]'}, 'Encryption': {}, 'Decompressor': {},
              'Compressor': {}, 'Kex': {}, 'Auth': {}, 'Channel': {}, 'Task': {}}
_namelist = z3.Function('namelist_enc', z3.SeqSort(BytesS), BytesS)


def namelist_stub(cx):
    v = cx.ex.deref(cx.st, cx.args[0])
    z = v.z if isinstance(v, VSeq) else to_z3(v, parse_type('seq[bytes]'))
    return VBytes(_namelist(z))


namelist_stub.modifies = ()
# (_send_seq is NOT framed: the KEXINIT that goes out advances it - it is in `modifies` through send_packet's contract)
SK_FRAME = ['_kexinit_sent', '_session_id', '_strict_kex', '_recv_seq', '_auth_complete',
            '_rekey_bytes', '_rekey_seconds']
SK_REF_FRAME = ['_kex', '_recv_encryption', '_send_encryption', '_next_recv_encryption', '_auth']


def sk_own_peer(c):
    isc = c.old('_is_client')
    return (z3.If(isc, c.new('_client_kexinit'), c.new('_server_kexinit')),
            z3.If(isc, c.new('_server_kexinit'), c.new('_client_kexinit')),
            z3.If(isc, c.old('_server_kexinit'), c.old('_client_kexinit')))


def sk_wire(c):
    """exactly one packet goes out: KEXINIT (20), and what is recorded as our I_C / I_S is that very payload with the
    type byte in front (RFC 4253 8: I_C / I_S are the payloads of the KEXINIT messages)"""
    sp = c.calls('send_packet')
    own, peer_new, peer_old = sk_own_peer(c)
    return z3.And(z3.BoolVal(len(sp) == 1), sp[0]['args'][0].z == 20,
                  own == z3.Concat(z3.Unit(z3.IntVal(20)), sp[0]['args'][1].z), peer_new == peer_old)


def sk_counters(c):
    clk = [x for x in c.calls() if x['key'] == 'time.monotonic']
    sec = c.old('_rekey_seconds')
    timer = (c.new('_rekey_time') == clk[0]['ret'].z + sec) if clk else z3.BoolVal(False)
    return z3.And(z3.Not(c.new('_kex_complete')), c.new('_rekey_bytes_sent') == 0,
                  z3.If(sec != 0, timer, c.new('_rekey_time') == c.old('_rekey_time')))


def sk_frame(c):
    return z3.And([c.new(f) == c.old(f) for f in SK_FRAME] + [c.eq(c.oldv(f), c.newv(f)) for f in SK_REF_FRAME])


def _c11():
    from . import c11
    return c11


def sk_send_inv(c, old=True):
    return _c11().send_inv(c, old)


def sk_rollover(c):
    """send_packet(MSG_KEXINIT) raised: sequence rollover before the first keys (see send_packet)"""
    return z3.And(z3.Not(is_set(c, '_send_encryption')), c.new('_send_seq') == 0)


send_kexinit = finish(Spec(
    'C11', 'connection', 'SSHConnection._send_kexinit', self_class='SSHConnection', classes=SK_CLASSES,
    stubs=dict(ROLE_STUBS, **{'expand_kex_algs': ret('seq[bytes]', 'kex_algs'),
                              'self._get_extra_kex_algs': ret('seq[bytes]', 'extra_kex_algs'),
                              'NameList': namelist_stub,
                              # the KEXINIT goes out through the verified contract of send_packet (c11.py)
                              'self.send_packet': contract_stub(lambda: _c11().send_packet)}),
    requires=lambda c: sk_send_inv(c),
    ensures=[('exchange-started:kex_complete-false,rekey-counters-reset', sk_counters),
             # the same without reference to the call log (what callers may rely on)
             ('exchange-started', lambda c: z3.And(z3.Not(c.new('_kex_complete')), c.new('_rekey_bytes_sent') == 0)),
             ('one-KEXINIT-sent-and-recorded-as-our-own', sk_wire),
             ('does-not-own-kexinit_sent;no-other-phase-state-touched', sk_frame),
             ('KEXINIT-is-never-queued', lambda c: c.new('_deferred_packets') == c.old('_deferred_packets'))],
    always=[('class-inv', lambda c: sk_send_inv(c, old=False))],
    raises={'AssertionError': lambda c: z3.And(c.old('_gss_kex'), z3.Not(is_set(c, '_gss')),
                                               z3.BoolVal(not c.calls('send_packet'))),
            'ProtocolError': sk_rollover, 'CompressionError': True},
    modifies=['_kex_complete', '_rekey_bytes_sent', '_rekey_time', '_client_kexinit', '_server_kexinit',
              '_send_seq', '_kexinit_sent', '_deferred_packets']))


# ------------------------------------------------------------------------------------------------ _process_kexinit
# _send_kexinit as called from _process_kexinit: the contract proved above (contract_stub)
PK_FIELDS = dict(SK_FIELDS, **H_CLASSES['SSHConnection'])
PK_CLASSES = dict(SK_CLASSES, **dict(H_CLASSES, SSHConnection=PK_FIELDS))
PK_STUBS = dict(ROLE_STUBS, **{'self._send_kexinit': contract_stub(lambda: send_kexinit),
                               'self._gss.reset': noop(), 'expand_kex_algs': ret('seq[bytes]', 'local_kex_algs')})
PK_RAISES = {'AssertionError': lambda c: z3.And(c.old('_gss_kex'), z3.Not(is_set(c, '_gss'))),
             'CompressionError': True}


def pk_answered(c):
    n = len(c.calls('_send_kexinit'))
    return z3.And(z3.Implies(c.old('_kexinit_sent'), z3.BoolVal(n == 0)),
                  z3.Implies(z3.Not(c.old('_kexinit_sent')), z3.BoolVal(n == 1)))


kexinit_answer = finish(HSpec(
    'C11', 'connection', 'SSHConnection._process_kexinit', self_class='SSHConnection', params=KI_PARAMS,
    classes=PK_CLASSES, truthy=PACKET_TRUTHY, inline=KI_INLINE, stubs=PK_STUBS, cases=KI_CASES, setup=ki_setup,
    region=lambda fn: fn.body[ki_cut0(fn):ki_cut(fn)], requires=lambda c: sk_send_inv(c),
    ensures=[('own-KEXINIT-sent-iff-not-yet-sent-for-this-exchange', pk_answered),
             ('afterwards:our-KEXINIT-for-the-NEXT-exchange-has-not-been-sent', lambda c: z3.Not(c.new('_kexinit_sent'))),
             ('session-id-untouched', lambda c: c.new('_session_id') == c.old('_session_id'))],
    always=[('at-most-one-KEXINIT-of-ours', lambda c: z3.BoolVal(len(c.calls('_send_kexinit')) <= 1))],
    # (the strict-kex first-packet rule is checked before our KEXINIT is sent; the only ProtocolError after that is
    # the sequence rollover of send_packet)
    raises=dict(PK_RAISES, ProtocolError=lambda c: z3.Or(z3.BoolVal(not c.calls('_send_kexinit')), sk_rollover(c)))))
kexinit_answer.tag = 'record'
kexinit_answer.no_replay = True


kexinit_second = finish(HSpec(
    'C11', 'connection', 'SSHConnection._process_kexinit', self_class='SSHConnection', params=KI_PARAMS,
    classes=PK_CLASSES, truthy=PACKET_TRUTHY, inline=KI_INLINE, stubs=PK_STUBS, requires=pkt_wf,
    region=first_check_region,
    ensures=[('KEXINIT-accepted-only-when-no-exchange-is-running', lambda c: z3.Not(is_set(c, '_kex')))],
    always=[('second-KEXINIT-is-fatal-before-anything-is-read-or-written', lambda c: z3.Implies(
        is_set(c, '_kex'), z3.And(z3.BoolVal(c.raised == 'ProtocolError' and not c.calls('_send_kexinit')),
                                  pkt(c, new=True)['_idx'].z == 1,
                                  c.new('_kexinit_sent') == c.old('_kexinit_sent'))))],
    raises=dict(PK_RAISES, ProtocolError=lambda c: is_set(c, '_kex'))))
kexinit_second.tag = 'already-running'
kexinit_second.no_replay = True


# ------------------------------------------------------------------------------------------------ _process_newkeys
def nk_replay_is_error(c):
    """the state a successful NEWKEYS leaves behind is exactly the state in which NEWKEYS is refused"""
    return z3.Not(is_set(c, '_next_recv_encryption', old=False))


process_newkeys_c11 = finish(Spec(
    'C11', 'connection', 'SSHConnection._process_newkeys', self_class='SSHConnection', params=KI_PARAMS,
    classes=H_CLASSES, truthy=PACKET_TRUTHY, inline=dict(PACKET_INLINE), requires=pkt_wf,
    ensures=[('receive-side-switches-to-the-staged-keys', nk_switched),
             ('stage-cleared(replayed-NEWKEYS-is-refused)', nk_replay_is_error)],
    raises={'ProtocolError': lambda c: z3.Not(is_set(c, '_next_recv_encryption')),
            'PacketDecodeError': lambda c: z3.And(c.eq(c.oldv('_recv_encryption'), c.newv('_recv_encryption')),
                                                  c.eq(c.oldv('_next_recv_encryption'),
                                                       c.newv('_next_recv_encryption')))}))


# ------------------------------------------------------------------------------------------------ session id (e)
def _c02():
    """contracts/c02.py, when it is completely imported (it imports c11 itself: skipped while `./check C02` loads)"""
    try:
        from . import c02
    except Exception:       # noqa
        return None
    return c02 if hasattr(c02, 'send_newkeys') else None


_c02m = _c02()
if _c02m is not None:
    _nk = _c02m.send_newkeys
    send_newkeys_sid = finish(Spec(
        'C11', 'connection', 'SSHConnection.send_newkeys', self_class='SSHConnection', params=dict(_nk.params),
        classes=_nk.classes, stubs=_nk.stubs, requires=_nk.requires,
        ensures=[('session-id-written-once:first-exchange-hash,then-never-again', lambda c: c.new('_session_id') == z3.If(
            z3.Length(c.old('_session_id')) > 0, c.old('_session_id'), c.arg('h')))],
        always=[('session-id-of-a-rekey-is-the-old-one', lambda c: z3.Implies(
            z3.Length(c.old('_session_id')) > 0, c.new('_session_id') == c.old('_session_id')))],
        raises=dict(_nk.raises)))
    for _attr in ('no_replay', 'opaque_native', 'runtime_class', 'feasible_timeout_ms', 'lazy_byte_ranges'):
        if hasattr(_nk, _attr):
            setattr(send_newkeys_sid, _attr, getattr(_nk, _attr))


_parent = _sys.modules.get('contracts.c11')
if _parent is not None and hasattr(_parent, 'ASSUMPTIONS'):
    for _a in ASSUMPTIONS_KEXINIT:
        if _a not in _parent.ASSUMPTIONS:
            _parent.ASSUMPTIONS.append(_a)


# bound the counter-model search when a change breaks many paths of one function at once
for _sp in [v_ for v_ in list(globals().values()) if isinstance(v_, Spec) and v_.prop == 'C11']:
    if getattr(_sp, 'confirm_limit', None) is None:
        _sp.confirm_limit = 2
