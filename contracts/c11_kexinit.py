"""C11 (d),(e),(f) — simultaneous / repeated key exchange bookkeeping.

  (d) _process_kexinit answers a peer's KEXINIT with our own iff ours has not been sent yet for this exchange, and in
      every case leaves `_kexinit_sent` False: "our KEXINIT for the NEXT exchange has not been sent".  (If the flag
      stayed True after an exchange the peer started, the next peer-initiated re-key would never be answered.)
      _send_kexinit starts an exchange: _kex_complete := False, both re-key counters reset, exactly one KEXINIT on the
      wire whose payload is recorded as OUR I_C / I_S; it does not own the `_kexinit_sent` flag (it is also the
      responder's answer).  A second KEXINIT while an exchange is running is a ProtocolError.
  (e) the session identifier is written once, by the first exchange (send_newkeys; pieces from contracts/c02.py).
  (f) _process_newkeys switches to the staged receive keys and clears the stage, so a replayed NEWKEYS is an error.

Nothing is exported by `from .c11_kexinit import *`: the Specs register themselves.
"""
import ast
import sys as _sys
import z3
from pyvc.contracts import *
from pyvc.engine import Out
from pyvc.values import *
from .common import CONN_FIELDS, PACKET_CLASSES, PACKET_INLINE, PACKET_TRUTHY, ROLE_STUBS
from .c06_handlers import (HSpec, finish, total, ki_cut0, ki_cut, ki_setup, KI_CASES, KI_INLINE, PARAMS as KI_PARAMS,
                           is_set, pkt, pkt_wf, nk_switched, first_check_region, CLASSES as H_CLASSES)

__all__ = ['extra_checks']       # c11.py has no extra_checks of its own

ASSUMPTIONS_KEXINIT = [
    '_kexinit_sent writers, all under contract: the re-key trigger in send_packet (c11.py: set iff an exchange started '
    'in the activation), the tail of _recv_version (region contract here: first KEXINIT sent once and recorded), '
    '_process_kexinit (region contract here: always False afterwards); _send_kexinit itself leaves the flag alone '
    '(frame proved here).  K3 `_kex is not None => not _kexinit_sent` is a precondition of send_newkeys: the region '
    'contract of _process_kexinit proves the flag False at the point where the negotiation (which creates _kex) '
    'starts; that nothing in between (the [negotiate] region: no send_packet call) sets it again is by the frame of '
    'c03.kexinit_negotiate, registered under C11 as well',
    '_session_id writers: __init__ (b\'\') and send_newkeys (writer scan); packet.NameList is an uninterpreted '
    'encoding; time.monotonic() is an uninterpreted non-decreasing integer',
    'send_newkeys (C11 clone of the C02 contract frame): send_packet(MSG_NEWKEYS) and _send_deferred_packets() go '
    'through their verified contracts; _send_ext_info / send_service_request remain abstract (no effect on the '
    'send-side bookkeeping is modelled for them: each is one more send_packet call of a type that is never queued '
    'while _kex_complete is still False); cipher block sizes are 1, 8 or 16 (read from the registered cipher table '
    'as data: lemma in extra_checks)',
    'clauses shared with other properties are registered under C11 too (same Spec objects): c03.kexinit_record, '
    'c03.kexinit_negotiate, c02.compute_key, c06.finish_recv_packet, c06.recv_packet (own C11 clauses)',
]

# ------------------------------------------------------------------------------------------------ _send_kexinit
SK_FIELDS = dict(CONN_FIELDS, **{
    '_client_kexinit': 'bytes', '_server_kexinit': 'bytes', '_gss': 'opt[obj:GSS]', '_gss_kex': 'bool',
    '_kex_algs': 'seq[bytes]', '_server_host_key_algs': 'seq[bytes]', '_enc_algs': 'seq[bytes]',
    '_mac_algs': 'seq[bytes]', '_cmp_algs': 'seq[bytes]', '_session_id': 'bytes',
})
SK_CLASSES = {'SSHConnection': SK_FIELDS, 'GSS': {'mechs': 'seq[bytes]'}, 'Encryption': {}, 'Decompressor': {},
              'Compressor': {}, 'Kex': {}, 'Auth': {}, 'Channel': {}, 'Task': {}}
_namelist = z3.Function('namelist_enc', z3.SeqSort(BytesS), BytesS)


def namelist_stub(cx):
    v = cx.ex.deref(cx.st, cx.args[0])
    z = v.z if isinstance(v, VSeq) else to_z3(v, parse_type('seq[bytes]'))
    return VBytes(_namelist(z))


namelist_stub.modifies = ()
# (_send_seq is NOT framed: the KEXINIT that goes out advances it - it is in `modifies` through send_packet's contract)
SK_FRAME = ['_kexinit_sent', '_session_id', '_strict_kex', '_recv_seq', '_auth_complete',
            '_rekey_bytes', '_rekey_seconds']
SK_REF_FRAME = ['_kex', '_recv_encryption', '_send_encryption', '_next_recv_encryption', '_auth']


def sk_own_peer(c):
    isc = c.old('_is_client')
    return (z3.If(isc, c.new('_client_kexinit'), c.new('_server_kexinit')),
            z3.If(isc, c.new('_server_kexinit'), c.new('_client_kexinit')),
            z3.If(isc, c.old('_server_kexinit'), c.old('_client_kexinit')))


def sk_wire(c):
    """exactly one packet goes out: KEXINIT (20), and what is recorded as our I_C / I_S is that very payload with the
    type byte in front (RFC 4253 8: I_C / I_S are the payloads of the KEXINIT messages)"""
    sp = c.calls('send_packet')
    own, peer_new, peer_old = sk_own_peer(c)
    return z3.And(z3.BoolVal(len(sp) == 1), sp[0]['args'][0].z == 20,
                  own == z3.Concat(z3.Unit(z3.IntVal(20)), sp[0]['args'][1].z), peer_new == peer_old)


def sk_counters(c):
    clk = [x for x in c.calls() if x['key'] == 'time.monotonic']
    sec = c.old('_rekey_seconds')
    timer = (c.new('_rekey_time') == clk[0]['ret'].z + sec) if clk else z3.BoolVal(False)
    return z3.And(z3.Not(c.new('_kex_complete')), c.new('_rekey_bytes_sent') == 0,
                  z3.If(sec != 0, timer, c.new('_rekey_time') == c.old('_rekey_time')))


def sk_frame(c):
    return z3.And([c.new(f) == c.old(f) for f in SK_FRAME] + [c.eq(c.oldv(f), c.newv(f)) for f in SK_REF_FRAME])


def _c11():
    from . import c11
    return c11


def sk_send_inv(c, old=True):
    return _c11().send_inv(c, old)


def sk_rollover(c):
    """send_packet(MSG_KEXINIT) raised: sequence rollover before the first keys (see send_packet)"""
    return z3.And(z3.Not(is_set(c, '_send_encryption')), c.new('_send_seq') == 0)


send_kexinit = finish(Spec(
    'C11', 'connection', 'SSHConnection._send_kexinit', self_class='SSHConnection', classes=SK_CLASSES,
    stubs=dict(ROLE_STUBS, **{'expand_kex_algs': ret('seq[bytes]', 'kex_algs'),
                              'self._get_extra_kex_algs': ret('seq[bytes]', 'extra_kex_algs'),
                              'NameList': namelist_stub,
                              # the KEXINIT goes out through the verified contract of send_packet (c11.py)
                              'self.send_packet': contract_stub(lambda: _c11().send_packet)}),
    requires=lambda c: sk_send_inv(c),
    ensures=[('exchange-started:kex_complete-false,rekey-counters-reset', sk_counters),
             ('one-KEXINIT-sent-and-recorded-as-our-own', sk_wire),
             ('does-not-own-kexinit_sent;no-other-phase-state-touched', sk_frame)],
    # (the clauses below do not read the call log: they are what callers may rely on, on every outcome)
    always=[('class-inv', lambda c: sk_send_inv(c, old=False)),
            ('exchange-started', lambda c: z3.And(z3.Not(c.new('_kex_complete')), c.new('_rekey_bytes_sent') == 0)),
            ('frame:kexinit_sent-and-the-other-phase-state-untouched(every-outcome)', sk_frame),
            ('KEXINIT-is-never-queued', lambda c: c.new('_deferred_packets') == c.old('_deferred_packets')),
            ('a-failed-assertion-comes-before-anything-is-sent', lambda c: z3.BoolVal(
                c.raised != 'AssertionError' or not c.calls('send_packet')))],
    raises={'AssertionError': lambda c: z3.And(c.old('_gss_kex'), z3.Not(is_set(c, '_gss'))),
            'ProtocolError': sk_rollover, 'CompressionError': True},
    modifies=['_kex_complete', '_rekey_bytes_sent', '_rekey_time', '_client_kexinit', '_server_kexinit',
              '_send_seq', '_kexinit_sent', '_deferred_packets']))


# ------------------------------------------------------------------------------------------------ _process_kexinit
# _send_kexinit as called from _process_kexinit: the contract proved above (contract_stub)
PK_FIELDS = dict(SK_FIELDS, **H_CLASSES['SSHConnection'])
PK_CLASSES = dict(SK_CLASSES, **dict(H_CLASSES, SSHConnection=PK_FIELDS))
PK_STUBS = dict(ROLE_STUBS, **{'self._send_kexinit': contract_stub(lambda: send_kexinit),
                               'self._gss.reset': noop(), 'expand_kex_algs': ret('seq[bytes]', 'local_kex_algs')})
PK_RAISES = {'AssertionError': lambda c: z3.And(c.old('_gss_kex'), z3.Not(is_set(c, '_gss'))),
             'CompressionError': True}


def pk_answered(c):
    n = len(c.calls('_send_kexinit'))
    return z3.And(z3.Implies(c.old('_kexinit_sent'), z3.BoolVal(n == 0)),
                  z3.Implies(z3.Not(c.old('_kexinit_sent')), z3.BoolVal(n == 1)))


kexinit_answer = finish(HSpec(
    'C11', 'connection', 'SSHConnection._process_kexinit', self_class='SSHConnection', params=KI_PARAMS,
    classes=PK_CLASSES, truthy=PACKET_TRUTHY, inline=KI_INLINE, stubs=PK_STUBS, cases=KI_CASES, setup=ki_setup,
    region=lambda fn: fn.body[ki_cut0(fn):ki_cut(fn)], requires=lambda c: sk_send_inv(c),
    ensures=[('own-KEXINIT-sent-iff-not-yet-sent-for-this-exchange', pk_answered),
             ('afterwards:our-KEXINIT-for-the-NEXT-exchange-has-not-been-sent', lambda c: z3.Not(c.new('_kexinit_sent'))),
             ('session-id-untouched', lambda c: c.new('_session_id') == c.old('_session_id'))],
    always=[('at-most-one-KEXINIT-of-ours', lambda c: z3.BoolVal(len(c.calls('_send_kexinit')) <= 1))],
    # (the strict-kex first-packet rule is checked before our KEXINIT is sent; the only ProtocolError after that is
    # the sequence rollover of send_packet)
    raises=dict(PK_RAISES, ProtocolError=lambda c: z3.Or(z3.BoolVal(not c.calls('_send_kexinit')), sk_rollover(c)))))
kexinit_answer.tag = 'record'
kexinit_answer.no_replay = True


kexinit_second = finish(HSpec(
    'C11', 'connection', 'SSHConnection._process_kexinit', self_class='SSHConnection', params=KI_PARAMS,
    classes=PK_CLASSES, truthy=PACKET_TRUTHY, inline=KI_INLINE, stubs=PK_STUBS, requires=pkt_wf,
    region=first_check_region,
    ensures=[('KEXINIT-accepted-only-when-no-exchange-is-running', lambda c: z3.Not(is_set(c, '_kex')))],
    always=[('second-KEXINIT-is-fatal-before-anything-is-read-or-written', lambda c: z3.Implies(
        is_set(c, '_kex'), z3.And(z3.BoolVal(c.raised == 'ProtocolError' and not c.calls('_send_kexinit')),
                                  pkt(c, new=True)['_idx'].z == 1,
                                  c.new('_kexinit_sent') == c.old('_kexinit_sent'))))],
    raises=dict(PK_RAISES, ProtocolError=lambda c: is_set(c, '_kex'))))
kexinit_second.tag = 'already-running'
kexinit_second.no_replay = True


# ------------------------------------------------------------------------------------------------ _recv_version (first KEXINIT)
# the other writer of `_kexinit_sent = True`: right after the peer's version line was accepted our first KEXINIT goes
# out and the flag records it (so that the peer's KEXINIT, which is the answer to it or crosses it, is NOT answered
# with a second one).  Region = the statements of that branch from the _send_kexinit() call on.
def rv_tail_region(fn):
    for node in ast.walk(fn):
        if isinstance(node, ast.If):
            for i, st_ in enumerate(node.body):
                if isinstance(st_, ast.Expr) and isinstance(st_.value, ast.Call) and \
                        ast.unparse(st_.value.func) == 'self._send_kexinit':
                    return node.body[i:]
    raise Unsupported('_recv_version: no _send_kexinit() call (region of the first-KEXINIT contract)')


recv_version_tail = finish(HSpec(
    'C11', 'connection', 'SSHConnection._recv_version', self_class='SSHConnection',
    classes=dict(SK_CLASSES, SSHConnection=dict(SK_FIELDS)), region=rv_tail_region,
    stubs={'self._send_kexinit': contract_stub(lambda: send_kexinit)},
    requires=lambda c: sk_send_inv(c),
    ensures=[('first-KEXINIT-sent-once-and-recorded-in-kexinit_sent', lambda c: z3.And(
        z3.BoolVal(len(c.calls('_send_kexinit')) == 1), c.new('_kexinit_sent'), z3.Not(c.new('_kex_complete')))),
        ('packet-framing-starts-after-the-version-line', lambda c: c.eq(
            c.newv('_recv_handler'), VTag('method:SSHConnection._recv_pkthdr')))],
    raises={'AssertionError': lambda c: z3.And(c.old('_gss_kex'), z3.Not(is_set(c, '_gss'))),
            'ProtocolError': sk_rollover, 'CompressionError': True}))
recv_version_tail.tag = 'first-kexinit'
recv_version_tail.no_replay = True


# ------------------------------------------------------------------------------------------------ _process_newkeys
def nk_replay_is_error(c):
    """the state a successful NEWKEYS leaves behind is exactly the state in which NEWKEYS is refused"""
    return z3.Not(is_set(c, '_next_recv_encryption', old=False))


process_newkeys_c11 = finish(Spec(
    'C11', 'connection', 'SSHConnection._process_newkeys', self_class='SSHConnection', params=KI_PARAMS,
    classes=H_CLASSES, truthy=PACKET_TRUTHY, inline=dict(PACKET_INLINE), requires=pkt_wf,
    ensures=[('receive-side-switches-to-the-staged-keys', nk_switched),
             ('stage-cleared(replayed-NEWKEYS-is-refused)', nk_replay_is_error)],
    raises={'ProtocolError': lambda c: z3.Not(is_set(c, '_next_recv_encryption')),
            'PacketDecodeError': lambda c: z3.And(c.eq(c.oldv('_recv_encryption'), c.newv('_recv_encryption')),
                                                  c.eq(c.oldv('_next_recv_encryption'),
                                                       c.newv('_next_recv_encryption')))}))


# ------------------------------------------------------------------------------------------------ session id (e)
def _c02():
    """contracts/c02.py, when it is completely imported (it imports c11 itself: skipped while `./check C02` loads)"""
    try:
        from . import c02
    except Exception:       # noqa
        return None
    return c02 if hasattr(c02, 'send_newkeys') else None


def same_obj(v, ref):
    """v (a field value) is the object `ref`"""
    if isinstance(v, VRef):
        return z3.BoolVal(isinstance(ref, VRef) and v.addr == ref.addr)
    if isinstance(v, VOpt) and isinstance(v.val, VRef):
        return z3.And(z3.Not(v.isnone), z3.BoolVal(isinstance(ref, VRef) and v.val.addr == ref.addr))
    return z3.BoolVal(False)


def _newkeys_sent(st):
    return any(x['key'] == 'self.send_packet' and x['exc'] is None and concrete_int(x['args'][0]) == 21
               for x in st.calls)


def _made_keys(st):
    return [x['ret'] for x in st.calls if x['key'] == 'get_encryption' and x['exc'] is None]


def nk_send_stub(cx):
    """self.send_packet inside send_newkeys = the VERIFIED contract of send_packet (c11.py), plus the ordering this
    property needs: NEWKEYS leaves while the exchange is still marked as running (so nothing that was held back can
    overtake it) and under the OLD send keys (RFC 4253 7.3: the new keys apply AFTER it)"""
    if concrete_int(cx.args[0]) == 21:
        old_enc = cx.ex.get_field(cx.ex.entry_state, cx.ex.self_ref, '_send_encryption')
        cx.require('NEWKEYS-leaves-while-the-exchange-is-still-marked-running', z3.Not(cx.selff('_kex_complete').z))
        cx.require('NEWKEYS-leaves-under-the-old-send-keys',
                   cx.ex.veq(cx.st, old_enc, cx.selff('_send_encryption')))
    outs = contract_stub(lambda: _c11().send_packet)(cx)
    outs[0].event = ('send_packet', tuple(cx.args))
    return outs


nk_send_stub.modifies = ()
nk_send_stub.spec_getter = lambda: _c11().send_packet


def nk_flush_stub(cx):
    """self._send_deferred_packets() at the end of send_newkeys = the VERIFIED contract of _send_deferred_packets
    (its precondition - class invariant of the send side, legal types in the queue - is an obligation here), plus the
    ordering: what was held back during the exchange is released only once NEWKEYS is out, the new send keys are
    installed and _kex_complete is raised.  The two ghost logs of the flush are local to it: they start empty."""
    made = _made_keys(cx.st)
    cur = cx.selff('_send_encryption')
    cx.require('flush-only-after-kex_complete-is-raised', cx.selff('_kex_complete').z)
    cx.require('flush-only-after-NEWKEYS-went-out', z3.BoolVal(_newkeys_sent(cx.st)))
    cx.require('flush-only-under-the-new-send-keys', z3.Or(*[same_obj(cur, m) for m in made] + [z3.BoolVal(False)]))
    c11 = _c11()
    empty = VSeq(z3.Empty(sort_of(parse_type(c11.SEQT))), parse_type(c11.TUP))
    for g in ('ghost_resubmitted', 'ghost_requeued'):
        cx.st.set_field(cx.ex.self_ref, g, empty)
    outs = contract_stub(lambda: c11.send_deferred)(cx)
    outs[0].event = ('flush_deferred', ())
    return outs


nk_flush_stub.modifies = ()
nk_flush_stub.spec_getter = lambda: _c11().send_deferred


def nk_enc_params_stub(inner):
    """get_encryption_params as in c02.py, plus the fact (read from the registered cipher table as data, see
    extra_checks) that cipher block sizes are 1, 8 or 16 - so the send block size installed here satisfies the class
    invariant of the send side (8 <= block size <= 128) that _send_deferred_packets / send_packet require"""
    def stub(cx):
        outs = inner(cx)
        bs = outs[0].ret.items[2].z
        outs[0].assume.append(z3.Or(bs == 1, bs == 8, bs == 16))
        return outs
    stub.modifies = ()
    return stub


def nk_flushed(c):
    """a completed exchange releases the held-back packets exactly once, after _kex_complete was raised (pre-at-call
    obligation of the flush; the flush itself may start the NEXT exchange when the backlog reaches the byte limit, so
    nothing is said about the flag afterwards).  The only normal return without a flush is the connect(wait='kex')
    short-cut, which leaves the exchange marked as running: nothing flows, the caller closes."""
    n = len(c.calls('_send_deferred_packets'))
    early = len(c.events('waiter_set')) == 1
    return z3.Or(z3.BoolVal(n == 1 and not early),
                 z3.And(z3.BoolVal(n == 0 and early), c.new('_kex_complete') == c.old('_kex_complete')))


def nk_fresh_keys(c):
    """traffic after NEWKEYS is protected with freshly derived keys: the send cipher and the staged receive cipher
    are the two objects built in THIS activation from the new (k, h) - never a left-over of the previous exchange.
    (Which letters / directions they are built from is C02: rfc4253-7.2-letters-and-directions.)"""
    made = _made_keys(c.new_state)
    if len(made) != 2:
        return z3.BoolVal(False)
    send, recv = c.newv('_send_encryption'), c.newv('_next_recv_encryption')
    return z3.If(c.old('_is_client'), z3.And(same_obj(send, made[0]), same_obj(recv, made[1])),
                 z3.And(same_obj(send, made[1]), same_obj(recv, made[0])))


def nk_fresh_compression(c):
    """algorithm changes between exchanges: the compression contexts belong to ONE exchange - the send compressor that
    is installed and the receive decompressor that is staged are the objects built in THIS activation for the newly
    negotiated algorithm of their direction (None when that algorithm is 'none'), never a left-over stream of the
    previous exchange (the peer starts a fresh zlib stream at its NEWKEYS), and the delayed-compression flags are
    those of the new algorithms"""
    comp = [x for x in c.calls('get_compressor') if x['exc'] is None]
    dec = [x for x in c.calls('get_decompressor') if x['exc'] is None]
    par = [x for x in c.calls('get_compression_params') if x['exc'] is None]
    if len(comp) != 1 or len(dec) != 1 or len(par) != 2:
        return z3.BoolVal(False)
    isc = c.old('_is_client')
    cs, sc = c.old('_cmp_alg_cs'), c.old('_cmp_alg_sc')
    return z3.And(c.eq(c.newv('_compressor'), comp[0]['ret']), c.eq(c.newv('_next_decompressor'), dec[0]['ret']),
                  comp[0]['args'][0].z == z3.If(isc, cs, sc), dec[0]['args'][0].z == z3.If(isc, sc, cs),
                  par[0]['args'][0].z == cs, par[1]['args'][0].z == sc,
                  c.new('_compress_after_auth') == z3.If(isc, par[0]['ret'].z, par[1]['ret'].z),
                  c.new('_next_decompress_after_auth') == z3.If(isc, par[1]['ret'].z, par[0]['ret'].z))


def nk_bookkeeping(c):
    """_kex_complete is raised only by an activation that sent NEWKEYS and installed the new send keys; the exchange
    object is gone then (K: `_kex is not None => not _kex_complete` holds afterwards)"""
    raised_now = z3.And(c.new('_kex_complete'), z3.Not(c.old('_kex_complete')))
    made = _made_keys(c.new_state)
    cur = c.newv('_send_encryption')
    return z3.And(z3.Implies(raised_now, z3.And(z3.BoolVal(_newkeys_sent(c.new_state)),
                                                z3.Or(*[same_obj(cur, m) for m in made] + [z3.BoolVal(False)]))),
                  z3.Implies(is_set(c, '_kex', old=False), z3.Not(c.new('_kex_complete'))))


def cipher_block_sizes_lemma():
    """data: the block sizes in the registered cipher table (crypto/cipher.py _cipher_alg_list) are 1, 8 or 16"""
    from pyvc import extract
    sizes = set()
    try:
        for node in ast.walk(extract.get_module('crypto.cipher').tree):
            if isinstance(node, ast.Assign) and any(isinstance(t, ast.Name) and t.id == '_cipher_alg_list'
                                                    for t in node.targets):
                for elt in node.value.elts:
                    sizes.add(ast.literal_eval(elt.elts[-1]))
    except Exception as e:      # noqa
        return {'name': 'C11.crypto.cipher._cipher_alg_list#block-sizes-in-{1,8,16}', 'verdict': 'unknown',
                'reason': repr(e)}
    ok = bool(sizes) and sizes <= {1, 8, 16}
    return {'name': 'C11.crypto.cipher._cipher_alg_list#block-sizes-in-{1,8,16}',
            'verdict': 'proved' if ok else 'refuted', 'detail': sorted(sizes), 'backend': 'data (AST literal)',
            'replayed': True}


def extra_checks(tier, seed):
    return {'lemmas': [cipher_block_sizes_lemma()], 'bounded': []}


_c02m = _c02()
if _c02m is not None:
    _nk = _c02m.send_newkeys
    _nk11_fields = dict(_c11().SEND_FIELDS)
    _nk11_fields.update(_nk.classes['SSHConnection'])
    _nk11_fields.update(ghost_resubmitted=parse_type(_c11().SEQT), ghost_requeued=parse_type(_c11().SEQT))
    send_newkeys_sid = finish(Spec(
        'C11', 'connection', 'SSHConnection.send_newkeys', self_class='SSHConnection', params=dict(_nk.params),
        classes=dict(_c11().SEND_CLASSES, **dict(_nk.classes, SSHConnection=_nk11_fields)),
        stubs=dict(_nk.stubs, **{'self.send_packet': nk_send_stub, 'self._send_deferred_packets': nk_flush_stub,
                                 'get_encryption_params': nk_enc_params_stub(_nk.stubs['get_encryption_params'])}),
        # K, K3 (see ASSUMPTIONS of c11.py): the exchange that is being finished is marked as running, and our KEXINIT
        # for the NEXT one has not been sent (_process_kexinit[record] leaves the flag False before _kex is created);
        # class invariants of the send side and of the queue (proved on their writers send_packet / _send_kexinit /
        # _send_deferred_packets; send_newkeys itself re-establishes the framing part below)
        requires=lambda c: z3.And(_nk.requires(c), z3.Not(c.old('_kex_complete')), z3.Not(c.old('_kexinit_sent')),
                                  sk_send_inv(c), _c11().all_types_ok(c.old('_deferred_packets'))),
        ensures=[('session-id-written-once:first-exchange-hash,then-never-again', lambda c: c.new('_session_id') == z3.If(
            z3.Length(c.old('_session_id')) > 0, c.old('_session_id'), c.arg('h'))),
            ('held-back-packets-are-flushed-once-after-NEWKEYS', nk_flushed),
            ('new-send-keys-installed,new-receive-keys-staged:both-built-in-this-exchange', nk_fresh_keys),
            ('compression-contexts-are-rebuilt-for-this-exchange(send-installed,receive-staged)', nk_fresh_compression)],
        always=[('session-id-of-a-rekey-is-the-old-one', lambda c: z3.Implies(
            z3.Length(c.old('_session_id')) > 0, c.new('_session_id') == c.old('_session_id'))),
            ('kex_complete-raised-only-after-NEWKEYS-with-the-new-keys-installed', nk_bookkeeping),
            ('class-inv(send-side)', lambda c: sk_send_inv(c, old=False)),
            ('kexinit_sent-only-while-an-exchange-runs', lambda c: _c11().K2(c, old=False))],
        raises=dict(_nk.raises, ProtocolError=True, CompressionError=True,
                    AssertionError=lambda c: z3.And(c.old('_gss_kex'), z3.Not(is_set(c, '_gss'))))))
    for _attr in ('no_replay', 'opaque_native', 'runtime_class', 'feasible_timeout_ms', 'lazy_byte_ranges',
                  'model_timeout_ms', 'confirm_attempts'):
        if hasattr(_nk, _attr):
            setattr(send_newkeys_sid, _attr, getattr(_nk, _attr))


# ------------------------------------------------------------------------------------------------ receive gate during a re-key
# "A key re-exchange ... at any point in a busy session, loses ... no channel data and no request": while an exchange
# is running on a connection that already HAS receive keys, everything the peer may still have in flight keeps being
# accepted.  C06 states the soundness direction of the gate of _recv_packet (whatever is dispatched is allowed); this
# is the complementary direction for connections with receive keys: the gate itself ends the activation (ProtocolError
# with no handler invoked) only for the reasons the RFCs give, none of which is "a key exchange is running" -
#   30..49  no exchange object registered (RFC 4253 7)          60..79  no authentication in progress (RFC 4252)
#   > 79    authentication not complete (RFC 4252 6)            93..127 recipient channel unreadable or not open (RFC 4254)
# - in particular IGNORE / UNIMPLEMENTED / DEBUG are fatal only before the FIRST NEWKEYS (strict kex, no receive keys
# yet), never during a re-key; and a message no handler knows is answered UNIMPLEMENTED, not treated as a violation.
def _gate_records(c):
    return [x for x in c.new_state.calls if x['key'].endswith('process_packet')]


def _no_such_channel(c):
    """the recipient channel field (uint32 right behind the type byte, RFC 4254 5) cannot be read, or names no open
    channel of this connection"""
    from pyvc.builtins_model import unbe
    payload = c.new_state.rec(c.localv('packet')).fields['_packet'].z
    chans = c.oldv('_channels')
    return z3.Or(z3.Length(payload) < 5, z3.Not(z3.Select(chans.dom, unbe(z3.Extract(payload, 1, 4)))))


def gate_refuses_only_for_rfc_reasons(c):
    if c.raised != 'ProtocolError' or _gate_records(c) or not c.has_local('pkttype'):
        return z3.BoolVal(True)
    t = c.local('pkttype')
    return z3.Implies(is_set(c, '_recv_encryption'), z3.Or(
        z3.And(t >= 30, t <= 49, z3.Not(is_set(c, '_kex'))),
        z3.And(t >= 60, t <= 79, z3.Not(is_set(c, '_auth'))),
        z3.And(t > 79, z3.Not(c.old('_auth_complete'))),
        z3.And(t >= 93, t <= 127, _no_such_channel(c))))


def handled_message_is_not_a_violation(c):
    """with receive keys, once a handler ran the only ProtocolError is one the handler itself raised (malformed message)"""
    recs = _gate_records(c)
    if c.raised != 'ProtocolError' or not recs:
        return z3.BoolVal(True)
    return z3.Implies(is_set(c, '_recv_encryption'), z3.BoolVal(any(x['exc'] is not None for x in recs)))


def _c06_gate():
    try:
        from . import c06
    except Exception:       # noqa
        return None
    return getattr(c06, 'recv_packet', None)


_gate = _c06_gate()
if _gate is not None:
    import copy as _copy
    recv_gate_rekey = _copy.copy(_gate)         # same function, heap shape, stubs and precondition as C06's contract
    recv_gate_rekey.prop = 'C11'
    recv_gate_rekey.ensures = []
    recv_gate_rekey.always = [
        ('with-receive-keys-the-gate-refuses-only-for-RFC-reasons(never-because-a-re-key-is-running)',
         total(gate_refuses_only_for_rfc_reasons)),
        ('with-receive-keys-a-handled-message-is-never-a-strict-kex-violation', total(handled_message_is_not_a_violation))]
    recv_gate_rekey.crosscheck_limit = 4        # the function is cross-checked path by path under C06 already
    Spec.registry.append(recv_gate_rekey)


# ------------------------------------------------------------------------------------------------ clauses shared with C02 / C03 / C06
# Four sentences of this property are stated (and proved) in the sidecars of the properties that own the functions.
# The same Spec objects are registered under C11 as well, so that `./check C11` alone notices a change that breaks a
# RE-key while leaving the first exchange intact (same contract, same code, property id C11; cross-check samples are
# kept small because every path is cross-checked under the home property):
#   c03.kexinit_record      the peer's KEXINIT is recorded verbatim at EVERY exchange (H is over I_C / I_S of this one)
#   c03.kexinit_negotiate   the algorithms of both directions are negotiated anew at every exchange
#   c02.compute_key         RFC 4253 7.2 key expansion binds the session id handed in (send_newkeys passes the ORIGINAL
#                           one, see session-id clauses above), not the current exchange hash
#   c06.finish_recv_packet  strict kex: the RECEIVE sequence number restarts at every NEWKEYS (the send half is
#                           `seq-rule` of send_packet)
def _shared(modname, attr, tag=None):
    import copy as _cp
    import importlib
    try:
        sp = getattr(importlib.import_module('contracts.' + modname), attr, None)
    except Exception:       # noqa
        sp = None
    if sp is None:
        return None
    cp = _cp.copy(sp)
    cp.prop = 'C11'
    if tag is not None:
        cp.tag = tag
    cp.crosscheck_limit = 2
    Spec.registry.append(cp)
    return cp


shared_record = _shared('c03', 'kexinit_record', 'record:C03')
shared_negotiate = _shared('c03', 'kexinit_negotiate', 'negotiate:C03')
shared_compute_key = _shared('c02', 'compute_key')
shared_finish_recv = _shared('c06', 'finish_recv_packet')


_parent = _sys.modules.get('contracts.c11')
if _parent is not None and hasattr(_parent, 'ASSUMPTIONS'):
    for _a in ASSUMPTIONS_KEXINIT:
        if _a not in _parent.ASSUMPTIONS:
            _parent.ASSUMPTIONS.append(_a)


# bound the counter-model search when a change breaks many paths of one function at once
for _sp in [v_ for v_ in list(globals().values()) if isinstance(v_, Spec) and v_.prop == 'C11']:
    if getattr(_sp, 'confirm_limit', None) is None:
        _sp.confirm_limit = 2
